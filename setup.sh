#!/bin/sh
# build the harness (stable, dev+release) from files on disk only
cd "$(dirname "$0")" && exec ./check --setup
