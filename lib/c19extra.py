"""Extra sanitizer steps of C19 (thorough tier): Miri single-call runs and valgrind memcheck."""
import json
import os
import random
import re
import subprocess
import tempfile
import time
from concurrent.futures import ThreadPoolExecutor

EXPECTED_MIRI = "incorrect layout on deallocation"


def miri_cases(seed, n):
    """geometries for single calls: paintable rectangles (some touching the last cell of the window), and
    rectangles reaching one cell past the window in each direction"""
    r = random.Random(seed)
    cases = []
    for i in range(n):
        w, h = r.randint(1, 6), r.randint(1, 5)
        kind = i % 4
        if kind == 0:      # touches the last cell
            l, t = r.randint(0, w - 1), r.randint(0, h - 1)
            rt, b = w - 1, h - 1
        elif kind == 1:    # anywhere inside
            l, t = r.randint(0, w - 1), r.randint(0, h - 1)
            rt, b = r.randint(l, w - 1), r.randint(t, h - 1)
        elif kind == 2:    # one column / row too far
            l, t = r.randint(0, w - 1), r.randint(0, h - 1)
            rt, b = (w, r.randint(t, h - 1)) if r.random() < 0.5 else (r.randint(l, w - 1), h)
        else:              # last pixel lands exactly on buffer[len]
            l, t, rt, b = 0, max(0, h - 2), 0, h
        iw, ih = max(0, rt - l + 1) + r.choice([0, 0, 1]), max(0, b - t + 1) + r.choice([0, 0, 1])
        data = bytes(r.getrandbits(8) for _ in range(iw * ih * 4))
        cases.append({"replay": {"win": [w, h], "rect": [l, t, rt, b], "img": [iw, ih], "bpp": 32, "compress": False,
                                 "data": data.hex(), "data_len": len(data), "class": "miri-%d" % kind}})
    return cases


def run(tier, seed, violations, inconclusive, cov, build, base_env, HARNESS, BUILD, GUARD, log):
    full = tier == "thorough" or os.environ.get("VERIF_C19_EXTRA") == "1"
    san = {}
    # ---- Miri: one call per process (the interpreter stops at transmute_vec's deallocation layout, which is expected)
    n = 256 if tier == "thorough" else 24
    cases = miri_cases(seed, n)
    env = base_env()
    env["RUSTFLAGS"] = GUARD
    env["CARGO_TARGET_DIR"] = os.path.join(BUILD, "miri")
    env["MIRIFLAGS"] = "-Zmiri-disable-isolation -Zmiri-disable-alignment-check"
    tmp = tempfile.mkdtemp(prefix="c19miri", dir=os.path.join(BUILD))
    base = ["cargo", "+nightly", "miri", "run", "--bin", "rdpverif-gui", "--features", "gui", "--no-default-features", "--"]
    # first run alone (builds the miri sysroot and the crate), then the rest in parallel
    def one(i):
        f = os.path.join(tmp, "case%d.json" % i)
        json.dump(cases[i], open(f, "w"))
        try:
            p = subprocess.run(base + ["C19", "--replay", f, "--out", os.path.join(tmp, "out%d.json" % i)], cwd=HARNESS, env=env,
                               stdout=subprocess.PIPE, stderr=subprocess.STDOUT, text=True, timeout=1800)
            out = p.stdout
        except subprocess.TimeoutExpired:
            return i, "timeout", ""
        errs = re.findall(r"error: Undefined Behavior: ([^\n]*)", out)
        unsupported = re.findall(r"error: unsupported operation: ([^\n]*)", out)
        if errs:
            if all(EXPECTED_MIRI in e for e in errs):
                return i, "expected-terminal", errs[0]
            return i, "ub", errs[0]
        if unsupported:
            return i, "unsupported", unsupported[0]
        if "could not compile" in out or "error[" in out:
            return i, "build-error", out[-400:]
        return i, "clean", ""
    t0 = time.time()
    res = [one(0)]
    if res[0][1] not in ("build-error",):
        with ThreadPoolExecutor(max_workers=12) as ex:
            res += list(ex.map(one, range(1, n)))
    hist = {}
    for i, kind, msg in res:
        hist[kind] = hist.get(kind, 0) + 1
        if kind == "ub":
            violations.append(("C19/miri/" + re.sub(r"alloc\d+|0x[0-9a-f]+|\d+", "N", msg)[:120], "Miri: %s on case %s" % (msg, json.dumps(cases[i]["replay"])[:300]), cases[i]["replay"], "miri", 1))
        elif kind in ("timeout", "unsupported", "build-error"):
            inconclusive.append("miri case %d: %s %s" % (i, kind, msg[:120]))
    san["miri"] = {"cases": n, "results": hist, "wall_s": round(time.time() - t0, 1),
                   "note": "every call ends at the expected diagnostic of transmute_vec (deallocation with another layout); any other diagnostic is a violation"}
    if not full:
        san["memcheck"] = "thorough tier only"
        cov["sanitizers"] = san
        return
    # ---- valgrind memcheck on the release binary without the counting allocator
    env2 = base_env()
    env2["RUSTFLAGS"] = GUARD
    env2["CARGO_TARGET_DIR"] = os.path.join(BUILD, "memcheck")
    t0 = time.time()
    b = subprocess.run(["cargo", "build", "--release", "--bin", "rdpverif-gui", "--features", "gui", "--no-default-features"], cwd=HARNESS, env=env2,
                       stdout=subprocess.PIPE, stderr=subprocess.STDOUT, text=True)
    if b.returncode != 0:
        inconclusive.append("memcheck build failed")
    else:
        binary = os.path.join(BUILD, "memcheck", "release", "rdpverif-gui")
        out = os.path.join(tmp, "memcheck.json")
        p = subprocess.run(["valgrind", "--quiet", "--error-exitcode=9", "--leak-check=no", binary, "C19", "--tier", "quick", "--seed", str(seed), "--threads", "4",
                            "--scale", "0.05", "--only-class", "2", "--out", out, "--cpu-limit", "600"], stdout=subprocess.DEVNULL, stderr=subprocess.PIPE, text=True, timeout=3600, env=env2)
        errs = re.findall(r"==\d+== (Invalid (?:read|write) of size \d+)", p.stderr)
        n_cases = 0
        if os.path.exists(out):
            try:
                n_cases = json.load(open(out)).get("evaluations", 0)
            except Exception:
                pass
        if errs:
            frame = re.search(r"(mstsc-rs\.rs:\d+)", p.stderr)
            violations.append(("C19/memcheck/" + re.sub(r"\d+", "N", errs[0]), "valgrind memcheck: %s (%s); %d reports" % (errs[0], frame.group(1) if frame else "?", len(errs)), {"memcheck": p.stderr[-1500:]}, "memcheck", len(errs)))
        elif p.returncode != 0:
            inconclusive.append("memcheck run exited with %d" % p.returncode)
        san["memcheck"] = {"cases": n_cases, "reports": len(errs), "wall_s": round(time.time() - t0, 1)}
    cov["sanitizers"] = san
