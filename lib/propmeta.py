"""Static description of each check: build modes, evidence level, rule text, assumptions, floors."""
import os


def threads():
    try:
        return max(1, min(16, len(os.sched_getaffinity(0))))
    except Exception:
        return 16


PROPS = {
    "C08": {
        "modes": ["dbg", "rel"],
        "technique": "runtime monitoring: panic / allocation / CPU-time monitors + output-length oracle over exhaustive short inputs and grammar-aware hostile streams, debug and release builds",
        "level_text": "Every decode is executed on the real BitmapEvent::decompress under a panic recorder, a counting allocator and a thread-CPU watchdog, and its result length is compared with width*height*4. All data strings up to length 2 are enumerated over 64 small geometries (length 3 in the thorough tier); beyond that, coverage comes from grammar-aware hostile generation, so the claim is 'held on the N executions listed in the evidence', in both overflow-checking and release builds.",
        "level_note": "Trusted: the harness's counting allocator and panic hook; geometry is bounded by 512x512 for generated cases; inputs longer than 3 bytes are generated, not enumerated.",
        "level": "fault_enumeration",
        "rule": ("cases = (width, height, bpp, compression flag, data) fed to BitmapEvent::decompress under panic, allocation and CPU-time monitors; "
                 "classes: all data strings of length <=2 (thorough: <=3 for w,h<=2) over 64 small geometries at 16 and 32 bpp compressed (exhaustive), "
                 "grammar-aware hostile RLE-16 and planar streams (every order byte, run lengths at line end / buffer end +-1, 0xFFFF, truncated operands), "
                 "random bytes, uncompressed data with lengths around the exact size, unsupported depths, corrupted valid encodings with off-by-one geometry. "
                 "A case is non-trivial when w*h>0, data is non-empty and the depth is one the decoder implements; distinct = hash of the full case."),
        "assumptions": ["the allocation bound used is 4*(w*h*4) + 64 KiB + input length (DESIGN 2.3)",
                        "a decode that burns >20 s of thread CPU time is reported as non-terminating; none may occur"],
        "exhaustive": {"quick": False, "thorough": False},
        "floor": {"quick": 100000, "thorough": 1000000},
    },
    "C09": {
        "modes": ["dbg", "rel"],
        "level": "exploration",
        "technique": "runtime monitoring: differential oracle - conformant randomised/enumerating reference encoders (interleaved RLE-16, planar RLE-32, uncompressed) vs the real decompressor, byte-exact comparison",
        "level_text": "Each case is a real call of BitmapEvent::decompress on a stream produced by an independent conformant encoder whose every choice (order type, run split, length form, segmentation) is driven by a chooser; the result must equal the source image widened by exact rounding. All images of <=6 pixels over a 3-colour palette are enumerated with up to N encodings each (enumerated depth-first, not sampled), all 65536 colour values are checked, and random/structured images up to 64x64 (quick) or 256x256 (thorough) get many random encodings. The reference encoder is first round-tripped through a reference decoder; a failure there is a harness failure, not a violation.",
        "level_note": "Trusted: refs::rle (written from MS-RDPBCGR 2.2.9.1.1.3.1.2.4 / MS-RDPEGDI 2.2.2.5.1). Deliberately not generated (decoders of record disagree): an order crossing the end of the first scanline, and a background run directly after a background run that ended exactly at the end of the first scanline. Uncompressed 16 bpp only with even widths (row padding rule).",
        "rule": ("cases = (image, one conformant encoding of it); classes: all 65536 colours through a 256x256 colour image and raw 16 bpp; every image of w*h<=6 pixels over a 3-colour palette with its encodings enumerated depth first up to a cap; random and structured images (solid, stripes, row repeats, checkerboards, xor-sparse, xor-runs, runs, noise; ramps and extreme deltas at 32 bpp) with random encodings (order lengths capped at 3/8/40/300/unbounded to force splits); planar segmentations incl. long runs 16..47 and zero-raw segments; uncompressed. "
                 "distinct = hash of (depth, flag, geometry, stream); every case is non-trivial (the decoder must reproduce >=1 pixel)."),
        "assumptions": ["the two excluded RLE-16 corner constructs are outside 'conformant encoding' for this check (DESIGN 3, C09)"],
        "floor": {"quick": 100000, "thorough": 1000000},
    },
}
