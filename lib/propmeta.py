"""Static description of each check: build modes, evidence level, rule text, assumptions, floors."""
import os


def threads():
    try:
        return max(1, min(16, len(os.sched_getaffinity(0))))
    except Exception:
        return 16


PROPS = {
    "C08": {
        "modes": ["dbg", "rel"],
        "technique": "runtime monitoring: panic / allocation / CPU-time monitors + output-length oracle over exhaustive short inputs and grammar-aware hostile streams, debug and release builds",
        "level_text": "Every decode is executed on the real BitmapEvent::decompress under a panic recorder, a counting allocator and a thread-CPU watchdog, and its result length is compared with width*height*4. All data strings up to length 2 are enumerated over 64 small geometries (length 3 in the thorough tier); beyond that, coverage comes from grammar-aware hostile generation, so the claim is 'held on the N executions listed in the evidence', in both overflow-checking and release builds.",
        "level_note": "Trusted: the harness's counting allocator and panic hook; geometry is bounded by 512x512 for generated cases; inputs longer than 3 bytes are generated, not enumerated.",
        "level": "fault_enumeration",
        "rule": ("cases = (width, height, bpp, compression flag, data) fed to BitmapEvent::decompress under panic, allocation and CPU-time monitors; "
                 "classes: all data strings of length <=2 (thorough: <=3 for w,h<=2) over 64 small geometries at 16 and 32 bpp compressed (exhaustive), "
                 "grammar-aware hostile RLE-16 and planar streams (every order byte, run lengths at line end / buffer end +-1, 0xFFFF, truncated operands), "
                 "random bytes, uncompressed data with lengths around the exact size, unsupported depths, corrupted valid encodings with off-by-one geometry. "
                 "A case is non-trivial when w*h>0, data is non-empty and the depth is one the decoder implements; distinct = hash of the full case."),
        "assumptions": ["the allocation bound used is 4*(w*h*4) + 64 KiB + input length (DESIGN 2.3)",
                        "a decode that burns >20 s of thread CPU time is reported as non-terminating; none may occur"],
        "exhaustive": {"quick": False, "thorough": False},
        "floor": {"quick": 100000, "thorough": 1000000},
    },
}
