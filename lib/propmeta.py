"""Static description of each check: build modes, evidence level, rule text, assumptions, floors."""
import os


def threads():
    try:
        return max(1, min(16, len(os.sched_getaffinity(0))))
    except Exception:
        return 16


PROPS = {
    "C08": {
        "modes": ["dbg", "rel"],
        "technique": "runtime monitoring: panic / allocation / CPU-time monitors + output-length oracle over exhaustive short inputs and grammar-aware hostile streams, debug and release builds",
        "level_text": "Every decode is executed on the real BitmapEvent::decompress under a panic recorder, a counting allocator and a thread-CPU watchdog, and its result length is compared with width*height*4. All data strings up to length 2 are enumerated over 64 small geometries (length 3 in the thorough tier); beyond that, coverage comes from grammar-aware hostile generation, so the claim is 'held on the N executions listed in the evidence', in both overflow-checking and release builds.",
        "level_note": "Trusted: the harness's counting allocator and panic hook; geometry is bounded by 512x512 for generated cases; inputs longer than 3 bytes are generated, not enumerated.",
        "level": "fault_enumeration",
        "rule": ("cases = (width, height, bpp, compression flag, data) fed to BitmapEvent::decompress under panic, allocation and CPU-time monitors; "
                 "classes: all data strings of length <=2 (thorough: <=3 for w,h<=2) over 64 small geometries at 16 and 32 bpp compressed (exhaustive), "
                 "grammar-aware hostile RLE-16 and planar streams (every order byte, run lengths at line end / buffer end +-1, 0xFFFF, truncated operands), "
                 "random bytes, uncompressed data with lengths around the exact size, unsupported depths, corrupted valid encodings with off-by-one geometry. "
                 "A case is non-trivial when w*h>0, data is non-empty and the depth is one the decoder implements; distinct = hash of the full case."),
        "assumptions": ["the allocation bound used is 4*(w*h*4) + 64 KiB + input length (DESIGN 2.3)",
                        "a decode that burns >20 s of thread CPU time is reported as non-terminating; none may occur"],
        "exhaustive": {"quick": False, "thorough": False},
        "floor": {"quick": 100000, "thorough": 1000000},
    },
    "C09": {
        "modes": ["dbg", "rel"],
        "level": "exploration",
        "technique": "runtime monitoring: differential oracle - conformant randomised/enumerating reference encoders (interleaved RLE-16, planar RLE-32, uncompressed) vs the real decompressor, byte-exact comparison",
        "level_text": "Each case is a real call of BitmapEvent::decompress on a stream produced by an independent conformant encoder whose every choice (order type, run split, length form, segmentation) is driven by a chooser; the result must equal the source image widened by exact rounding. All images of <=6 pixels over a 3-colour palette are enumerated with up to N encodings each (enumerated depth-first, not sampled), all 65536 colour values are checked, and random/structured images up to 64x64 (quick) or 256x256 (thorough) get many random encodings. The reference encoder is first round-tripped through a reference decoder; a failure there is a harness failure, not a violation.",
        "level_note": "Trusted: refs::rle (written from MS-RDPBCGR 2.2.9.1.1.3.1.2.4 / MS-RDPEGDI 2.2.2.5.1). Deliberately not generated (decoders of record disagree): an order crossing the end of the first scanline, and a background run directly after a background run that ended exactly at the end of the first scanline. Uncompressed 16 bpp only with even widths (row padding rule).",
        "rule": ("cases = (image, one conformant encoding of it); classes: all 65536 colours through a 256x256 colour image and raw 16 bpp; every image of w*h<=6 pixels over a 3-colour palette with its encodings enumerated depth first up to a cap; random and structured images (solid, stripes, row repeats, checkerboards, xor-sparse, xor-runs, runs, noise; ramps and extreme deltas at 32 bpp) with random encodings (order lengths capped at 3/8/40/300/unbounded to force splits); planar segmentations incl. long runs 16..47 and zero-raw segments; uncompressed. "
                 "distinct = hash of (depth, flag, geometry, stream); every case is non-trivial (the decoder must reproduce >=1 pixel)."),
        "assumptions": ["the two excluded RLE-16 corner constructs are outside 'conformant encoding' for this check (DESIGN 3, C09)"],
        "floor": {"quick": 100000, "thorough": 1000000},
    },
    "C13": {
        "modes": ["dbg", "rel"],
        "level": "exploration",
        "technique": "runtime monitoring: recording fragmenting transport + by-construction frame oracle; payload, kind, flags and exact byte consumption compared after every read",
        "level_text": "The real tpkt::Client::read and x224::Client::read are driven over a transport that holds a concatenation of specified frames and hands bytes out per a schedule (1-byte dribble, fixed chunks 2..9, random splits, a split at every header offset); after every read the returned kind/flags/payload and the transport's consumed-byte counter are compared with the frame's specification. Thorough sweeps every TPKT length 0..65535 and every fast-path length in both forms; every action byte is covered in both tiers.",
        "level_note": "Trusted: the frame builder (TPKT: 03 pad len16be; fast-path: action, 1- or 2-byte length incl. header). At the X.224 level slow-path payloads without a valid 3-byte data header may be rejected (outcome not constrained, consumption still is). Frames below their header size must be the last of a sequence (the stream is unsynchronised afterwards).",
        "rule": ("cases = (sequence of frames, read schedule, level tpkt|x224); classes: TPKT declared-length sweep, fast-path short form: all 128 lengths x all action bytes, fast-path long-form length sweep, splits at every header offset, random sequences of 1..50 frames with payload sizes around 0, 127/128, 1500 and up to 6000; each followed by stamped frames so over-reads are visible. distinct = hash(frames, schedule, level); non-trivial when the stream has >= 3 bytes."),
        "assumptions": ["the transport never returns 0 before end of stream and never fails (read errors are not part of this property)"],
        "exhaustive": {"quick": False, "thorough": True},
        "floor": {"quick": 20000, "thorough": 500000},
    },
    "C14": {
        "modes": ["dbg", "rel"],
        "level": "fault_enumeration",
        "technique": "runtime monitoring: adversarial recording stream (short-write schedules, one injected fault at a chosen byte position) + by-construction frame oracle on the accepted bytes",
        "level_text": "Link::write, tpkt::Client::write and x224::Client::write are called on the real code over a stream that accepts at most cap_i bytes per call and raises one fault (hard error of six kinds, a transient EINTR, or Ok(0)) once a chosen number of bytes has been accepted - at every byte position for frames up to 70 bytes and sampled positions above. Ok requires the accepted bytes to equal the specified frame exactly; Err is allowed only when a fault fired or the payload cannot be framed in 16 bits. Sequences of 2..6 messages on one client expose state carried between messages. Thorough sweeps all payload lengths 0..70000 at the three levels.",
        "level_note": "Trusted: the frame specification (TPKT header 03 00 len16be, X.224 data header 02 F0 80). After a reported error the sequence stops (the connection is dead).",
        "rule": ("cases = (level, payload lengths of successive messages on one client, write-cap schedule, fault kind/position/message index); classes: length sweep with boundaries 0..300, 65500..65600, powers of two +-2; fault at every byte position of small frames; sampled fault positions in frames up to 66000 bytes; message sequences. distinct = hash of the case descriptor; every case is non-trivial (the stream observes at least the call)."),
        "assumptions": ["a transient EINTR may be retried or reported; both are accepted, silently dropping bytes is not"],
        "exhaustive": {"quick": False, "thorough": True},
        "floor": {"quick": 20000, "thorough": 500000},
    },
    "C03": {
        "modes": ["dbg"],
        "level": "exploration",
        "technique": "runtime monitoring: reference RDP server (reactive, in-process TLS + CredSSP/NTLM) with strict parsers; offline checker over the recorded event log (order, dependencies via consumed-byte clock, identifiers)",
        "level_text": "Every case runs the real client end to end - Connector::connect over real TLS (OpenSSL server state machine in memory) with or without CredSSP/NTLMv2, or layer by layer on a plain transport - against an independent reference server whose profile (user id, share id, version, GCC optional fields/extra blocks/order, domain parameters, licence variant, capability sets, reactivations) is generated. The server logs each strictly parsed client frame with the number of server bytes the client had consumed; an offline checker compares the log with the mandated sequence, the reply dependencies and the assigned identifiers, and requires the disconnect ultimatum on shutdown. Thorough sweeps every assignable user id.",
        "level_note": "Trusted: refs::proto / refs::ntlm / refs::cssp / server.rs (written from the specifications; NTLM primitives checked against MS-NLMP test vectors), OpenSSL. Assumed conforming-server envelope: I/O channel id 1003, user id not 1002/1003, NTLM CHALLENGE carries a Version field, CredSSP messages fit one read, client names/credentials ASCII here (Unicode is C04's subject).",
        "rule": ("cases = (connector configuration, server profile, reactivation share ids, transport plain|tls, certificate key type RSA-2048/3072/EC-P256, TLS 1.2 only or 1.3); classes: random profiles on the plain transport, TLS with SSL or Hybrid(NLA) selection, user-id sweep. A case is non-trivial when connect succeeded (the whole sequence was then checked); distinct = hash of the case descriptor."),
        "assumptions": ["a conforming server answers each request before the client may proceed; the reactive server does exactly that, so 'sent only after the reply it depends on' is checked through the consumed-byte counter"],
        "exhaustive": {"quick": False, "thorough": False},
        "floor": {"quick": 3000, "thorough": 50000},
    },
    "C04": {
        "modes": ["dbg"],
        "level": "exploration",
        "technique": "runtime monitoring: strict independent parsers (TPKT/X.224/MCS-PER/BER/GCC/info packet/share headers/capability sets/input PDU/TSRequest DER/NTLM field tables) applied to every frame the client writes in full sessions against the reference server",
        "level_text": "Full sessions (connect, activation, input events, reactivation, shutdown) are run on the real client with names, domains, users and passwords drawn from all of Unicode (empty, ASCII, Latin-1, BMP multi-byte, surrogate pairs), client names of every length 0..23 UTF-16 units around the 32-byte field, and credential sizes sweeping the PER length boundary of the MCS send-data request, on a plain transport and over TLS with CredSSP. Every client frame and token is parsed by the reference server's strict parsers: each length/count must equal what it describes, fixed fields must have their size, strings must be terminated as specified, nothing may trail.",
        "level_note": "Trusted: refs::proto / refs::ber / refs::per / refs::cssp / refs::ntlm strict parsers. Not asserted (left loose by the specification or ignored by peers): uncompressedLength, synchronize targetUser, streamId, sourceDescriptor content.",
        "rule": ("cases = (Unicode connector configuration, server profile, transport); a case is non-trivial when at least the 7 connection-sequence frames were parsed; distinct = hash of the case descriptor. Evidence counts the client frames parsed."),
        "assumptions": [],
        "floor": {"quick": 5000, "thorough": 100000},
    },
    "C12": {
        "modes": ["dbg"],
        "level": "exploration",
        "technique": "runtime monitoring: online comparison with a 6-state reference automaton over exhaustively enumerated server histories; black-box observation (emitted PDUs, input acceptance, delivered bitmaps) through the real RdpClient over TLS",
        "level_text": "All histories over the 11-symbol server alphabet up to length 4 (quick, 16 105) or 6 (thorough, 1.95 million) are executed, each on a fresh real RdpClient obtained through Connector::connect over TLS against the reference server, plus long random histories biased toward repeated activations (with share ids reused and changed, and multi-PDU payloads with a deactivate-all in the middle). After every step the PDUs the client emitted, the bitmap events it delivered and the outcome of three input attempts (write pointer, write key, try_write) are compared with a reference automaton written from the statement; the client's internal state is never read. The evidence lists the (state, symbol) pairs and distinct observations actually seen.",
        "level_note": "Trusted: the reference automaton (props/c12.rs: step()) and the reference server. A step's Ok/Err result is not constrained (only its effects are). Histories are bounded in length; the alphabet uses one representative per symbol (two for control-other, unknown-data, fp-other, 1..3 rectangles for fp-bitmap).",
        "rule": ("cases = server histories; every history of length <= L over {demand-active, synchronize, control-cooperate, control-granted, control-other, font-map, set-error-info, unknown data PDU, deactivate-all, fast-path bitmap, fast-path other} enumerated exhaustively (L=4 quick, 6 thorough), then random histories of length 7..40; distinct = hash(symbols, share ids); all are non-trivial (each step offers input and observes emissions)."),
        "assumptions": [],
        "exhaustive": {"quick": True, "thorough": True},
        "floor": {"quick": 16000, "thorough": 1000000},
    },
    "C10": {
        "modes": ["dbg"],
        "level": "exploration",
        "technique": "runtime monitoring: event log of application callbacks compared element-wise with the by-construction rectangle list of generated fast-path streams (stamped payloads), through RdpClient::read over TLS, the plain stack, and global::Client::read directly",
        "level_text": "Generated fast-path output streams (1..20 PDUs, 0..8 updates each, 0..12 rectangles per bitmap update, 13 kinds of non-bitmap updates including unknown codes and a malformed pointer, short and long length forms, uncompressed / compressed with and without the compression header, data lengths at 0,1,2,7,8,9 and up to what the enclosing length fields allow, zero-length rectangles and updates followed by more) are fed to a client in the active state; the sequence of bitmap events received by the callback must equal the specified rectangle list in count, order, every field and every data byte. Thorough covers every fast-path total length 2..32767.",
        "level_note": "Trusted: the fast-path builder in refs::proto (MS-RDPBCGR 2.2.9.1.2). Only well-formed, unfragmented, uncompressed-at-update-level streams are generated (as the client's capabilities negotiate); malformed streams belong to C06.",
        "rule": ("cases = sequences of fast-path PDUs; a case is non-trivial when it contains at least one rectangle; distinct = hash of the case descriptor; evidence counts PDUs and rectangles compared."),
        "assumptions": [],
        "floor": {"quick": 10000, "thorough": 300000},
    },
    "C11": {
        "modes": ["dbg"],
        "level": "exploration",
        "technique": "runtime monitoring: submission log vs input PDUs strictly decoded by the reference server after every RdpClient::write (one-to-one, in order, field-exact), interleaved with server traffic",
        "level_text": "Events are submitted through the real RdpClient::write on an active session over TLS; after each call the frames the reference server received are decoded strictly and must be exactly one input PDU with one event carrying the submitted coordinates / scancode and the flag combination for the button and press state, with the negotiated initiator, channel and share id (server-assigned ids are generated). Every x, every y and every scancode in 0..65535 is submitted at least once in both tiers; random sequences repeat coordinates, use extended scancodes, interleave fast-path and slow-path server traffic and offer an unsendable event kind (must be refused with zero bytes written).",
        "level_note": "Trusted: refs::proto input PDU parser; flag mapping from MS-RDPBCGR 2.2.8.1.1.3.1.1.3/.1.1.1 (button None = PTRFLAGS_MOVE, DOWN bit unconstrained on a move).",
        "rule": ("cases = event sequences on one session (sweep slices of 4096 values; random sequences of 1..200 operations); all non-trivial; distinct = hash of the case descriptor; evidence counts events submitted."),
        "assumptions": [],
        "exhaustive": {"quick": True, "thorough": True},
        "floor": {"quick": 1000, "thorough": 20000},
    },
    "C15": {
        "modes": ["dbg", "rel"],
        "level": "exploration",
        "technique": "runtime monitoring: differential oracle - every AUTHENTICATE token built by the real Ntlm object is verified by an independent MS-NLMP server implementation (own MD4/RC4/HMAC, MS-NLMP test vectors)",
        "level_text": "For generated accounts (Unicode domain/user/password incl. empty, long, mixed case, non-BMP), 8-byte challenges, target-info blocks (any subset/order of AV pairs with lengths 0..300 and a timestamp) and negotiated flag sets (with/without VERSION, UNICODE or OEM, 56, ALWAYS_SIGN, TARGET_TYPE), the client's NEGOTIATE and AUTHENTICATE are produced by the real code (from the password and from the NT hash) and checked by refs::ntlm::verify_authenticate: field table in bounds and non-overlapping, names decode to the account, NT proof, temp structure with the server's AV pairs and timestamp, LM proof, key exchange unwrap, MIC over the three messages. The verifier is first exercised against a reference client (accept honest, reject corrupted).",
        "level_note": "Trusted: refs::ntlm (NTOWFv2, HMAC-MD5, RC4, MD4 checked against RFC 1320 / MS-NLMP 4.2.4 vectors). OEM names restricted to ASCII. NTLMSSP_NEGOTIATE_128 and KEY_EXCH always negotiated. Names whose simple and full upper-casing differ are generated in a class whose rejections are recorded as observations only.",
        "rule": ("cases = (domain, user, password, from-hash?, flags, server challenge, target name, target info); classes: unicode-names, oem-charset, no-version-flag, mixed-case, special-uppercasing, flag-variants; all non-trivial; distinct = hash of the case."),
        "assumptions": ["a missing trailing Z(4) in temp is recorded as an observation, not judged (servers verify the proof over the bytes sent)"],
        "floor": {"quick": 10000, "thorough": 1000000},
    },
    "C16": {
        "modes": ["dbg", "rel"],
        "level": "fault_enumeration",
        "technique": "runtime monitoring: lock-step differential against an independent MS-NLMP sealing/signing implementation over interleaved wrap/unwrap histories; exhaustive single-bit tampering of sealed messages on replayed clone points",
        "level_text": "The client's security context - built by a real NTLM handshake (the reference recovers the session key from the token) or directly from mirrored keys - and the reference contexts are advanced in lock-step through histories of 1..12 wrap/unwrap operations with message lengths 0..300; every message the client seals must be byte-identical to the reference seal at that point of the sequence, every message sealed by the reference peer must unseal to its plaintext. For every peer message of length <= 64 every single-bit flip is tried, plus every truncation, 1..16-byte extensions, version and sequence-number substitutions, the same bit flipped in two checksum bytes and swapped checksum bytes; each tamper runs on a fresh context replayed to that position and must be rejected.",
        "level_note": "Trusted: refs::ntlm::Direction (MD5 key derivation with the MS-NLMP magic constants, RC4 state carried across messages, HMAC-MD5 signature). 128-bit keys with key exchange and extended session security only (what the client requests).",
        "rule": ("cases = (session key, history of wrap/unwrap operations); per unwrap operation the tamper set above; distinct = hash of the case; all non-trivial. Evidence counts tampered messages tried and rejected."),
        "assumptions": [],
        "floor": {"quick": 2000, "thorough": 100000},
    },
    "C18": {
        "modes": ["dbg", "rel"],
        "level": "exploration",
        "technique": "runtime monitoring: round-trip and differential oracles - shape generator (written message / empty message / expected leaves from one description) for the message model; independent reference PER, BER/DER, CredSSP and GCC codecs for the rest",
        "level_text": "(a) random message shapes (depth <= 4, width <= 8: integers of either endianness, fixed and size-governed byte blocks, constant-checked fields, nested records and trames, size-dependent fields with the size field adjacent or apart, skippable fields incl. skip chains, backward and self references, optional trailing fields, arrays) are built through the public constructors; length() must equal the bytes written, the bytes must equal the reference encoding, and reading them (plus a sentinel for self-delimiting shapes) into an empty message of the same shape must reproduce every leaf and consume exactly that many bytes. (b) PER: every length 0..0x7fff, every u16 integer plus boundaries (every u32 in the thorough tier), (value, minimum) pairs (all 2^31 in thorough), object identifiers over all 16x16 first-byte pairs, octet strings across the 0x7f/0x80 boundary with minimum 0..8, numeric strings, all 256 values of the single-octet primitives - each against refs::per in both directions. (c) Connect-Response / Connect-Initial / TSRequest shapes with integers at every byte-length boundary, octet strings across 127/128/255/256/65535/65536 and negative enumerated values against refs::ber (DER equality, strict decode of the library's output, library decode of DER and of non-minimal BER). (d) conference-create-request for every user-data length 0..1000 and conference-create-responses from the server-profile generator with 0..7 channel ids.",
        "level_note": "Trusted: refs::per, refs::ber, refs::cssp, refs::proto (GCC) and the shape generator's reference encoder (props/c18a.rs). Model contract assumed by the generator: size fields carry the true size of what they govern; zero-length blocks only where a size or the end of the message delimits them; array elements consume at least one byte.",
        "rule": ("cases = shapes / values as listed; distinct = hash of the encoded bytes or the value index; all non-trivial. The u32 sweep counts one distinct case per block of 4096 integers."),
        "assumptions": [],
        "exhaustive": {"quick": False, "thorough": True},
        "floor": {"quick": 100000, "thorough": 1000000},
    },
    "C05": {
        "modes": ["dbg", "rel"],
        "level": "fault_enumeration",
        "technique": "runtime monitoring: fault injection on a valid server conversation (symbolic field faults from the reference server's field maps) under panic, allocation and CPU-time monitors, debug and release builds",
        "level_text": "The reference server produces a valid setup conversation for three profiles and records where every field of every message lives; a fault plan replaces one message (connection confirm, connect response with GCC data, attach-user confirm, both channel-join confirms, licence, first demand-active) at the innermost layer (outer lengths re-computed) or on the final frame (blind poke): every value of every 8-bit field, boundary values of every 16/32-bit field in both byte orders, every truncation point, extensions, removal/duplication/swap of blocks, pairs of boundary faults, seeded random pokes and splices. Each faulted connect runs on the real client (plain stack, and Connector over TLS for the post-negotiation messages) under a panic recorder, a counting allocator (bound 256 KiB + 16 x bytes received) and a thread-CPU watchdog. In addition all byte strings up to length 2..3 (4 in the thorough tier for the cheapest) are fed to nine parser entries directly.",
        "level_note": "Trusted: the monitors. A case counts as non-trivial only if the transport shows the client read into the faulted message. Byte strings beyond the exhaustive length are reached only through structured faults and random corruption; OpenSSL is out of scope (faults are injected above TLS).",
        "rule": ("cases = (profile, message kind and occurrence, layer inner|frame, mutant) and (parser entry, byte string); distinct = hash of the mutated bytes and position; non-trivial = the client consumed bytes of the faulted message (probe on the transport's delivered counter) / the string is non-empty."),
        "assumptions": ["outcome Ok or Err are both acceptable; only panic, abort, >20 s of thread CPU on one case, or an allocation out of proportion are violations"],
        "exhaustive": {"quick": False, "thorough": False},
        "floor": {"quick": 50000, "thorough": 1000000},
        "wall_limit": {"quick": 1800, "thorough": 14400},
    },
}
