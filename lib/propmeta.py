"""Static description of each check: build modes, evidence level, rule text, assumptions, floors."""
import os


def threads():
    try:
        return max(1, min(16, len(os.sched_getaffinity(0))))
    except Exception:
        return 16


PROPS = {
    "C08": {
        "modes": ["dbg", "rel"],
        "level": "fault_enumeration",
        "rule": ("cases = (width, height, bpp, compression flag, data) fed to BitmapEvent::decompress under panic, allocation and CPU-time monitors; "
                 "classes: all data strings of length <=2 (thorough: <=3 for w,h<=2) over 64 small geometries at 16 and 32 bpp compressed (exhaustive), "
                 "grammar-aware hostile RLE-16 and planar streams (every order byte, run lengths at line end / buffer end +-1, 0xFFFF, truncated operands), "
                 "random bytes, uncompressed data with lengths around the exact size, unsupported depths, corrupted valid encodings with off-by-one geometry. "
                 "A case is non-trivial when w*h>0, data is non-empty and the depth is one the decoder implements; distinct = hash of the full case."),
        "assumptions": ["the allocation bound used is 4*(w*h*4) + 64 KiB + input length (DESIGN 2.3)",
                        "a decode that burns >20 s of thread CPU time is reported as non-terminating; none may occur"],
        "exhaustive": {"quick": False, "thorough": False},
        "floor": {"quick": 100000, "thorough": 1000000},
    },
}
