"""Orchestration: build the harness from /repo's working tree, run the workers, attribute worker
deaths, match known findings, write evidence, print the verdict lines."""
import hashlib
import json
import os
import re
import subprocess
import sys
import time

import propmeta

ROOT = os.path.dirname(os.path.dirname(os.path.abspath(__file__)))
HARNESS = os.path.join(ROOT, "harness")
BUILD = os.path.join(ROOT, ".build")
EVID = os.path.join(ROOT, "evidence")
REPLAYS = os.path.join(ROOT, "replays")
KNOWN = os.path.join(ROOT, "known_findings.json")
GUARD = "--cfg citronneur_rdp_rs_verif"


def log(*a):
    print(*a, flush=True)


def base_env():
    e = dict(os.environ)
    e["CARGO_NET_OFFLINE"] = "true"
    e.pop("RUSTC_WRAPPER", None)
    return e


def ensure_lock():
    """harness/Cargo.lock is committed; nothing to do unless it is missing"""
    lock = os.path.join(HARNESS, "Cargo.lock")
    if not os.path.exists(lock):
        import shutil
        shutil.copy("/repo/Cargo.lock", lock)


class BuildError(Exception):
    pass


def build(mode, gui=False):
    """mode: dbg | rel | asan. Returns path of the binary. Rebuilds incrementally from /repo."""
    ensure_lock()
    env = base_env()
    name = "rdpverif-gui" if gui else "rdpverif"
    cmd = ["cargo"]
    if mode == "asan":
        env["RUSTFLAGS"] = GUARD + " -Zsanitizer=address -Cforce-frame-pointers=yes"
        env["CARGO_TARGET_DIR"] = os.path.join(BUILD, "asan")
        cmd += ["+nightly", "build", "--target", "x86_64-unknown-linux-gnu"]
        out = os.path.join(BUILD, "asan", "x86_64-unknown-linux-gnu", "debug", name)
    else:
        env["RUSTFLAGS"] = GUARD
        env["CARGO_TARGET_DIR"] = os.path.join(BUILD, "stable")
        cmd += ["build"]
        if mode == "rel":
            cmd += ["--release"]
        out = os.path.join(BUILD, "stable", "release" if mode == "rel" else "debug", name)
    cmd += ["--bin", name]
    feats = []
    if gui:
        feats.append("gui")
    if mode == "asan":
        # address-remembering allocation monitor off under sanitizers; death callback on
        cmd += ["--no-default-features"]
        feats.append("asan")
    if feats:
        cmd += ["--features", ",".join(feats)]
    t0 = time.time()
    p = subprocess.run(cmd, cwd=HARNESS, env=env, stdout=subprocess.PIPE, stderr=subprocess.STDOUT, text=True)
    if p.returncode != 0:
        tail = "\n".join(p.stdout.splitlines()[-60:])
        in_repo = "/repo/src" in p.stdout and "error" in p.stdout
        raise BuildError(("BUILD-ERROR mode=%s (%s)\n" % (mode, "error inside /repo sources" if in_repo else "harness")) + tail)
    return out, time.time() - t0


def nightly_patch_config():
    return 'patch.crates-io.der-parser.path="%s"' % os.path.join(ROOT, "vendor", "der-parser")


def run_worker(binary, prop, tier, seed, extra=None, timeout=None, env_extra=None):
    os.makedirs(os.path.join(BUILD, "out"), exist_ok=True)
    out = os.path.join(BUILD, "out", "%s-%s-%d.json" % (prop, os.path.basename(os.path.dirname(binary)), os.getpid()))
    if os.path.exists(out):
        os.remove(out)
    cmd = [binary, prop, "--tier", tier, "--seed", str(seed), "--out", out, "--threads", str(propmeta.threads())]
    if extra:
        cmd += extra
    env = base_env()
    if env_extra:
        env.update(env_extra)
    t0 = time.time()
    try:
        p = subprocess.run(cmd, stdout=subprocess.DEVNULL, stderr=subprocess.PIPE, env=env, timeout=timeout)
        rc = p.returncode
        err = p.stderr.decode("utf-8", "replace")
    except subprocess.TimeoutExpired as e:
        rc = -999
        err = (e.stderr or b"").decode("utf-8", "replace") + "\nSUPERVISOR-TIMEOUT"
    res = None
    if os.path.exists(out):
        try:
            res = json.load(open(out))
        except Exception:
            res = None
        os.remove(out)
    return rc, res, err, time.time() - t0


def load_known():
    if not os.path.exists(KNOWN):
        return {"open": [], "fixed": []}
    return json.load(open(KNOWN))


def sig_matches(entry_sig, sig):
    return entry_sig == sig


def write_replay(prop, sig, detail, replay, profile, seed, tier):
    os.makedirs(REPLAYS, exist_ok=True)
    h = hashlib.sha1((sig + json.dumps(replay, sort_keys=True)).encode()).hexdigest()[:12]
    path = os.path.join(REPLAYS, "%s-%s.json" % (prop, h))
    json.dump({"property": prop, "sig": sig, "detail": detail, "profile": profile, "seed": seed, "tier": tier, "replay": replay},
              open(path, "w"), indent=1)
    return path


def parse_death(err):
    m = re.search(r"DEATH kind=(\S+) case=(\S+) oversize=(\d+)", err)
    if not m:
        return None
    kind, case, oversize = m.group(1), m.group(2), int(m.group(3))
    if case == "unknown":
        return {"kind": kind, "case": None, "oversize": oversize}
    return {"kind": kind, "case": [int(x) for x in case.split(":")], "oversize": oversize}


def sanitizer_reports(err):
    out = []
    for m in re.finditer(r"ERROR: AddressSanitizer: ([\w-]+)", err):
        out.append(m.group(1))
    return out


def main(argv):
    if argv and argv[0] == "--setup":
        try:
            for mode in ("dbg", "rel"):
                _, dt = build(mode)
                log("setup: built %s in %.1fs" % (mode, dt))
            for mode in ("dbg", "rel", "asan"):
                _, dt = build(mode, gui=True)
                log("setup: built gui %s in %.1fs" % (mode, dt))
        except BuildError as e:
            log(str(e))
            return 2
        return 0
    if not argv:
        log(__doc__)
        return 2
    prop = argv[0]
    tier = os.environ.get("VERIF_TIER", "quick")
    replay = None
    i = 1
    while i < len(argv):
        if argv[i] == "--tier":
            tier = argv[i + 1]
            i += 2
        elif argv[i] == "--replay":
            replay = argv[i + 1]
            i += 2
        else:
            log("unknown argument", argv[i])
            return 2
    seed = int(os.environ.get("VERIF_SEED", "1"))
    meta = propmeta.PROPS.get(prop)
    if meta is None:
        log("unknown property", prop)
        return 2
    if replay:
        return do_replay(prop, meta, replay)
    return do_check(prop, meta, tier, seed)


def do_replay(prop, meta, path):
    r = json.load(open(path))
    mode = r.get("profile", "dbg")
    gui = meta.get("gui", False)
    try:
        binary, _ = build(mode if mode in ("dbg", "rel", "asan") else "dbg", gui=gui)
    except BuildError as e:
        log(str(e))
        return 2
    rc, res, err, dt = run_worker(binary, prop, r.get("tier", "quick"), r.get("seed", 1), extra=["--replay", path], timeout=600,
                                  env_extra=meta.get("env"))
    sys.stderr.write(err[-4000:])
    if rc != 0 or res is None:
        d = parse_death(err)
        log("replay: worker died rc=%s death=%s" % (rc, d))
        log("VIOLATION property=%s replay=%s" % (prop, path))
        return 1
    if res["violations"]:
        for v in res["violations"]:
            log("replay: %s (%s)" % (v["sig"], v["examples"][0]["detail"]))
        log("VIOLATION property=%s replay=%s" % (prop, path))
        return 1
    log("replay: no violation reproduced (outcomes: %s)" % res.get("outcomes"))
    return 0


def do_check(prop, meta, tier, seed):
    t_start = time.time()
    known = load_known()
    open_known = [k for k in known.get("open", []) if k["property"] == prop]
    modes = meta["modes"][tier] if isinstance(meta["modes"], dict) else meta["modes"]
    gui = meta.get("gui", False)
    results = {}
    violations = []      # (sig, detail, replay, profile, count)
    inconclusive = []
    harness_fail = []
    build_s = {}
    for mode in modes:
        try:
            binary, dt = build(mode, gui=gui)
            build_s[mode] = round(dt, 1)
        except BuildError as e:
            log(str(e))
            log("HARNESS-FAILURE property=%s: build failed in mode %s" % (prop, mode))
            return 2
        env_extra = dict(meta.get("env") or {})
        if mode == "asan":
            env_extra["ASAN_OPTIONS"] = "halt_on_error=1:abort_on_error=1:detect_leaks=0:allocator_may_return_null=1:symbolize=1"
            env_extra["ASAN_SYMBOLIZER_PATH"] = "/usr/bin/llvm-symbolizer-14"
        extra = ["--wall-limit", str(meta.get("wall_limit", {}).get(tier, 7200))]
        rc, res, err, dt = run_worker(binary, prop, tier, seed, extra=extra, timeout=meta.get("wall_limit", {}).get(tier, 7200) + 120,
                                      env_extra=env_extra)
        if rc != 0 or res is None:
            d = parse_death(err)
            reports = sanitizer_reports(err)
            if rc == 6 or rc == -999:
                inconclusive.append("wall-clock limit hit in mode %s" % mode)
                continue
            if d and d["case"]:
                kind = d["kind"]
                if reports:
                    kind = "asan:" + reports[0]
                rp = {"death_case": d["case"], "kind": kind, "oversize": d["oversize"]}
                # confirm by re-running that case alone in a fresh process
                tmp = write_replay(prop, "death", kind, rp, mode, seed, tier)
                rc2, res2, err2, _ = run_worker(binary, prop, tier, seed, extra=["--replay", tmp], timeout=900, env_extra=env_extra)
                os.remove(tmp)
                d2 = parse_death(err2)
                rep2 = sanitizer_reports(err2)
                if rc2 != 0 and (d2 or rep2):
                    k2 = ("asan:" + rep2[0]) if rep2 else d2["kind"]
                    frame = first_repo_frame(err2) or first_repo_frame(err)
                    sig = "%s/process-death/%s/%s%s" % (prop, meta.get("death_class", "case"), k2, ("@" + frame) if frame else "")
                    violations.append((sig, "worker process died (%s) on case %s; confirmed alone. stderr tail: %s" % (k2, d["case"], err2[-600:]), rp, mode, 1))
                elif rc2 == 0 and res2 is not None and res2.get("violations"):
                    for v in res2["violations"]:
                        violations.append((v["sig"], v["examples"][0]["detail"], rp, mode, 1))
                else:
                    inconclusive.append("worker died in mode %s on case %s but the case alone did not reproduce" % (mode, d["case"]))
            else:
                sys.stderr.write(err[-3000:])
                harness_fail.append("worker failed rc=%s in mode %s without a case descriptor" % (rc, mode))
            continue
        results[mode] = res
        for v in res["violations"]:
            ex = v["examples"][0]
            violations.append((v["sig"], ex["detail"], ex["replay"], mode, v["count"]))
        for k, n in res.get("inconclusive", {}).items():
            inconclusive.append("%s x%d (%s)" % (k, n, mode))
        for s in res.get("selfcheck_failures", []):
            harness_fail.append("reference self-check failed: %s" % s)

    extra_cov = {}
    if prop == "C19" and not harness_fail:
        import c19extra
        c19extra.run(tier, seed, violations, inconclusive, extra_cov, build, base_env, HARNESS, BUILD, GUARD, log)

    # ---- verdict
    known_hits = {}
    new_viol = {}
    for sig, detail, rp, mode, count in violations:
        hit = None
        for k in open_known:
            if sig_matches(k["sig"], sig):
                hit = k
                break
        if hit:
            e = known_hits.setdefault(hit["sig"], {"what": hit["what"], "count": 0, "modes": set()})
            e["count"] += count
            e["modes"].add(mode)
        else:
            e = new_viol.setdefault(sig, {"detail": detail, "replay": rp, "mode": mode, "count": 0})
            e["count"] += count

    evaluations = sum(r["evaluations"] for r in results.values())
    dn = max([r["distinct_nontrivial"] for r in results.values()] or [0])
    exact = all(r.get("distinct_exact", True) for r in results.values())
    first = results[modes[0]] if modes and modes[0] in results else (list(results.values())[0] if results else None)

    rc = 0
    for sig, k in sorted(known_hits.items()):
        log("KNOWN-FINDING: property=%s %s [sig=%s; seen %d times in %s]" % (prop, k["what"], sig, k["count"], ",".join(sorted(k["modes"]))))
    replay_paths = []
    for sig, v in sorted(new_viol.items()):
        path = write_replay(prop, sig, v["detail"], v["replay"], v["mode"], seed, tier)
        replay_paths.append(path)
        log("violation: %s x%d [%s]: %s" % (sig, v["count"], v["mode"], v["detail"][:300]))
        log("VIOLATION property=%s replay=%s" % (prop, path))
        rc = 1
    for s in inconclusive:
        log("INCONCLUSIVE property=%s %s" % (prop, s))
    if harness_fail or evaluations == 0 or first is None:
        for s in harness_fail:
            log("HARNESS-FAILURE property=%s %s" % (prop, s))
        if evaluations == 0 and rc == 0:
            log("HARNESS-FAILURE property=%s nothing was observed" % prop)
        if rc == 0:
            rc = 2

    # floors: a run that observed too little is inconclusive, never "held"
    floor = meta.get("floor", {}).get(tier, 2)
    if rc == 0 and dn < floor:
        log("INCONCLUSIVE property=%s only %d distinct non-trivial cases observed (floor %d)" % (prop, dn, floor))
        inconclusive.append("below observation floor")

    # ---- evidence
    if first is not None:
        cov = {
            "evaluations": evaluations,
            "distinct_nontrivial": dn,
            "rule": meta["rule"] + ("" if exact else " [distinct count estimated by linear counting over a 2^27-bit map]"),
            "samples": first.get("samples", [])[:6] or [{"note": "no sample captured"}],
            "exhaustive": bool(meta.get("exhaustive", {}).get(tier, False)),
            "build_modes": list(results.keys()),
            "outcomes": {m: r.get("outcomes", {}) for m, r in results.items()},
            "counters": {m: r.get("counters", {}) for m, r in results.items()},
            "maxima": {m: r.get("maxima", {}) for m, r in results.items()},
            "observed_sets": {k: {"distinct": v["distinct"], "examples": v["examples"][:20]} for k, v in first.get("sets", {}).items()},
            "observations_not_violations": first.get("observations", {}),
            "known_findings_seen": [{"sig": s, "count": k["count"]} for s, k in sorted(known_hits.items())],
            "new_violation_signatures": sorted(new_viol.keys()),
            "inconclusive": inconclusive,
            "harness_failures": harness_fail,
            "build_s": build_s,
            "worker_wall_s": {m: round(r.get("wall_s", 0), 2) for m, r in results.items()},
        }
        cov.update(extra_cov)
        ev = {
            "property_id": prop,
            "tier": tier,
            "seed": seed,
            "level": meta["level"],
            "coverage": cov,
            "assumptions": meta.get("assumptions", []),
            "wall_s": round(time.time() - t_start, 2),
            "violations": len(new_viol),
        }
        os.makedirs(EVID, exist_ok=True)
        json.dump(ev, open(os.path.join(EVID, prop + ".json"), "w"), indent=1, sort_keys=True)
    verdict = {0: "held on what was observed", 1: "VIOLATED", 2: "harness failure"}[rc]
    log("%s %s seed=%d: %s; %d evaluations, %d distinct non-trivial, %d known findings, %d inconclusive notes, %.1fs" %
        (prop, tier, seed, verdict, evaluations, dn, len(known_hits), len(inconclusive), time.time() - t_start))
    return rc


def first_repo_frame(err):
    m = re.search(r"(/repo/src/[\w/.\-]+):\d+", err)
    if m:
        return m.group(1).replace("/repo/", "")
    return None
