#!/usr/bin/env python3
"""Regenerate /verif/MANIFEST.json from lib/propmeta.py (single source of truth)."""
import json, os, sys
ROOT = os.path.dirname(os.path.dirname(os.path.abspath(__file__)))
sys.path.insert(0, os.path.join(ROOT, 'lib'))
import propmeta
ids = [json.loads(l)['id'] for l in open(os.path.join(ROOT, 'properties.jsonl'))]
checks, na = [], []
for i in ids:
    m = propmeta.PROPS.get(i)
    if m and m.get('claimed', True):
        checks.append({
            'property_id': i,
            'quick_cmd': './check %s --tier quick' % i,
            'thorough_cmd': './check %s --tier thorough' % i,
            'evidence_file': 'evidence/%s.json' % i,
            'replay_cmd_template': './check %s --replay {path}' % i,
            'engine': 'rdpverif',
            'level_claimed': {'category': m['level'], 'text': m['level_text'], 'design_ref': m.get('design_ref', 'DESIGN.md section 3, ' + i)},
            'level_note': m['level_note'],
            'technique': m['technique'],
        })
    else:
        na.append({'property_id': i, 'reason': (m or {}).get('na_reason', 'check not built yet (work in progress, see DESIGN.md)')})
man = {
    'version': 1,
    'setup_cmd': './setup.sh',
    'hooks': {
        'guard': 'citronneur_rdp_rs_verif',
        'enable': "RUSTFLAGS='--cfg citronneur_rdp_rs_verif' is set by ./check for every harness build; the design needs no source hooks (all observation points are public API, the generic stream, or the GUI source included as text), so no hook commits exist",
        'baseline_off_cmd': 'cd /repo && cargo test --workspace --lib --no-fail-fast --offline',
        'source_commits': [],
        'add_only': True,
    },
    'engines': [{'name': 'rdpverif', 'path': 'harness/', 'serves_properties': [c['property_id'] for c in checks],
                 'kind_free_text': 'Rust harness linked against /repo (path dependency, rebuilt by cargo on every check): workload generators, panic/allocation/CPU-time monitors, adversarial transports, independent reference codecs and reference RDP server; python driver ./check aggregates, matches known findings, writes evidence'}],
    'checks': checks,
    'not_applicable': na,
    'notes': 'Runtime monitoring and sanitizers only. Verdicts: exit 0 held-on-observed (KNOWN-FINDING / INCONCLUSIVE lines possible), exit 1 VIOLATION, exit 2 harness failure. known_findings.json lists open findings by exact signature and fixed ones with their commit.',
}
json.dump(man, open(os.path.join(ROOT, 'MANIFEST.json'), 'w'), indent=1)
print('claimed', len(checks), 'not_applicable', len(na))
