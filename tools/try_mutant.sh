#!/bin/bash
# usage: try_mutant.sh <patchfile> <Cxx> [tier]  -- applies the patch to /repo, runs the check, reverts.
PATCH=$1; P=$2; TIER=${3:-quick}
cd /repo || exit 2
if ! git diff --quiet; then echo "/repo has uncommitted changes"; exit 2; fi
git apply $PATCH || { echo "APPLY FAILED"; exit 3; }
(cd /verif && ./check $P --tier $TIER 2>&1 | grep -E "^(VIOLATION|INCONCL|HARNESS|violation:|C[0-9]+ )" | cut -c1-400 | head -${LINES_MAX:-12})
git checkout -q -- .
git status --short | grep -v '^??' | head -3
