#!/usr/bin/env python3
"""keep_mutant.py Cxx X "<what I ran / result>" [--patch file]  : store a confirmed seeded change under /verif/seeded/Cxx-X/"""
import json, os, shutil, sys
p, x, ran = sys.argv[1], sys.argv[2], sys.argv[3]
patch = None
if '--patch' in sys.argv:
    patch = sys.argv[sys.argv.index('--patch') + 1]
root = os.environ.get('WTROOT', '/tmp/wt2')
name = x
if '--as' in sys.argv:
    name = sys.argv[sys.argv.index('--as') + 1]
src = '%s/%s/_out/%s' % (root, p, x)
dst = '/verif/seeded/%s-%s' % (p, name)
os.makedirs(dst, exist_ok=True)
if patch is None:
    shutil.copy(os.path.join(src, 'patch.diff'), os.path.join(dst, 'patch.diff'))
elif os.path.abspath(patch) != os.path.join(dst, 'patch.diff'):
    shutil.copy(patch, os.path.join(dst, 'patch.diff'))
for f in os.listdir(src):
    if f.startswith('demo_'):
        shutil.copy(os.path.join(src, f), os.path.join(dst, f))
m = json.load(open(os.path.join(src, 'meta.json')))
meta = {
    'property': p,
    'summary': m.get('summary'),
    'needs_to_manifest': m.get('needs_to_manifest'),
    'author': 'independent sub-agent given only the property text and a scratch worktree',
    'rebased_onto_fix_commits': patch is not None,
    'confirmed_by_me': 'tools/confirm_mutant.sh %s %s: demo passes on unpatched HEAD, fails with the patch; cargo test --lib 39/39 pass with the patch' % (p, x),
    'checks_run': ran,
}
json.dump(meta, open(os.path.join(dst, 'meta.json'), 'w'), indent=1)
print('kept', dst)
