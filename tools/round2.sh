#!/bin/bash
# usage: [WTROOT=/tmp/wt3] round2.sh Cxx  -- confirm and try both changes of a property of a later round (worktrees under $WTROOT)
P=$1
export WTROOT=${WTROOT:-/tmp/wt2}
for X in A B; do
  if [ -f $WTROOT/$P/_out/$X/patch.diff ]; then
    echo "##### $P $X"
    /verif/tools/confirm_mutant.sh $P $X 2>&1 | grep -E "test result|APPLY|^error" | head -4
    LINES_MAX=${LINES_MAX:-5} /verif/tools/try_mutant.sh $WTROOT/$P/_out/$X/patch.diff ${2:-$P} | grep -v KNOWN | cut -c1-330
  fi
done
