#!/bin/bash
# usage: ns.sh <command...>  -- runs the command in a private mount namespace in which
#   /repo            is a scratch copy (/tmp/repo_mut, made with `rsync -a --exclude target /repo/ /tmp/repo_mut/`),
#   /verif/.build    is a scratch build directory (/tmp/verif_build_ns, seeded from /verif/.build), and
#   /verif/evidence  is a scratch directory,
# so that seeded changes can be applied to "/repo" and tried while a long run is using the real /repo, and neither the
# real build output nor the committed evidence ever holds anything built from or observed on a changed tree.
COPY=${REPO_COPY:-/tmp/repo_mut}
NSB=${NS_BUILD:-/tmp/verif_build_ns}
NSE=${NS_EVIDENCE:-/tmp/verif_evidence_ns}
[ -d "$COPY/.git" ] || rsync -a --exclude target /repo/ "$COPY/" || { echo "could not copy /repo to $COPY"; exit 2; }
[ -d "$NSB" ] || cp -a /verif/.build "$NSB"
mkdir -p "$NSE"
exec unshare -m bash -c 'mount --bind "$1" /repo && mount --bind "$2" /verif/.build && mount --bind "$3" /verif/evidence && shift 3 && exec "$@"' ns "$COPY" "$NSB" "$NSE" "$@"
