#!/bin/bash
# usage: ns.sh <command...>  -- runs the command in a private mount namespace in which /repo is a scratch copy
# (/tmp/repo_mut, made with `rsync -a --exclude target /repo/ /tmp/repo_mut/`): seeded changes can then be applied to
# "/repo" and tried while a long run is using the real /repo. Nothing outside the namespace sees the change.
COPY=${REPO_COPY:-/tmp/repo_mut}
[ -d "$COPY/.git" ] || { echo "no copy of /repo at $COPY"; exit 2; }
exec unshare -m bash -c 'mount --bind "$0" /repo && shift 0 && exec "$@"' "$COPY" "$@"
