#!/usr/bin/env python3
"""make_prompts.py <wtroot> : writes <wtroot>/prompts/Cxx.txt for a further round of independent mutation authors.
The prompt carries only the property text, the worktree path and the mechanisms already used (from seeded/*/meta.json)."""
import json, os, sys
root = sys.argv[1]
os.makedirs(root + '/prompts', exist_ok=True)
tmpl = open('/tmp/wt2/prompts/C01.txt').read() if os.path.exists('/tmp/wt2/prompts/C01.txt') else None
props = [json.loads(l) for l in open('/verif/properties.jsonl')]
for p in props:
    pid = p['id']
    used = []
    for d in sorted(os.listdir('/verif/seeded')):
        if d.startswith(pid + '-'):
            m = json.load(open('/verif/seeded/%s/meta.json' % d))
            used.append('%s: %s -- trigger: %s' % (d, (m.get('summary') or '')[:260].replace('\n', ' '), (m.get('needs_to_manifest') or '')[:200].replace('\n', ' ')))
    wt = '%s/%s' % (root, pid)
    txt = f'''You are helping test a verification framework by acting as an independent "mutation author". You work ONLY inside the scratch git worktree {wt} (a checkout of the Rust crate rdp-rs, a pure-Rust RDP client library; Cargo.lock is already there; the machine is offline: always run cargo with --offline). Do not read or write anything under /repo or /verif, and do not commit anything.

PROPERTY ({pid}): {p['title']}
Statement: {p['statement']}
Quantified over: {p['quantifier']['text']}

TASK: produce up to TWO independent source changes (call them A and B; one good one is better than two weak ones) to the crate's code under {wt}/src that each BREAK this property, while:
  1. the crate still compiles (`cargo build --offline` and, if you touch src/bin/mstsc-rs.rs, `cargo build --offline --features mstsc-rs`), and
  2. the existing unit tests still all pass: `cargo test --offline --lib` (39 tests), and
  3. the breakage is NOT exposed by ordinary use at once: it must need something specific to manifest -- a particular unusual input or boundary value, a multi-step sequence of operations, a fault/short read/short write at a particular point, a particular interleaving or timing, a particular configuration combination, or two cooperating edits that each look fine alone. Make it look like a plausible refactoring slip, "optimisation" or well-meant hardening, not sabotage; keep each change small (a few lines).
  The change must break the property AS STATED (observable behaviour at the library's public API / the bytes on the wire / the function's result), not merely some internal detail, and not merely the treatment of inputs the property says nothing about. If the current code ALREADY violates the property for some inputs, your change must break it for inputs where the current code is correct.
  This is a TENTH round: nine earlier rounds already produced the candidates below. Use a DIFFERENT mechanism and a different trigger from all of them:
''' + ''.join('    - %s\n' % u for u in used) + f'''  Be creative: think about state carried between calls or between connections, rarely taken branches, interactions between two layers, values that are special for an encoding (lengths 0x7f/0x80/0xff/0x100/0x3fff/0x4000, surrogate pairs, zero-length fields, odd sizes), error paths that leave state half-updated, ordering of side effects, integer widths, and configuration combinations.

NOTES ABOUT THIS CODE BASE: `Connector::connect` offers only SSL/Hybrid and REFUSES a server that selects plain RDP security, so a demonstration that wants a fully connected client without TLS must build the layers itself as Connector::connect does: `x224::Client::connect(tpkt::Client::new(Link::new(Stream::Raw(stream))), 0 /*no security protocol requested*/, false, None, false, false)`, then `mcs::Client::new(x224)` + `.connect(name, w, h, layout)`, `sec::connect(&mut mcs, ...)`, `global::Client::new(mcs.get_user_id(), mcs.get_global_channel_id(), w, h, layout, name)` and `global.read(payload, &mut mcs, callback)` / `global.write_input_event(..)`; alternatively run a real TLS server in-process with the `native-tls` crate (already a dependency) over `std::os::unix::net::UnixStream::pair()`.

For each change also write a DEMONSTRATION: a small integration test file (put it in {wt}/tests/demo_{pid}_A.rs, runnable with `cargo test --offline --features integration --test demo_{pid}_A`; the `integration` feature exposes a few accessors; for GUI-binary code in src/bin/mstsc-rs.rs you may instead `include!` that file into a module of the test and build with `--features "integration mstsc-rs"`) that PASSES on the original code and FAILS with your change applied. Use only the crate's public API (the crate's lib name is `rdp`; it is edition 2015 so use `extern crate rdp;`) plus std and the crate's existing dependencies. No network, no real RDP server: drive the code with in-memory streams (any type implementing Read+Write can be the transport).

DELIVERABLES, for each change X in {{A,B}}, under {wt}/_out/X/ :
  - patch.diff : `git diff -- src` for that change ALONE relative to the pristine checkout (unified diff, applies with `git apply` at the repo root),
  - the demo test file (copy of tests/demo_{pid}_X.rs),
  - meta.json : {{"property": "{pid}", "summary": "...what was changed...", "needs_to_manifest": "...the specific input/sequence/fault/timing needed...", "commands_run": ["..."], "demo_passes_on_original": true/false, "demo_fails_with_patch": true/false, "lib_tests_pass_with_patch": true/false}}
Verify all three booleans yourself by actually running the commands (original = `git stash` or `git apply -R`), and leave the worktree's src/ in the ORIGINAL (unpatched) state when you finish, with only tests/ and _out/ added. Finish with a short report: for each change, one paragraph on what it does and what is needed to trigger it.
'''
    open('%s/prompts/%s.txt' % (root, pid), 'w').write(txt)
print('written', len(props))
