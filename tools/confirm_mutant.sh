#!/bin/bash
# usage: confirm_mutant.sh Cxx A|B [patchfile]   -- confirms, in the scratch worktree /tmp/wt/Cxx moved to /repo's HEAD,
# that the demo passes without the patch, fails with it, and that the 39 lib tests pass with it.
P=$1; X=$2
WTROOT=${WTROOT:-/tmp/wt2}
PATCH=${3:-$WTROOT/$P/_out/$X/patch.diff}
WT=$WTROOT/$P
cd $WT || exit 2
export CARGO_NET_OFFLINE=true
git checkout -q -- src 2>/dev/null
git checkout -q --detach $(git -C /repo rev-parse HEAD) || exit 2
cp /repo/Cargo.lock Cargo.lock
FEAT="integration"
grep -q "mstsc-rs.rs" tests/demo_${P}_${X}.rs 2>/dev/null && FEAT="integration mstsc-rs"
echo "== demo on unpatched HEAD"
cargo test --offline --features "$FEAT" --test demo_${P}_${X} 2>&1 | grep -E "^test result|^error" | head -3
echo "== apply"
git apply $PATCH || { echo "APPLY FAILED"; exit 3; }
echo "== lib tests with patch"
cargo test --offline --lib 2>&1 | grep -E "^test result|^error" | head -3
echo "== demo with patch"
cargo test --offline --features "$FEAT" --test demo_${P}_${X} 2>&1 | grep -E "^test result|^error|panicked" | head -5
git checkout -q -- src
