#!/usr/bin/env python3
"""print the markdown table rows of /verif/seeded/*-<suffix> (usage: gen_seeded_table.py C D)"""
import json, os, sys
suf = sys.argv[1:] or ['A', 'B']
print('| change | what it does | result of the check |')
print('|---|---|---|')
for d in sorted(os.listdir('/verif/seeded')):
    if '-' not in d or d.split('-')[1] not in suf:
        continue
    m = json.load(open('/verif/seeded/%s/meta.json' % d))
    clean = lambda s: (s or '').replace('|', '/').replace('\n', ' ')
    print('| %s | %s | %s |' % (d, clean(m.get('summary'))[:330], clean(m.get('checks_run'))[:330]))
