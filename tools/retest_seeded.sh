#!/bin/bash
# usage: retest_seeded.sh Cxx [Cyy ...]  -- applies every kept seeded change of the properties named (seeded/Cxx-*/patch.diff)
# to the scratch copy of /repo inside the private namespace (tools/ns.sh), runs the property's quick check and prints
# whether it was caught. Changes that no longer apply to /repo's HEAD (made before a later fix: commit) are reported as such.
for P in "$@"; do
  for d in /verif/seeded/$P-*; do
    n=$(basename $d)
    out=$(LINES_MAX=3 /verif/tools/ns.sh /verif/tools/try_mutant.sh $d/patch.diff $P 2>&1 | grep -v KNOWN)
    if echo "$out" | grep -q "APPLY FAILED"; then echo "$n: does not apply to HEAD"; continue; fi
    if echo "$out" | grep -q "^VIOLATION"; then echo "$n: caught  $(echo "$out" | grep -m1 '^violation:' | cut -c12-120)"; else echo "$n: MISSED  $(echo "$out" | tail -1 | cut -c1-100)"; fi
  done
done
