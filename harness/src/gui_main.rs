//! GUI-side subjects (C19, C20): the source of the GUI client is compiled into this binary unchanged.
#[allow(dead_code, unused_imports, clippy::all)]
mod gui {
    include!("/repo/src/bin/mstsc-rs.rs");

    pub mod drivers {
        include!("gui_drivers.rs");
    }
}

fn main() {
    gui::drivers::main();
}
