//! C04 — every PDU the client emits is well formed under a strict independent parser.
//! Oracle: the reference server's strict parsers (refs::proto, refs::cssp, refs::ntlm) applied to
//! every frame / token the client writes during full sessions with Unicode configurations.

use crate::client::{self, Client};
use crate::gen;
use crate::mon;
use crate::props::c03::{self, Case};
use crate::report::Report;
use crate::rng::{fnv, Rng};
use crate::server::Duplex;
use crate::{par_run, Cfg};
use rdp::core::event::{KeyboardEvent, PointerButton, PointerEvent, RdpEvent};
use rdp::core::global::{ts_keyboard_event, ts_pointer_event};
use serde_json::{json, Value};

/// characters at the edges of the UTF-16 encoding: last one-unit scalars, first / last surrogate pairs
const EDGE_CHARS: [char; 12] = ['\u{7f}', '\u{d7ff}', '\u{e000}', '\u{fffd}', '\u{ffff}', '\u{10000}', '\u{103ff}', '\u{1f511}', '\u{10fbff}', '\u{10fc00}', '\u{10ffff}', '\u{100000}'];

fn units(s: &str) -> usize {
    s.encode_utf16().count()
}

/// string of exactly n UTF-16 units mixing 1- and 2-unit characters
fn string_of_units(r: &mut Rng, n: usize, style: u64) -> String {
    let mut s = String::new();
    let mut left = n;
    while left > 0 {
        let c = match style % 4 {
            0 => (b'a' + r.below(26) as u8) as char,
            1 => *r.pick(&['é', 'ü', 'ß', 'ñ', 'a', 'Z']),
            2 => *r.pick(&['中', '文', 'あ', '한', '€']),
            _ => {
                if left >= 2 && r.chance(1, 2) {
                    *r.pick(&['🔑', '😀', '𐍈'])
                } else {
                    *r.pick(&['x', 'é', '中'])
                }
            }
        };
        let u = c.len_utf16();
        if u > left {
            s.push('q');
            left -= 1;
        } else {
            s.push(c);
            left -= u;
        }
    }
    s
}

/// string of exactly n code points: all two-unit characters, all one-unit, or a mixture
fn string_of_points(r: &mut Rng, n: usize, style: u64) -> String {
    (0..n)
        .map(|_| match style % 3 {
            0 => *r.pick(&['\u{1f511}', '\u{1f600}', '\u{10348}', '\u{10ffff}', '\u{10000}']),
            1 => *r.pick(&['\u{4e2d}', '\u{e9}', 'a', '\u{ffff}', '\u{d7ff}']),
            _ => *r.pick(&['\u{1f511}', 'x', '\u{e9}', '\u{4e2d}', '\u{10fc00}']),
        })
        .collect()
}

pub fn make_case(class: u64, idx: u64, seed: u64) -> Case {
    let mut r = Rng::derive(seed, "C04", class, idx);
    // start from a C03 case (plain for classes 0,2,3; tls for 1) and replace the strings
    let mut c = c03::make_case(if class == 1 || (class == 4 && idx % 2 == 1) { 1 } else { 0 }, idx, seed ^ 0x04);
    c.gen_class = class;
    c.idx = idx;
    c.seed = seed;
    match class {
        0 | 1 => {
            let u = gen::conncfg(&mut r, false);
            c.cfg.name = u.name;
            c.cfg.domain = u.domain;
            c.cfg.user = u.user;
            c.cfg.password = u.password;
            if c.cfg.hash.is_some() {
                c.cfg.hash = Some(crate::refs::ntlm::nt_hash(&c.cfg.password).to_vec());
            }
            c.class = if class == 0 { "unicode-plain" } else { "unicode-tls-nla" };
        }
        2 => {
            // client names around the 15-character / 32-byte field boundary
            let n = (idx % 24) as usize;
            c.cfg.name = string_of_units(&mut r, n, idx / 24);
            if (idx / 24) % 2 == 1 {
                // an edge character starting at unit position 11..=16 of a name of n units
                let k = idx / 48;
                let e = EDGE_CHARS[(k % EDGE_CHARS.len() as u64) as usize];
                let pos = 11 + (k / EDGE_CHARS.len() as u64 % 6) as usize;
                let mut s = String::new();
                for i in 0..pos {
                    s.push((b'a' + (i % 26) as u8) as char);
                }
                s.push(e);
                while units(&s) < n.max(pos + e.len_utf16()) {
                    s.push('z');
                }
                c.cfg.name = s;
            }
            c.class = "client-name-boundary";
        }
        4 => {
            // credentials at the top of the quantified range (up to 64 code points each, all of them surrogate pairs or a
            // mixture): the client info PDU and the CredSSP tokens then pass 1 KiB; plain transport and TLS + NLA
            let which = 1 + (idx / 2) % 7;
            let mut s = |bit: u64, r: &mut Rng| {
                let points = if which & bit != 0 { *r.pick(&[48usize, 60, 63, 64, 64, 64]) } else { *r.pick(&[0usize, 1, 12, 31, 32, 33]) };
                string_of_points(r, points, idx / 14)
            };
            c.cfg.domain = s(1, &mut r);
            c.cfg.user = s(2, &mut r);
            c.cfg.password = s(4, &mut r);
            c.cfg.hash = if idx % 5 == 4 { Some(crate::refs::ntlm::nt_hash(&c.cfg.password).to_vec()) } else { None };
            c.cfg.blank_creds = false;
            if c.transport == "tls" {
                c.cfg.nla = idx % 8 != 7;
            }
            c.class = "long-credentials";
        }
        _ => {
            // credential sizes sweeping the PER length boundary of the MCS send-data request
            let total = (idx % 140) as usize;
            let a = r.below(total as u64 + 1) as usize;
            let b = r.below((total - a) as u64 + 1) as usize;
            c.cfg.domain = string_of_units(&mut r, a, idx / 140);
            c.cfg.user = string_of_units(&mut r, b, idx / 140 + 1);
            c.cfg.password = string_of_units(&mut r, total - a - b, idx / 140 + 2);
            c.cfg.hash = None;
            c.cfg.restricted_admin = false;
            c.profile.version = if (idx / 140) % 2 == 0 { 0x00080004 } else { 0x00080001 };
            c.class = "credential-length-sweep";
        }
    }
    c.reactivations.truncate(1);
    c
}

fn describe(c: &Case) -> Value {
    json!({"gen": [c.gen_class, c.idx, c.seed], "class": c.class, "transport": c.transport, "cfg": c.cfg.to_json(),
           "write_chunk": if c.write_chunk == usize::MAX { 0 } else { c.write_chunk }, "name_units": units(&c.cfg.name), "cred_units": units(&c.cfg.domain) + units(&c.cfg.user) + units(&c.cfg.password),
           "user_id": c.profile.user_id, "version": c.profile.version})
}

struct Seen {
    connect: Result<(), String>,
    malformed: Vec<(String, usize)>,
    notes: Vec<(String, String)>,
    frames: usize,
    kinds: Vec<String>,
    nla: Vec<String>,
}

fn drive(c: &Case) -> Result<Seen, mon::PanicInfo> {
    let d = Duplex::new(c.profile.clone());
    let mut nr = Rng::new(c.nla_seed);
    // one NLA case in eight meets a server whose CHALLENGE carries no timestamp: whatever the client then does (refuse, or
    // answer with a time of its own), what it emits must be well formed
    let nla = gen::nla_cfg_opts(&mut nr, &c.cfg, !(c.transport == "tls" && c.idx % 8 == 5));
    d.with(|s| {
        s.tls_identity = c.tls_identity;
        s.tls12_only = c.tls12_only;
        s.write_chunk = c.write_chunk;
        s.nla_cfg = nla;
    });
    let probe = d.clone();
    let cfg = c.cfg.clone();
    let tls = c.transport == "tls";
    let react = c.reactivations.clone();
    let seed = c.nla_seed;
    let write_chunk = c.write_chunk;
    let connect = mon::guarded(move || {
        let conn = if tls { client::connect_real(&cfg, d.clone()) } else { client::connect_plain(&cfg, d.clone()) };
        match conn {
            Err(e) => Err(client::err_kind(&e)),
            Ok(mut cl) => {
                for _ in 0..5 {
                    if cl.read(|_| {}).is_err() {
                        break;
                    }
                }
                // a few input events of every kind (their PDUs are parsed strictly by the server)
                let mut r = Rng::new(seed ^ 0x1234);
                // on the plain transport, one case in three: the transport refuses one write call (nothing consumed,
                // an error the application survives) somewhere among the input events; the session goes on.
                // Not combined with short writes: a refusal in the middle of a frame leaves a partial frame on the
                // wire whatever the client does.
                if !tls && seed % 3 == 0 && write_chunk == usize::MAX {
                    // any of the 12 input writes, the last of them (the next PDU is then the short disconnect ultimatum or the
                    // long confirm-active), or one of the writes of the re-activation that follows
                    let nth = if r.chance(1, 4) { 11 } else { r.below(18) as usize };
                    let kind = *r.pick(&[std::io::ErrorKind::WouldBlock, std::io::ErrorKind::TimedOut, std::io::ErrorKind::Interrupted]);
                    d.with(|s| s.fail_write_once = Some((nth, kind)));
                }
                for _ in 0..6 {
                    let (x, y, code) = (r.edge16(), r.edge16(), r.edge16());
                    let down = r.chance(1, 2);
                    match &mut cl {
                        Client::Real(rc) => {
                            let b = *r.pick(&[PointerButton::None, PointerButton::Left, PointerButton::Right, PointerButton::Middle]);
                            let _ = rc.write(RdpEvent::Pointer(PointerEvent { x, y, button: b, down }));
                            let _ = rc.write(RdpEvent::Key(KeyboardEvent { code, down }));
                        }
                        Client::Plain(p) => {
                            // the constructors take optional arguments (absent = 0): every way of leaving some out
                            let opt = |r: &mut Rng, v: u16| match r.below(4) {
                                0 => None,
                                1 => Some(0),
                                _ => Some(v),
                            };
                            let (v1, v2) = (r.u16(), r.u16());
                            let (f1, ox, oy) = (opt(&mut r, v1), opt(&mut r, x), opt(&mut r, y));
                            let _ = p.global.write_input_event(ts_pointer_event(f1, ox, oy), &mut p.mcs);
                            let (f2, oc) = (opt(&mut r, v2), opt(&mut r, code));
                            let _ = p.global.write_input_event(ts_keyboard_event(f2, oc), &mut p.mcs);
                        }
                    }
                }
                for sid in react {
                    d.with(|s| {
                        let p = s.profile.clone();
                        let cur = s.next_share_id;
                        s.send("deactivate-all", &crate::refs::proto::deactivate_all(&p, cur), crate::server::Wrap::Sdi);
                        s.next_share_id = sid;
                        s.send_demand_active(sid);
                    });
                    for _ in 0..6 {
                        if cl.read(|_| {}).is_err() {
                            break;
                        }
                    }
                }
                let _ = cl.shutdown();
                Ok(())
            }
        }
    })?;
    let seen = probe.with(|s| {
        let mut nla = Vec::new();
        for t in &s.nla_log.ts_requests {
            if let Err(e) = t {
                nla.push(format!("TSRequest: {}", e));
            }
        }
        if let Some(Err(e)) = &s.nla_log.negotiate_parse {
            nla.push(format!("NTLM {}", e));
        }
        if let Some(Err(e)) = &s.nla_log.auth {
            // structural defects of the AUTHENTICATE token only; proofs are C15's subject
            let structural = ["buffer", "overlap", "MaxLen", "payload starts", "signature", "message type", "too short", "bytes"];
            // ... and the layout of the NTLMv2 client challenge inside NtChallengeResponse (fixed-size fields, reserved
            // fields, AV pair list)
            let blob_layout = e.starts_with("temp:") && !e.contains("missing or altered") && !e.contains("timestamp differs");
            if (structural.iter().any(|k| e.contains(k)) || blob_layout) && !e.contains("does not verify") {
                nla.push(format!("NTLM AUTHENTICATE: {}", e));
            }
        }
        if !s.inbuf.is_empty() {
            nla.push(format!("incomplete frame: {} bytes written by the client do not make a whole PDU", s.inbuf.len()));
        }
        if !s.nla_buf.is_empty() {
            let announced = crate::refs::cssp::element_len(&s.nla_buf);
            nla.push(format!("incomplete TSRequest: the client wrote {} bytes of an element announcing {:?} and nothing more", s.nla_buf.len(), announced));
        }
        if let Some(Err(e)) = &s.nla_log.credentials {
            if !e.contains("checksum") && !e.contains("sequence") {
                nla.push(format!("TSCredentials: {}", e));
            }
        }
        Seen {
            connect: connect.clone(),
            malformed: s.malformed.iter().map(|(_, e, f)| (e.clone(), f.len())).collect(),
            notes: s.events.iter().flat_map(|e| e.notes.iter().map(move |n| (e.msg.name(), n.clone()))).collect(),
            frames: s.events.len() + s.malformed.len(),
            kinds: s.events.iter().map(|e| e.msg.name()).collect(),
            nla,
        }
    });
    Ok(seen)
}

pub fn check_case(c: &Case, rep: &mut Report) {
    rep.eval();
    match drive(c) {
        Err(p) => {
            rep.hist("panic");
            rep.violation(format!("C04/{}", p.sig()), format!("{} at {}:{}", p.msg, p.file, p.line), describe(c));
        }
        Ok(s) => {
            rep.count("client_frames_parsed", s.frames as u64);
            for k in &s.kinds {
                rep.set("message_kinds", k.clone());
            }
            let clean = s.malformed.is_empty() && s.notes.is_empty() && s.nla.is_empty();
            rep.hist(if clean { "all-frames-strictly-valid" } else { "ill-formed-frame" });
            if s.connect.is_err() {
                rep.hist("connect-did-not-complete");
            }
            if s.frames >= 7 {
                rep.nontrivial(fnv(describe(c).to_string().as_bytes()));
            }
            if rep.want_sample() {
                let d = json!({"case": describe(c), "frames": s.frames});
                rep.sample(|| d);
            }
            for (e, len) in &s.malformed {
                rep.violation(format!("C04/frame/{}", mon::normalise(e)), format!("strict parser rejected a client frame of {} bytes: {}", len, e), describe(c));
            }
            for (k, n) in &s.notes {
                rep.violation(format!("C04/{}/{}", k, mon::normalise(n)), format!("{}: {}", k, n), describe(c));
            }
            for n in &s.nla {
                rep.violation(format!("C04/nla/{}", mon::normalise(n)), n.clone(), describe(c));
            }
        }
    }
}

pub fn run(cfg: &Cfg) -> Report {
    crate::tls::prewarm(true);
    let seed = cfg.seed;
    let mut total = Report::new();
    let plan: Vec<(u64, u64)> = vec![(0, cfg.n(8_000, 1_500_000)), (1, cfg.n(1_500, 200_000)), (2, cfg.n(48 * 72, 48 * 72 * 24)), (3, cfg.n(140 * 8, 140 * 800)), (4, cfg.n(600, 60_000))];
    for (class, n) in plan {
        if !cfg.wants(class) {
            continue;
        }
        let rep = par_run(cfg, n, 8, |idx, rep| {
            mon::begin_case(4, class, idx, seed);
            let c = make_case(class, idx, seed);
            check_case(&c, rep);
        });
        total.count(&format!("cases_class_{}", class), n);
        total.merge(rep);
    }
    total
}

pub fn replay(_cfg: &Cfg, v: &Value) -> Report {
    let mut rep = Report::new();
    mon::set_quiet(false);
    let g: Vec<u64> = if let Some(a) = v.get("death_case") {
        let a: Vec<u64> = a.as_array().unwrap().iter().map(|x| x.as_u64().unwrap()).collect();
        vec![a[1], a[2], a[3]]
    } else {
        v["gen"].as_array().unwrap().iter().map(|x| x.as_u64().unwrap()).collect()
    };
    let c = make_case(g[0], g[1], g[2]);
    check_case(&c, &mut rep);
    rep
}
