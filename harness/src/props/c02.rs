//! C02 — negotiated transport security is honoured; no downgrade.
//! The reference server answers the connection request with a crafted confirm and then behaves as
//! the selection says (plaintext for anything but SSL/Hybrid). Observed: connect's result, every raw
//! byte the client writes after the confirm, the frames parsed in plaintext, what the TLS side decrypts.

use crate::client::{self, ConnCfg};
use crate::mon;
use crate::refs::proto::{self, ClientMsg, Profile};
use crate::report::Report;
use crate::rng::{fnv, Rng};
use crate::server::{Duplex, TlsPolicy};
use crate::{par_run, Cfg};
use rdp::core::{tpkt, x224};
use rdp::model::link::{Link, Stream};
use rdp::nla::ntlm::Ntlm;
use serde_json::{json, Value};

#[derive(Clone, Debug)]
pub struct Case {
    /// "connector" or "x224"
    pub api: &'static str,
    pub offered: u32,
    pub with_auth: bool,
    pub check_certificate: bool,
    /// connector options that must not influence transport security: bit0 restricted admin, bit1 blank creds, bit2 auto logon, bit3 NT hash
    pub options: u8,
    pub identity: usize,
    /// response | failure | request-echo | absent | unknown-type
    pub reply_kind: &'static str,
    pub neg_type: u8,
    pub flags: u8,
    pub value: u32,
    pub class: &'static str,
}

impl Case {
    fn to_json(&self) -> Value {
        json!({"api": self.api, "offered": self.offered, "with_auth": self.with_auth, "check_certificate": self.check_certificate, "options": self.options, "identity": self.identity,
               "reply_kind": self.reply_kind, "neg_type": self.neg_type, "flags": self.flags, "value": self.value, "class": self.class})
    }
    fn from_json(v: &Value) -> Case {
        let kind = |s: &str| -> &'static str {
            match s {
                "failure" => "failure",
                "request-echo" => "request-echo",
                "absent" => "absent",
                "unknown-type" => "unknown-type",
                _ => "response",
            }
        };
        Case {
            api: if v["api"] == "x224" { "x224" } else { "connector" },
            offered: v["offered"].as_u64().unwrap_or(3) as u32,
            with_auth: v["with_auth"].as_bool().unwrap_or(true),
            check_certificate: v["check_certificate"].as_bool().unwrap_or(false),
            options: v["options"].as_u64().unwrap_or(0) as u8,
            identity: v["identity"].as_u64().unwrap_or(2) as usize,
            reply_kind: kind(v["reply_kind"].as_str().unwrap_or("")),
            neg_type: v["neg_type"].as_u64().unwrap_or(2) as u8,
            flags: v["flags"].as_u64().unwrap_or(0) as u8,
            value: v["value"].as_u64().unwrap_or(0) as u32,
            class: if v["class"] == "pre-secured-link" { "pre-secured-link" } else { "replay" },
        }
    }
    /// may the client go on after this reply?
    pub fn allowed(&self) -> bool {
        self.reply_kind == "response" && ((self.value == 1 && self.offered & 1 != 0) || (self.value == 2 && self.offered & 2 != 0) || (self.value == 0 && self.offered == 0))
    }
}

pub struct Seen {
    pub connect: Result<(), String>,
    pub raw_after_confirm: usize,
    pub plaintext_frames_after_cr: Vec<String>,
    pub tls_started_by_client: bool,
    pub decrypted_bytes: usize,
    pub nla_negotiate_seen: bool,
    pub decrypted_frames: Vec<String>,
    /// requestedProtocols as it stands in the connection request the client actually wrote
    pub wire_offered: Option<u32>,
}

pub fn run_case(c: &Case) -> Result<Seen, mon::PanicInfo> {
    let mut p = Profile::default();
    let tls = c.reply_kind == "response" && (c.value == 1 || c.value == 2);
    p.selected_protocol = if tls { c.value } else { 0 };
    let d = Duplex::new(p);
    let cc = if c.reply_kind == "absent" { proto::connection_confirm_bare() } else { proto::connection_confirm(c.neg_type, c.flags, c.value) };
    let cc_frame = proto::tpkt(&cc).v;
    d.with(|s| {
        s.tls_identity = c.identity;
        s.tls_policy = if tls { TlsPolicy::Always } else { TlsPolicy::Never };
        if c.class == "pre-secured-link" {
            s.tls = Some(crate::tls::TlsServer::new(&crate::tls::identity(c.identity), false));
        }
        let bytes = cc_frame.clone();
        s.frame_hook = Some(Box::new(move |k, _b| if k == "connection-confirm" { Some(bytes.clone()) } else { None }));
    });
    let probe = d.clone();
    let case = c.clone();
    let res = mon::guarded(move || {
        if case.api == "connector" {
            let mut cfg = ConnCfg::default();
            cfg.nla = case.offered & 2 != 0;
            cfg.check_certificate = case.check_certificate;
            cfg.restricted_admin = case.options & 1 != 0;
            cfg.blank_creds = case.options & 2 != 0;
            cfg.auto_logon = case.options & 4 != 0;
            if case.options & 8 != 0 {
                cfg.hash = Some(crate::refs::ntlm::nt_hash(&cfg.password).to_vec());
            }
            client::connect_real(&cfg, d.clone()).map(|_| ()).map_err(|e| client::err_kind(&e))
        } else {
            let mut auth = Ntlm::new("DOM".into(), "user".into(), "password".into());
            // in the pre-secured class the application has already upgraded the link to TLS itself, without verification,
            // before it hands it to x224::Client::connect with certificate checking requested
            let link = if case.class == "pre-secured-link" {
                match Link::new(Stream::Raw(d.clone())).start_ssl(false) {
                    Ok(l) => l,
                    Err(e) => return Err(format!("pre-securing the link failed: {}", client::err_kind(&e))),
                }
            } else {
                Link::new(Stream::Raw(d.clone()))
            };
            let t = tpkt::Client::new(link);
            let (ra, bc) = (case.options & 1 != 0, case.options & 2 != 0);
            let r = if case.with_auth { x224::Client::connect(t, case.offered, case.check_certificate, Some(&mut auth), ra, bc) } else { x224::Client::connect(t, case.offered, case.check_certificate, None, ra, bc) };
            match r {
                Err(e) => Err(client::err_kind(&e)),
                Ok(x) => {
                    // go on as Connector::connect would: MCS connect and client info
                    let mut m = rdp::core::mcs::Client::new(x);
                    let r2 = m.connect("c".into(), 800, 600, client::layout(0x409)).and_then(|_| rdp::core::sec::connect(&mut m, &"DOM".to_string(), &"user".to_string(), &"password".to_string(), false));
                    r2.map_err(|e| client::err_kind(&e))
                }
            }
        }
    })?;
    let seen = probe.with(|s| {
        let cc_end = s.sent.iter().find(|x| x.kind == "connection-confirm").map(|x| x.end).unwrap_or(0);
        let _ = cc_end;
        // bytes written on the raw transport after the connection request
        let cr_len = s.events.first().map(|e| e.raw.len()).unwrap_or(0);
        let raw_after = if s.tls.is_some() { s.raw_post_tls.len() } else { s.raw_pre_tls.len().saturating_sub(cr_len) };
        let plain_frames: Vec<String> = if s.tls.is_none() { s.events.iter().skip(1).map(|e| e.msg.name()).collect() } else { vec![] };
        let dec_frames: Vec<String> = if s.tls.is_some() { s.events.iter().skip(1).map(|e| e.msg.name()).collect() } else { vec![] };
        Seen {
            connect: res.clone(),
            raw_after_confirm: raw_after,
            plaintext_frames_after_cr: plain_frames,
            tls_started_by_client: s.tls.is_some() && !s.raw_post_tls.is_empty(),
            decrypted_bytes: s.plain_in.len().saturating_sub(if s.tls.is_some() { cr_len } else { 0 }),
            nla_negotiate_seen: s.nla_log.negotiate.is_some(),
            decrypted_frames: dec_frames,
            wire_offered: match s.events.first().map(|e| &e.msg) {
                Some(ClientMsg::ConnectionRequest { protocols, has_neg, .. }) => Some(if *has_neg { *protocols } else { 0 }),
                _ => None,
            },
        }
    });
    Ok(seen)
}

pub fn check_case(c: &Case, rep: &mut Report) {
    rep.eval();
    let j = c.to_json();
    match run_case(c) {
        Err(p) => {
            rep.hist("panic");
            rep.violation(format!("C02/{}/{}", c.api, p.sig()), format!("{} at {}:{}", p.msg, p.file, p.line), j);
        }
        Ok(s) => {
            // what counts as offered is what the client wrote in its connection request: a selection is allowed only if it
            // is also in that mask (the API argument and the wire must not disagree to the server's advantage)
            let mut allowed = c.allowed();
            if let Some(w) = s.wire_offered {
                if allowed && ((c.value == 1 && w & 1 == 0) || (c.value == 2 && w & 2 == 0) || (c.value == 0 && w != 0)) {
                    allowed = false;
                    rep.hist("wire-mask-differs-from-api-mask");
                }
            }
            rep.hist(&format!("{}:{}", if allowed { "allowed" } else { "forbidden" }, match &s.connect { Ok(()) => "Ok".to_string(), Err(e) => e.clone() }));
            let tag = format!("{}/{}/offered={:#x}", c.api, c.reply_kind, c.offered);
            // plaintext protocol messages after the request although transport security was asked for
            if c.offered != 0 && !s.plaintext_frames_after_cr.is_empty() {
                let creds = s.plaintext_frames_after_cr.iter().any(|n| n == "ClientInfo");
                rep.violation(
                    format!("C02/{}/plaintext-after-negotiation{}", tag, if creds { "+client-info-in-clear" } else { "" }),
                    format!("selected protocol {:#x} (type {}, flags {:#x}) with {:#x} offered: the client went on in clear text: {:?}", c.value, c.neg_type, c.flags, c.offered, s.plaintext_frames_after_cr),
                    j.clone(),
                );
            }
            if !allowed {
                if s.connect.is_ok() {
                    rep.violation(format!("C02/{}/forbidden-selection-accepted", tag), format!("selected {:#x} (type {}) with {:#x} offered: connect returned Ok", c.value, c.neg_type, c.offered), j.clone());
                }
                if s.raw_after_confirm > 0 {
                    rep.violation(
                        format!("C02/{}/wrote-after-forbidden-selection", tag),
                        format!("selected {:#x} (type {}) with {:#x} offered: {} bytes written on the link after the confirm (TLS started by client: {}, NTLM NEGOTIATE reached the server: {}, decrypted frames {:?})", c.value, c.neg_type, c.offered, s.raw_after_confirm, s.tls_started_by_client, s.nla_negotiate_seen, s.decrypted_frames),
                        j.clone(),
                    );
                }
            } else if c.check_certificate && (c.value == 1 || c.value == 2) {
                // (an allowed selection of plain RDP security - only possible when nothing else was offered - has no
                // certificate to check)
                // every certificate here is untrusted (self-signed, empty trust store): nothing may reach the TLS server
                if s.connect.is_ok() || s.decrypted_bytes > 0 || s.nla_negotiate_seen {
                    rep.violation(
                        format!("C02/{}/untrusted-certificate-accepted", tag),
                        format!("certificate checking is on and the certificate is untrusted (identity {}): connect {:?}, {} application bytes decrypted by the server, NTLM NEGOTIATE seen: {}", c.identity, s.connect, s.decrypted_bytes, s.nla_negotiate_seen),
                        j.clone(),
                    );
                }
            }
            rep.nontrivial(fnv(j.to_string().as_bytes()));
            rep.set("classes", c.class.to_string());
            if rep.want_sample() {
                let jj = json!({"case": j, "connect": format!("{:?}", s.connect), "raw_after_confirm": s.raw_after_confirm});
                rep.sample(|| jj);
            }
        }
    }
}

const HIGHS: [u32; 4] = [0, 1, 0x80, 0xFFFFFF];
const X224_MASKS: [u32; 8] = [0, 1, 2, 3, 8, 0xB, 0xA, 9];

pub fn make_case(class: u64, idx: u64, seed: u64) -> Case {
    let mut r = Rng::derive(seed, "C02", class, idx);
    match class {
        0 => {
            // Connector: every low byte x 4 high parts x {SSL, SSL|Hybrid} x certificate checking
            let lo = (idx % 256) as u32;
            let hi = HIGHS[(idx / 256 % 4) as usize];
            let nla = idx / 1024 % 2 == 1;
            let chk = idx / 2048 % 2 == 1;
            Case { api: "connector", offered: if nla { 3 } else { 1 }, with_auth: true, check_certificate: chk, options: (idx / 4096 % 16) as u8 ^ (idx % 16) as u8, identity: if chk && idx % 3 == 0 { 4 } else { 2 }, reply_kind: "response", neg_type: 2, flags: 0, value: hi << 8 | lo, class: "connector-selected-sweep" }
        }
        1 => {
            // x224 layer: offered masks x auth object x selected sweep
            let lo = (idx % 256) as u32;
            let hi = HIGHS[(idx / 256 % 4) as usize];
            let m = X224_MASKS[(idx / 1024 % 8) as usize];
            let auth = idx / 8192 % 2 == 0;
            Case { api: "x224", offered: m, with_auth: auth, check_certificate: false, options: (idx % 4) as u8, identity: 2, reply_kind: "response", neg_type: 2, flags: 0, value: hi << 8 | lo, class: "x224-selected-sweep" }
        }
        2 => {
            // flag byte: all 256 values for the accepted selections
            let flags = (idx % 256) as u8;
            let sel = if idx / 256 % 2 == 0 { 1 } else { 2 };
            let nla = sel == 2 || idx / 512 % 2 == 1;
            Case { api: "connector", offered: if nla { 3 } else { 1 }, with_auth: true, check_certificate: idx / 1024 % 2 == 1, options: (idx / 7 % 16) as u8, identity: 2, reply_kind: "response", neg_type: 2, flags, value: sel, class: "flag-byte-sweep" }
        }
        3 => {
            // reply kinds: failure codes, echoed request, absent, unknown types
            let (kind, t): (&'static str, u8) = match idx % 6 {
                0 => ("failure", 3),
                1 => ("request-echo", 1),
                2 => ("absent", 0),
                3 => ("unknown-type", 0),
                4 => ("unknown-type", 4),
                _ => ("unknown-type", *r.pick(&[5u8, 0x7f, 0x80, 0xff, 6, 0x10])),
            };
            let value = match idx / 6 % 6 {
                0 => (idx / 36 % 16) as u32,
                1 => 1,
                2 => 2,
                3 => 0,
                4 => 0xffffffff,
                _ => r.u32(),
            };
            let api: &'static str = if idx % 2 == 0 { "connector" } else { "x224" };
            Case { api, offered: *r.pick(&[1u32, 3, 3, 2, 0]), with_auth: true, check_certificate: r.chance(1, 4), options: r.below(16) as u8, identity: 2, reply_kind: kind, neg_type: t, flags: r.u8(), value, class: "reply-kinds" }
        }
        5 => {
            // selections, offered masks, response flag bytes and connector options crossed at random: a guard must hold
            // whatever the other parameters are
            let api: &'static str = if r.chance(1, 2) { "connector" } else { "x224" };
            let offered = if api == "connector" { *r.pick(&[1u32, 3]) } else { *r.pick(&[0u32, 1, 2, 3, 8, 0xB, 4]) };
            let value = *r.pick(&[0u32, 1, 2, 3, 4, 8, 0x10, 0x100, 0x101, 0x102, 0x8001, 0x8000_0002, 0xffff_ff00, 0xffff_ffff]);
            let flags = *r.pick(&[0u8, 0x01, 0x02, 0x04, 0x08, 0x10, 0x0f, 0x1f, 0x80, 0xff]);
            Case { api, offered, with_auth: r.chance(3, 4), check_certificate: r.chance(1, 4), options: r.below(16) as u8, identity: 2, reply_kind: "response", neg_type: 2, flags, value, class: "crossed-parameters" }
        }
        6 => {
            // the link is already under (unverified) TLS when the negotiation starts; certificate checking is requested
            let sel = 1 + (idx % 2) as u32;
            Case { api: "x224", offered: *r.pick(&[1u32, 2, 3]) | sel, with_auth: true, check_certificate: true, options: r.below(4) as u8, identity: (idx / 2 % 5) as usize, reply_kind: "response", neg_type: 2, flags: *r.pick(&[0u8, 8, 0x1f]), value: sel, class: "pre-secured-link" }
        }
        _ => {
            // certificate checking with every identity, allowed selections
            let sel = 1 + (idx % 2) as u32;
            Case { api: "connector", offered: 3, with_auth: true, check_certificate: true, options: (idx / 10 % 16) as u8, identity: (idx / 2 % 5) as usize, reply_kind: "response", neg_type: 2, flags: 0, value: sel, class: "certificate-checking" }
        }
    }
}

/// connections in one process, in a fixed order: unchecked, then checked against an untrusted certificate
fn sequence_case(rep: &mut Report) {
    for nla in [false, true].iter() {
        let a = Case { api: "connector", offered: if *nla { 3 } else { 1 }, with_auth: true, check_certificate: false, options: 0, identity: 2, reply_kind: "response", neg_type: 2, flags: 0, value: if *nla { 2 } else { 1 }, class: "sequence:unchecked-first" };
        check_case(&a, rep);
        let mut b = a.clone();
        b.check_certificate = true;
        b.class = "sequence:then-checked";
        check_case(&b, rep);
        check_case(&a, rep);
    }
}

/// class 7: one Connector with certificate checking ON makes zero, one or two connections to a server whose certificate
/// chain validates (identity 10, issued by the only authority the process trusts) and then one to a server with an
/// untrusted certificate (self-signed, another key type, or expired): that last connection must abort before any
/// credential-bearing message, whatever the object has seen before. With zero earlier connections and a trusted last
/// server the case records whether a trusted certificate is accepted at all (observation: the property does not ask for it).
fn trusted_case(idx: u64, seed: u64, rep: &mut Report) {
    rep.eval();
    let mut r = Rng::derive(seed, "C02-trusted", 7, idx);
    let sel: u32 = if idx % 2 == 0 { 1 } else { 2 };
    let earlier = (idx / 2 % 3) as usize;
    let last_trusted = idx / 6 % 4 == 3;
    let rogue = *r.pick(&[0usize, 2, 3, 4]);
    let mut cfg = ConnCfg::default();
    cfg.nla = sel == 2 || r.chance(1, 2);
    cfg.check_certificate = true;
    cfg.auto_logon = r.chance(1, 2);
    let mk = |identity: usize, k: u64| {
        let mut p = Profile::default();
        p.selected_protocol = sel;
        let d = Duplex::new(p);
        let mut nr = Rng::derive(seed, "C02-trusted-nla", k, idx);
        let nla = crate::gen::nla_cfg(&mut nr, &cfg);
        d.with(|s| {
            s.tls_identity = identity;
            s.tls_policy = TlsPolicy::Always;
            s.nla_cfg = nla;
        });
        d
    };
    let firsts: Vec<Duplex> = (0..earlier).map(|k| mk(crate::tls::TRUSTED_IDENTITY, k as u64)).collect();
    let last = mk(if last_trusted { crate::tls::TRUSTED_IDENTITY } else { rogue }, 9);
    let (fp, lp) = (firsts.clone(), last.clone());
    let cfgc = cfg.clone();
    let rp = json!({"trusted_case": [idx, seed]});
    let res = mon::guarded(move || {
        let mut k = client::connector(&cfgc);
        let mut out = Vec::new();
        for d in firsts {
            out.push(k.connect(d).map(|_| ()).map_err(|e| client::err_kind(&e)));
        }
        out.push(k.connect(last).map(|_| ()).map_err(|e| client::err_kind(&e)));
        out
    });
    let results = match res {
        Err(p) => {
            rep.violation(format!("C02/trusted-then-rogue/{}", p.sig()), format!("{} at {}:{}", p.msg, p.file, p.line), rp);
            return;
        }
        Ok(v) => v,
    };
    // the precondition of the class: the earlier connections did get through TLS with checking on
    // (the plaintext log starts with the connection request, which travels before TLS)
    let decrypted = |d: &Duplex| d.with(|s| s.plain_in.len().saturating_sub(s.events.first().map(|e| e.raw.len()).unwrap_or(0)));
    let through = |d: &Duplex| decrypted(d) > 0 || d.with(|s| s.nla_log.negotiate.is_some());
    if !fp.iter().all(through) {
        rep.hist("trusted-certificate-not-accepted(precondition-missing)");
        rep.inconclusive("a connection to the server with the trusted certificate did not get through TLS");
        return;
    }
    rep.nontrivial(idx ^ 0xC02_7);
    rep.set("classes", "trusted-then-rogue".to_string());
    if last_trusted {
        rep.hist(if through(&lp) { "trusted-certificate-accepted" } else { "trusted-certificate-refused(observation)" });
        return;
    }
    rep.hist(&format!("untrusted-after-{}-trusted-connections", earlier));
    let (dec, neg) = (decrypted(&lp), lp.with(|s| s.nla_log.negotiate.is_some()));
    let last_res = results.last().cloned().unwrap_or(Ok(()));
    if last_res.is_ok() || dec > 0 || neg {
        rep.violation(
            format!("C02/connector/trusted-then-rogue/untrusted-certificate-accepted"),
            format!("certificate checking is on; after {} connection(s) of the same Connector to a server whose certificate validates, a server with an untrusted certificate (identity {}, selecting {:#x}) was accepted: connect {:?}, {} application bytes decrypted by it, NTLM NEGOTIATE seen: {}", earlier, rogue, sel, last_res, dec, neg),
            rp,
        );
    }
}

pub fn run(cfg: &Cfg) -> Report {
    crate::tls::prewarm(false);
    let seed = cfg.seed;
    let mut total = Report::new();
    if cfg.wants(9) {
        let mut rep = Report::new();
        sequence_case(&mut rep);
        total.merge(rep);
    }
    let plan: Vec<(u64, u64)> = vec![(0, 4096), (1, 16384), (2, 2048), (3, cfg.n(2_000, 400_000)), (4, cfg.n(1600, 160_000)), (5, cfg.n(8_000, 400_000)), (6, cfg.n(300, 20_000))];
    for (class, n) in plan {
        if !cfg.wants(class) {
            continue;
        }
        let rep = par_run(cfg, n, 16, |idx, rep| {
            mon::begin_case(2, class, idx, seed);
            let c = make_case(class, idx, seed);
            check_case(&c, rep);
        });
        total.count(&format!("cases_class_{}", class), n);
        total.merge(rep);
    }
    if cfg.wants(7) {
        // generate the authority and the trusted identity on this thread, then make sure an independent verification
        // accepts the identity against the file the process trusts
        let _ = crate::tls::identity(crate::tls::TRUSTED_IDENTITY);
        if crate::tls::trusted_identity_verifies() {
            let n = cfg.n(600, 30_000);
            let rep = par_run(cfg, n, 8, |idx, rep| {
                mon::begin_case(2, 7, idx, seed);
                trusted_case(idx, seed, rep);
            });
            total.count("cases_class_7_trusted_then_rogue", n);
            total.merge(rep);
        } else {
            total.inconclusive("the harness could not set up a trusted certificate in this process (class trusted-then-rogue skipped)");
        }
    }
    if cfg.wants(9) {
        let mut rep = Report::new();
        sequence_case(&mut rep);
        total.merge(rep);
    }
    total
}

pub fn replay(_cfg: &Cfg, v: &Value) -> Report {
    let mut rep = Report::new();
    mon::set_quiet(false);
    if let Some(a) = v.get("trusted_case").and_then(|a| a.as_array()) {
        let _ = crate::tls::identity(crate::tls::TRUSTED_IDENTITY);
        trusted_case(a[0].as_u64().unwrap_or(0), a[1].as_u64().unwrap_or(1), &mut rep);
        return rep;
    }
    if let Some(a) = v.get("death_case") {
        let a: Vec<u64> = a.as_array().unwrap().iter().map(|x| x.as_u64().unwrap()).collect();
        if a[1] == 7 {
            let _ = crate::tls::identity(crate::tls::TRUSTED_IDENTITY);
            trusted_case(a[2], a[3], &mut rep);
            return rep;
        }
        check_case(&make_case(a[1], a[2], a[3]), &mut rep);
        return rep;
    }
    if v["class"].as_str().unwrap_or("").starts_with("sequence") {
        sequence_case(&mut rep);
        return rep;
    }
    check_case(&Case::from_json(v), &mut rep);
    rep
}
