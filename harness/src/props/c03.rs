//! C03 — connection sequence conforms end to end for every server and configuration.
//! Oracle: offline checker over the reference server's event log (strictly parsed client frames with
//! a logical clock and the number of server bytes the client had consumed when it wrote each).

use crate::client::{self, Client, ConnCfg};
use crate::gen;
use crate::mon;
use crate::refs::proto::{ClientMsg, Profile, ShareMsg};
use crate::report::Report;
use crate::rng::{fnv, Rng};
use crate::server::{Duplex, Event, Sent};
use crate::{par_run, Cfg};
use serde_json::{json, Value};

#[derive(Clone, Debug)]
pub struct Case {
    pub transport: &'static str, // plain | tls
    pub cfg: ConnCfg,
    pub profile: Profile,
    pub nla_seed: u64,
    pub reactivations: Vec<u32>, // share ids of the re-activations
    pub tls_identity: usize,
    pub tls12_only: bool,
    /// the transport accepts at most this many bytes per write call (short writes are legal for any io::Write)
    pub write_chunk: usize,
    pub class: &'static str,
    pub seed: u64,
    pub idx: u64,
    pub gen_class: u64,
    /// 1..4: the server sends a Set Error Info PDU with ERRINFO_NONE (0: "no error", to be ignored; the client announces
    /// support for that PDU) ahead of its synchronize / control-cooperate / control-granted / font-map PDU of every activation
    pub errinfo_before: usize,
}

fn describe(c: &Case) -> Value {
    json!({"transport": c.transport, "class": c.class, "gen": [c.gen_class, c.idx, c.seed], "cfg": c.cfg.to_json(), "errinfo_before": c.errinfo_before,
           "profile": {"selected": c.profile.selected_protocol, "user_id": c.profile.user_id, "share_id": c.profile.share_id, "version": c.profile.version,
                        "core_optional": c.profile.core_optional, "extra_blocks": c.profile.extra_blocks.len(), "block_order": c.profile.block_order,
                        "caps": c.profile.caps.iter().map(|(t, b)| json!([t, b.len()])).collect::<Vec<_>>(), "license": format!("{:?}", c.profile.license).chars().take(60).collect::<String>()},
           "reactivations": c.reactivations, "tls_identity": c.tls_identity, "tls12_only": c.tls12_only, "write_chunk": if c.write_chunk == usize::MAX { 0 } else { c.write_chunk }})
}

pub fn make_case(class: u64, idx: u64, seed: u64) -> Case {
    if class == 3 {
        // credential sizes sweeping the length boundaries of the PDUs that carry them (shared with C04)
        return crate::props::c04::make_case(3, idx, seed);
    }
    let mut r = Rng::derive(seed, "C03", class, idx);
    let tls = class == 1;
    let mut cfg = gen::conncfg(&mut r, true);
    let selected = if tls {
        if cfg.nla && r.chance(2, 3) {
            2
        } else {
            1
        }
    } else {
        0
    };
    let mut profile = gen::profile(&mut r, selected);
    if class == 2 {
        // user id sweep: every assignable id
        let ids: u64 = 65535 - 1001 + 1;
        let mut u = 1001 + (idx % ids) as u16;
        if u == 1002 || u == 1003 {
            u = 1004;
        }
        profile.user_id = u;
    }
    if !tls {
        cfg.nla = false;
    }
    let nre = *r.pick(&[0usize, 0, 1, 1, 2, 3]);
    let mut reactivations = Vec::new();
    for _ in 0..nre {
        reactivations.push(if r.chance(1, 3) { profile.share_id } else { gen::share_id(&mut r) });
    }
    let ids = [0usize, 2, 3];
    let mut case = Case {
        transport: if tls { "tls" } else { "plain" },
        cfg,
        profile,
        nla_seed: r.next(),
        reactivations,
        tls_identity: ids[r.below(3) as usize],
        tls12_only: r.chance(1, 3),
        write_chunk: usize::MAX,
        class: match class {
            0 => "plain-random-profiles",
            1 => "tls-and-nla",
            _ => "user-id-sweep",
        },
        seed,
        idx,
        gen_class: class,
        errinfo_before: 0,
    };
    // drawn last so that the rest of the case does not depend on them
    if r.chance(1, 4) {
        case.write_chunk = *r.pick(&[1usize, 2, 7, 16, 64, 1000]);
    }
    if tls && r.chance(1, 6) {
        case.tls_identity = *r.pick(&crate::tls::SPECIAL_IDENTITIES);
    }
    if r.chance(1, 4) {
        case.errinfo_before = 1 + r.below(4) as usize;
    }
    case
}

pub struct Outcome {
    pub connect: Result<(), String>,
    pub reads: Vec<Result<(), String>>,
    pub shutdown: Option<Result<(), String>>,
    pub events: Vec<Event>,
    pub sent: Vec<Sent>,
    pub malformed: Vec<(u64, String, Vec<u8>)>,
    pub nla_ok: Option<bool>,
    pub nla_note: String,
}

/// run the whole session on the real code; returns what the server observed
pub fn drive(c: &Case) -> Result<Outcome, mon::PanicInfo> {
    let d = Duplex::new(c.profile.clone());
    let mut nr = Rng::new(c.nla_seed);
    let nla = gen::nla_cfg(&mut nr, &c.cfg);
    d.with(|s| {
        s.tls_identity = c.tls_identity;
        s.tls12_only = c.tls12_only;
        s.write_chunk = c.write_chunk;
        s.nla_cfg = nla;
    });
    let extra = if c.errinfo_before > 0 { 1 } else { 0 };
    if c.errinfo_before > 0 {
        let target = ["synchronize", "control-cooperate", "control-granted", "font-map"][c.errinfo_before - 1];
        d.with(|s| {
            let p = s.profile.clone();
            let info = s.wrap(&crate::refs::proto::set_error_info(&p, p.share_id, 0), crate::server::Wrap::Sdi).v;
            s.frame_hook = Some(Box::new(move |k, f| if k == target { Some([info.clone(), f.v.clone()].concat()) } else { None }));
        });
    }
    let probe = d.clone();
    let cfg = c.cfg.clone();
    let tls = c.transport == "tls";
    let reuse_connector = tls && c.nla_seed % 5 == 0;
    // the first server of a reused Connector: same profile and account, its own state
    // ... which, when the client offers both, selects the OTHER security protocol: what the client echoes to the second
    // server (serverSelectedProtocol) is that server's selection, not the first one's
    let mut p0 = c.profile.clone();
    if reuse_connector && c.cfg.nla && (p0.selected_protocol == 1 || p0.selected_protocol == 2) {
        p0.selected_protocol = 3 - p0.selected_protocol;
    }
    let d0 = Duplex::new(p0);
    if reuse_connector {
        let mut nr0 = Rng::new(c.nla_seed ^ 0x5a5a);
        let nla0 = gen::nla_cfg(&mut nr0, &c.cfg);
        d0.with(|s| {
            s.tls_identity = c.tls_identity;
            s.tls12_only = c.tls12_only;
            s.nla_cfg = nla0;
        });
    }
    let react = c.reactivations.clone();
    let res = mon::guarded(move || {
        let mut reads = Vec::new();
        let mut shutdown = None;
        // one TLS case in five: the application connects twice with the same Connector (to a first conforming server,
        // session closed at once); the connection that is judged is the second one
        let conn = if tls && reuse_connector {
            let mut k = client::connector(&cfg);
            if let Ok(mut first) = k.connect(d0.clone()) {
                let _ = first.shutdown();
            }
            k.connect(d.clone()).map(Client::Real)
        } else if tls {
            client::connect_real(&cfg, d.clone())
        } else {
            client::connect_plain(&cfg, d.clone())
        };
        let connect = match conn {
            Err(e) => Err(client::err_kind(&e)),
            Ok(mut cl) => {
                // first activation: demand-active + 4 finalization PDUs are already queued by the server
                let rd = |cl: &mut Client, n: usize, reads: &mut Vec<Result<(), String>>| {
                    for _ in 0..n {
                        let r = cl.read(|_| {}).map_err(|e| client::err_kind(&e));
                        let bad = r.is_err();
                        reads.push(r);
                        if bad {
                            break;
                        }
                    }
                };
                rd(&mut cl, 5 + extra, &mut reads);
                for sid in react {
                    d.with(|s| {
                        let p = s.profile.clone();
                        let cur = s.next_share_id;
                        s.send("deactivate-all", &crate::refs::proto::deactivate_all(&p, cur), crate::server::Wrap::Sdi);
                        s.next_share_id = sid;
                        s.send_demand_active(sid);
                    });
                    rd(&mut cl, 6 + extra, &mut reads);
                }
                shutdown = Some(cl.shutdown().map_err(|e| client::err_kind(&e)));
                Ok(())
            }
        };
        (connect, reads, shutdown)
    })?;
    let (events, sent, malformed, nla_ok, nla_note) = probe.with(|s| {
        let nla_ok = if s.profile.selected_protocol & 2 != 0 {
            Some(matches!(s.nla, crate::server::NlaState::Done) && matches!(s.nla_log.credentials, Some(Ok(_))))
        } else {
            None
        };
        let note = format!(
            "auth={:?} pubkey={:?} creds={:?}",
            s.nla_log.auth.as_ref().map(|r| r.as_ref().map(|_| "ok").map_err(|e| e.clone())),
            s.nla_log.client_pubkey_plain.as_ref().map(|r| r.as_ref().map(|_| "ok").map_err(|e| e.clone())),
            s.nla_log.credentials.as_ref().map(|r| r.as_ref().map(|_| "ok").map_err(|e| e.clone()))
        );
        (s.events.clone(), s.sent.clone(), s.malformed.clone(), nla_ok, note)
    });
    Ok(Outcome { connect: res.0, reads: res.1, shutdown: res.2, events, sent, malformed, nla_ok, nla_note })
}

fn sent_end(sent: &[Sent], kind: &str, nth: usize) -> Option<usize> {
    sent.iter().filter(|s| s.kind == kind).nth(nth).map(|s| s.end)
}

/// The offline checker: returns (rule, detail) for every breach of the mandated sequence.
pub fn check_sequence(c: &Case, o: &Outcome) -> Vec<(String, String)> {
    let mut v: Vec<(String, String)> = Vec::new();
    let p = &c.profile;
    if let Err(e) = &o.connect {
        v.push((format!("connect-failed:{}", e), format!("connect returned {} against a conforming server ({})", e, o.nla_note)));
        return v;
    }
    for (i, r) in o.reads.iter().enumerate() {
        if let Err(e) = r {
            v.push((format!("read-failed:{}", e), format!("read #{} returned {} on a conforming PDU", i, e)));
            return v;
        }
    }
    if let Some(false) = o.nla_ok {
        v.push(("nla-incomplete".into(), format!("the reference CredSSP server did not complete: {}", o.nla_note)));
    }
    if !o.malformed.is_empty() {
        // well-formedness is C04's subject; here it only matters that the sequence is complete, which the
        // checks below establish from the frames that did parse
    }
    let ev = &o.events;
    let names: Vec<String> = ev.iter().map(|e| e.msg.name()).collect();
    let mut expect: Vec<String> = vec!["CR".into(), "ConnectInitial".into(), "ErectDomain".into(), "AttachUser".into(), "ChannelJoin".into(), "ChannelJoin".into(), "ClientInfo".into()];
    let activations = 1 + c.reactivations.len();
    for _ in 0..activations {
        for n in ["ConfirmActive", "Synchronize", "Control(4)", "Control(1)", "FontList"].iter() {
            expect.push(n.to_string());
        }
    }
    expect.push("DPU".into());
    if names != expect {
        let pos = names.iter().zip(expect.iter()).position(|(a, b)| a != b).unwrap_or(names.len().min(expect.len()));
        v.push((
            "sequence-mismatch".into(),
            format!("client messages {:?} differ from the mandated sequence at position {} (expected {:?}; {} frames did not parse: {:?})", names, pos, expect.get(pos), o.malformed.len(), o.malformed.first().map(|m| m.1.clone())),
        ));
        return v;
    }
    // dependencies: each message only after the reply it depends on was consumed by the client
    let dep = |v: &mut Vec<(String, String)>, e: &Event, kind: &str, nth: usize| {
        if let Some(end) = sent_end(&o.sent, kind, nth) {
            if e.delivered < end {
                v.push((format!("early-send:{}", e.msg.name()), format!("{} was written when only {} server bytes had been read; the {} it depends on ends at {}", e.msg.name(), e.delivered, kind, end)));
            }
        } else {
            v.push((format!("early-send:{}", e.msg.name()), format!("{} was written but the server never sent {} #{}", e.msg.name(), kind, nth)));
        }
    };
    dep(&mut v, &ev[1], "connection-confirm", 0);
    dep(&mut v, &ev[2], "connect-response", 0);
    dep(&mut v, &ev[4], "attach-user-confirm", 0);
    dep(&mut v, &ev[5], "channel-join-confirm", 0);
    dep(&mut v, &ev[6], "channel-join-confirm", 1);
    for a in 0..activations {
        dep(&mut v, &ev[7 + 5 * a], "demand-active", a);
    }
    // identifiers
    let mut sids: Vec<u32> = vec![p.share_id];
    sids.extend(c.reactivations.iter());
    let mut joins = Vec::new();
    for (i, e) in ev.iter().enumerate() {
        match &e.msg {
            ClientMsg::ConnectionRequest { flags, protocols, has_neg } => {
                let want = if c.transport == "tls" { c.cfg.offered_protocols() } else { 0 };
                if !*has_neg || *protocols != want {
                    v.push(("wrong-id:requestedProtocols".into(), format!("connection request offers {:#x}, configuration says {:#x}", protocols, want)));
                }
                let want_flags = if c.cfg.restricted_admin { 1 } else { 0 };
                if *flags != want_flags {
                    v.push(("wrong-id:requestFlags".into(), format!("connection request flags {:#x}, expected {:#x}", flags, want_flags)));
                }
            }
            ClientMsg::ConnectInitial { core, .. } => {
                if core.server_selected_protocol != p.selected_protocol {
                    v.push(("wrong-id:serverSelectedProtocol".into(), format!("CS_CORE serverSelectedProtocol {} but the server selected {}", core.server_selected_protocol, p.selected_protocol)));
                }
                if core.width != c.cfg.width || core.height != c.cfg.height || core.layout != c.cfg.layout {
                    v.push(("wrong-id:desktop".into(), format!("CS_CORE carries {}x{} layout {:#x}, configured {}x{} {:#x}", core.width, core.height, core.layout, c.cfg.width, c.cfg.height, c.cfg.layout)));
                }
            }
            ClientMsg::ChannelJoin { initiator, channel } => {
                if *initiator != p.user_id {
                    v.push(("wrong-id:join-initiator".into(), format!("channel join initiator {} but the assigned user id is {}", initiator, p.user_id)));
                }
                joins.push(*channel);
            }
            ClientMsg::ClientInfo { initiator, channel, .. } => {
                if *initiator != p.user_id || *channel != p.io_channel {
                    v.push(("wrong-id:info".into(), format!("client info sent as initiator {} on channel {} (assigned {} / {})", initiator, channel, p.user_id, p.io_channel)));
                }
            }
            ClientMsg::Share { initiator, channel, pdu_source, msg } => {
                if *initiator != p.user_id || *channel != p.io_channel || *pdu_source != p.user_id {
                    v.push(("wrong-id:share-header".into(), format!("{}: initiator {} channel {} pduSource {} (assigned user {} io channel {})", e.msg.name(), initiator, channel, pdu_source, p.user_id, p.io_channel)));
                }
                let act = (i - 7) / 5;
                let want = sids.get(act).copied().unwrap_or(0);
                let got = match msg {
                    ShareMsg::ConfirmActive { share_id, .. } => *share_id,
                    ShareMsg::Synchronize { share_id, .. } => *share_id,
                    ShareMsg::Control { share_id, .. } => *share_id,
                    ShareMsg::FontList { share_id } => *share_id,
                    ShareMsg::Input { share_id, .. } => *share_id,
                    ShareMsg::OtherData { share_id, .. } => *share_id,
                };
                if got != want {
                    v.push(("wrong-id:share-id".into(), format!("{} of activation {} carries share id {:#x}, the demand-active said {:#x}", e.msg.name(), act, got, want)));
                }
            }
            _ => {}
        }
    }
    joins.sort();
    let mut want = vec![p.user_id, p.io_channel];
    want.sort();
    if joins != want {
        v.push(("wrong-id:joined-channels".into(), format!("joined {:?}, expected the user channel and the I/O channel {:?}", joins, want)));
    }
    match &o.shutdown {
        Some(Ok(())) => {}
        Some(Err(e)) => v.push((format!("shutdown-failed:{}", e), "shutdown returned an error".into())),
        None => {}
    }
    v
}

pub fn check_case(c: &Case, rep: &mut Report) {
    rep.eval();
    match drive(c) {
        Err(p) => {
            rep.hist("panic");
            rep.violation(format!("C03/{}/{}", c.transport, p.sig()), format!("{} at {}:{}", p.msg, p.file, p.line), describe(c));
        }
        Ok(o) => {
            let viol = check_sequence(c, &o);
            if viol.is_empty() {
                rep.hist("conforms");
            } else {
                rep.hist("breach");
            }
            if o.connect.is_ok() {
                let d = describe(c);
                rep.nontrivial(fnv(d.to_string().as_bytes()));
            }
            rep.set("licence_variants", format!("{:?}", c.profile.license).chars().take(24).collect());
            rep.set("versions", format!("{:#x}", c.profile.version));
            rep.count(&format!("activations_{}", 1 + c.reactivations.len()), 1);
            if c.transport == "tls" {
                rep.count(&format!("selected_{}", c.profile.selected_protocol), 1);
                rep.count(&format!("tls_identity_{}", c.tls_identity), 1);
            }
            rep.count("client_messages_checked", o.events.len() as u64);
            if rep.want_sample() {
                let names: Vec<String> = o.events.iter().map(|e| e.msg.name()).collect();
                let d = json!({"case": describe(c), "client_messages": names});
                rep.sample(|| d);
            }
            for (rule, detail) in viol {
                rep.violation(format!("C03/{}/{}", c.transport, rule), detail, describe(c));
            }
        }
    }
}

pub fn run(cfg: &Cfg) -> Report {
    crate::tls::prewarm(true);
    let seed = cfg.seed;
    let mut total = Report::new();
    let plan: Vec<(u64, u64)> = vec![(0, cfg.n(6_000, 1_500_000)), (1, cfg.n(600, 150_000)), (2, if cfg.quick() { 300 } else { 64535 }), (3, cfg.n(140 * 4, 140 * 200))];
    for (class, n) in plan {
        if !cfg.wants(class) {
            continue;
        }
        let rep = par_run(cfg, n, 8, |idx, rep| {
            mon::begin_case(3, class, idx, seed);
            let c = make_case(class, idx, seed);
            check_case(&c, rep);
        });
        total.count(&format!("cases_class_{}", class), n);
        total.merge(rep);
    }
    total
}

pub fn replay(_cfg: &Cfg, v: &Value) -> Report {
    let mut rep = Report::new();
    mon::set_quiet(false);
    let g = if let Some(a) = v.get("death_case") {
        let a: Vec<u64> = a.as_array().unwrap().iter().map(|x| x.as_u64().unwrap()).collect();
        vec![a[1], a[2], a[3]]
    } else {
        v["gen"].as_array().unwrap().iter().map(|x| x.as_u64().unwrap()).collect()
    };
    let c = make_case(g[0], g[1], g[2]);
    check_case(&c, &mut rep);
    rep
}
