//! C17 — secrets leave the client only where the chosen mode says they may.
//! The reference TLS/CredSSP server keeps three byte logs (raw before TLS, NTLM tokens, decrypted
//! stream), unseals the credentials and parses the Client Info PDU strictly; the checker searches the
//! logs for the (unmistakable) secrets and compares the structured fields with the mode.

use crate::client::{self, ConnCfg};
use crate::gen;
use crate::mon;
use crate::refs::bytes::utf16le;
use crate::refs::proto::{ClientMsg, Profile};
use crate::report::Report;
use crate::rng::{fnv, Rng};
use crate::server::Duplex;
use crate::{par_run, Cfg};
use serde_json::{json, Value};

#[derive(Clone, Debug)]
pub struct Case {
    pub cfg: ConnCfg,
    pub selected: u32,
    pub identity: usize,
    pub combo: u64,
    pub nla_seed: u64,
    /// 0: conforming server; 1: the server (or a man in the middle) answers the negotiation with a selection that
    /// leaves the transport in clear (`selected`, no TLS); 2: NLA with an unusual CHALLENGE flag set (`flags`);
    /// 3: conforming server, reached by the SECOND connect of a Connector whose first connect failed at licensing;
    /// 4: conforming server, reached by a second connection made on the same thread after a first connection whose
    ///    transport died exactly when the Client Info PDU was handed to it
    /// 5: like 1, the confirm carrying no negotiation structure at all
    /// 6: conforming server, reached by the second connect of a Connector that first connected (successfully, to another
    ///    conforming server) with OTHER credentials in password mode and was then given the case's credentials / hash
    ///    through its setters
    pub server: u8,
    pub flags: u32,
}

fn secret(r: &mut Rng, n: usize, unicode: bool) -> String {
    // an alphabet that does not occur in protocol constants; long enough that a hit is never accidental
    const A: [char; 14] = ['Q', 'X', 'Z', 'J', 'K', 'V', 'W', 'q', 'x', 'z', 'j', 'k', 'v', 'w'];
    const U: [char; 5] = ['Ж', 'ß', '中', '🔑', 'é'];
    (0..n).map(|i| if unicode && i % 3 == 2 { *r.pick(&U) } else { *r.pick(&A) }).collect()
}

pub fn make_case(combo: u64, idx: u64, seed: u64) -> Case {
    let mut r = Rng::derive(seed, "C17", combo, idx);
    let mut c = ConnCfg::default();
    c.nla = combo & 1 != 0;
    c.restricted_admin = combo & 2 != 0;
    c.blank_creds = combo & 4 != 0;
    c.auto_logon = combo & 8 != 0;
    let hash = combo & 16 != 0;
    let uni = r.chance(1, 3);
    let dl = r.range(8, 12) as usize;
    c.domain = secret(&mut r, dl, uni);
    c.user = secret(&mut r, 9, uni);
    let pl = r.range(8, 20) as usize;
    c.password = secret(&mut r, pl, uni);
    if hash {
        c.hash = Some(crate::refs::ntlm::nt_hash(&c.password).to_vec());
        // with a hash the password string is usually empty, but the API allows both
        if r.chance(1, 2) {
            c.hash = Some(r.bytes(16));
            c.password = if r.chance(1, 2) { String::new() } else { c.password };
        }
    }
    // an account without a password is an account like another: every mode means the same for it
    if !hash && idx % 8 == 5 {
        c.password = String::new();
    }
    c.name = client::ascii_name(&mut r, 10);
    let selected = if c.nla && r.chance(3, 4) { 2 } else { 1 };
    let mut case = Case { cfg: c, selected, identity: *r.pick(&[0usize, 2, 3]), combo, nla_seed: r.next(), server: 0, flags: 0xE28A8235 };
    // drawn last: one case in three meets a server that does not play by the rules
    match r.below(6) {
        0 => {
            case.server = 1;
            case.selected = *r.pick(&[0u32, 0, 0, 4, 8, 16, 0x20, 0x80000000]);
            // ... or with a confirm that carries no negotiation structure at all (what a pre-negotiation server sends)
            if r.chance(1, 3) {
                case.server = 5;
                case.selected = 0;
            }
        }
        2 => {
            case.server = *r.pick(&[3u8, 4, 6]);
        }
        1 => {
            if case.cfg.nla {
                case.server = 2;
                case.selected = 2;
                case.flags = *r.pick(&[0xE28A8235u32 & !1, 0xE28A8235 & !1 | 2, 0xE28A8235 & !0x0200_0000, 0xE28A8235 & !0x30, 0xE28A8235 & !0x20, 0x60888215, 0xE28A8235 & !0x4000_0000, 0xE28A8235 & !0x0008_0000, 0x201, 0x202, 0, 0xffff_ffff, 0xE28A8235 & !0x0080_0000]);
            }
        }
        _ => {}
    }
    case
}

fn find(hay: &[u8], needle: &[u8]) -> Vec<usize> {
    let mut out = Vec::new();
    if needle.is_empty() || hay.len() < needle.len() {
        return out;
    }
    for i in 0..=hay.len() - needle.len() {
        if &hay[i..i + needle.len()] == needle {
            out.push(i);
        }
    }
    out
}

fn describe(c: &Case) -> Value {
    json!({"combo": c.combo, "cfg": c.cfg.to_json(), "selected": c.selected, "identity": c.identity, "nla_seed": c.nla_seed, "server": c.server, "flags": c.flags})
}

pub fn check_case(c: &Case, rep: &mut Report) {
    rep.eval();
    // the server's own parameters vary too: announced version (the Client Info PDU has a short and an extended form),
    // identifiers, optional blocks
    let mut pr = Rng::new(c.nla_seed ^ 0x1717_0017);
    let mut p = gen::profile(&mut pr, c.selected);
    // the flags byte of the negotiation response: every combination is a legitimate server
    p.cc_flags = [0u8, 0x01, 0x03, 0x07, 0x08, 0x0f, 0x17, 0x1f, 0x02, 0xff][(c.nla_seed % 10) as usize];
    let d = Duplex::new(p);
    let mut nr = Rng::new(c.nla_seed);
    let mut nla = gen::nla_cfg(&mut nr, &c.cfg);
    if c.server == 2 {
        nla.challenge_flags = c.flags;
    }
    d.with(|s| {
        s.tls_identity = c.identity;
        s.nla_cfg = nla;
        if c.server == 1 || c.server == 5 {
            s.tls_policy = crate::server::TlsPolicy::Never;
        }
        if c.server == 5 {
            let bare = crate::refs::proto::tpkt(&crate::refs::proto::connection_confirm_bare()).v;
            s.frame_hook = Some(Box::new(move |k, _b| if k == "connection-confirm" { Some(bare.clone()) } else { None }));
        }
        // a server presenting unusual flags does not insist on being able to unseal what the client sends
        s.lenient_pubkey = c.server == 2;
    });
    let probe = d.clone();
    let cfg = c.cfg.clone();
    let reuse = c.server == 3;
    let after_dead_write = c.server == 4;
    let reconfigured = c.server == 6;
    let seed_bit = c.nla_seed % 2 == 0;
    let sel = c.selected;
    let res = mon::guarded(move || {
        if after_dead_write {
            // first connection: everything fine until the write that carries the Client Info PDU
            let mut p1 = Profile::default();
            p1.selected_protocol = sel;
            let d1 = Duplex::new(p1);
            let mut nr1 = Rng::new(0x1718);
            let nla1 = gen::nla_cfg(&mut nr1, &cfg);
            d1.with(|s| {
                s.tls_identity = 2;
                s.nla_cfg = nla1;
                s.fail_write_when_events = Some(6);
            });
            let _ = client::connect_real(&cfg, d1.clone()).map(|_| ());
            return client::connect_real(&cfg, d.clone()).map(|_| ()).map_err(|e| client::err_kind(&e));
        }
        if reconfigured {
            // first connection: other credentials, password mode
            // ... either of another account, or of the same account still without its hash
            let same_account = seed_bit;
            let mut first = cfg.clone();
            if !same_account {
                first.domain = "FIRSTDOM".into();
                first.user = "firstuser".into();
                first.password = "first-password-GHTY".into();
            }
            first.hash = None;
            let mut p1 = Profile::default();
            p1.selected_protocol = sel;
            let d1 = Duplex::new(p1);
            let mut nr1 = Rng::new(0x1719);
            let nla1 = gen::nla_cfg(&mut nr1, &first);
            d1.with(|s| {
                s.tls_identity = 2;
                s.nla_cfg = nla1;
            });
            let mut k = client::connector(&first);
            let _ = k.connect(d1.clone()).map(|_| ());
            // the application now configures the account of this case on the same object
            if !same_account {
                k = k.credentials(cfg.domain.clone(), cfg.user.clone(), cfg.password.clone());
            }
            if let Some(h) = &cfg.hash {
                k = k.set_password_hash(h.clone());
            }
            return k.connect(d.clone()).map(|_| ()).map_err(|e| client::err_kind(&e));
        }
        if !reuse {
            return client::connect_real(&cfg, d.clone()).map(|_| ()).map_err(|e| client::err_kind(&e));
        }
        // one Connector, two connects: the first server breaks off at licensing, the second is the conforming one
        let mut k = client::connector(&cfg);
        let mut p1 = Profile::default();
        p1.selected_protocol = sel;
        let d1 = Duplex::new(p1);
        let mut nr1 = Rng::new(0x1717);
        let nla1 = gen::nla_cfg(&mut nr1, &cfg);
        d1.with(|s| {
            s.tls_identity = 2;
            s.nla_cfg = nla1;
            s.inner_hook = Some(Box::new(|k: &str, _b: &crate::refs::build::B| if k == "license" { Some(vec![0xff, 0x03, 0x00, 0x00]) } else { None }));
        });
        let _ = k.connect(d1.clone()).map(|_| ());
        k.connect(d.clone()).map(|_| ()).map_err(|e| client::err_kind(&e))
    });
    let j = describe(c);
    let connect = match res {
        Err(p) => {
            rep.violation(format!("C17/{}", p.sig()), format!("{} at {}:{}", p.msg, p.file, p.line), j);
            return;
        }
        Ok(r) => r,
    };
    let mode = format!("nla={} radmin={} blank={} auto={} hash={}", c.cfg.nla as u8, c.cfg.restricted_admin as u8, c.cfg.blank_creds as u8, c.cfg.auto_logon as u8, c.cfg.hash.is_some() as u8);
    let mut viol: Vec<(String, String)> = Vec::new();
    let pw8 = c.cfg.password.as_bytes().to_vec();
    let pw16 = utf16le(&c.cfg.password);
    let hashb = c.cfg.hash.clone().unwrap_or_default();
    probe.with(|s| {
        // 1. raw transport before TLS: no secret at all
        for (name, needle) in [("password-utf8", &pw8), ("password-utf16", &pw16), ("nt-hash", &hashb)].iter() {
            if !find(&s.raw_pre_tls, needle).is_empty() {
                viol.push((format!("{}-on-the-raw-transport", name), format!("{} found in the bytes written before TLS", name)));
            }
            if !find(&s.raw_post_tls, needle).is_empty() {
                viol.push((format!("{}-in-ciphertext", name), format!("{} found verbatim in the TLS record stream", name)));
            }
        }
        // 2. NTLM tokens
        for (tname, tok) in [("NEGOTIATE", &s.nla_log.negotiate), ("AUTHENTICATE", &s.nla_log.authenticate)].iter() {
            if let Some(t) = tok {
                for (name, needle) in [("password-utf8", &pw8), ("password-utf16", &pw16), ("nt-hash", &hashb)].iter() {
                    if !find(t, needle).is_empty() {
                        viol.push((format!("{}-in-ntlm-{}", name, tname.to_lowercase()), format!("{} found inside the NTLM {} token", name, tname)));
                    }
                }
            }
        }
        // 3. decrypted stream: the password may occur only inside the Client Info PDU
        let info_frame = s.events.iter().find(|e| matches!(e.msg, ClientMsg::ClientInfo { .. }));
        let info_range: Option<(usize, usize)> = info_frame.and_then(|e| find(&s.plain_in, &e.raw).first().map(|p| (*p, *p + e.raw.len())));
        for (name, needle) in [("password-utf8", &pw8), ("password-utf16", &pw16), ("nt-hash", &hashb)].iter() {
            for pos in find(&s.plain_in, needle) {
                let inside = match info_range {
                    Some((a, b)) => pos >= a && pos + needle.len() <= b && *name == "password-utf16",
                    None => false,
                };
                if !inside {
                    viol.push((format!("{}-in-decrypted-stream-outside-client-info", name), format!("{} at offset {} of the decrypted stream, outside the Client Info PDU", name, pos)));
                }
            }
        }
        if c.server != 0 && c.server != 3 && c.server != 4 && c.server != 6 {
            // a server outside the rules: only the negative part (the secrets appear nowhere else) is judged
            return;
        }
        // 4. connection request flags
        if let Some(ClientMsg::ConnectionRequest { flags, .. }) = s.events.first().map(|e| &e.msg) {
            let want = if c.cfg.restricted_admin { 1 } else { 0 };
            if *flags & 1 != want {
                viol.push(("restricted-admin-flag-mismatch".into(), format!("connection request flags {:#x}, restricted admin requested: {}", flags, c.cfg.restricted_admin)));
            }
        }
        // 5. CredSSP credentials
        if c.selected == 2 {
            match &s.nla_log.credentials {
                Some(Ok(cr)) => {
                    let must_be_empty = c.cfg.restricted_admin || c.cfg.blank_creds;
                    let empty = cr.domain.is_empty() && cr.user.is_empty() && cr.password.is_empty();
                    if must_be_empty && !empty {
                        viol.push(("tscredentials-not-emptied".into(), format!("restricted admin / blank credentials requested but TSPasswordCreds carries {} / {} / {} bytes", cr.domain.len(), cr.user.len(), cr.password.len())));
                    }
                    if !must_be_empty {
                        let want_pw = if c.cfg.hash.is_some() { Vec::new() } else { pw16.clone() };
                        if cr.domain != utf16le(&c.cfg.domain) || cr.user != utf16le(&c.cfg.user) || cr.password != want_pw {
                            viol.push(("tscredentials-differ-from-configuration".into(), "TSPasswordCreds does not carry the configured domain / user / password".into()));
                        }
                    }
                }
                Some(Err(e)) => viol.push(("tscredentials-unreadable".into(), e.clone())),
                None => {
                    if connect.is_ok() {
                        viol.push(("tscredentials-missing".into(), "connect succeeded but no authInfo reached the server".into()));
                    }
                }
            }
        }
        // 6. Client Info
        if let Some(ClientMsg::ClientInfo { info, .. }) = info_frame.map(|e| &e.msg) {
            if c.cfg.restricted_admin {
                if !(info.domain.is_empty() && info.user.is_empty() && info.password.is_empty()) {
                    viol.push(("client-info-not-emptied-in-restricted-admin".into(), format!("Client Info carries domain {:?} user {:?} password of {} characters", info.domain, info.user, info.password.chars().count())));
                }
            } else if info.domain != c.cfg.domain || info.user != c.cfg.user || info.password != c.cfg.password {
                viol.push(("client-info-differs-from-configuration".into(), format!("Client Info does not carry the configured credentials (blank_creds must only empty the CredSSP structure): domain equal {}, user equal {}, password equal {}", info.domain == c.cfg.domain, info.user == c.cfg.user, info.password == c.cfg.password)));
            }
            let auto = info.flags & 0x8 != 0;
            if auto != c.cfg.auto_logon {
                viol.push(("autologon-flag-mismatch".into(), format!("INFO_AUTOLOGON is {} but auto logon requested is {} (password empty: {}, restricted admin: {})", auto, c.cfg.auto_logon, c.cfg.password.is_empty(), c.cfg.restricted_admin)));
            }
        } else if connect.is_ok() {
            viol.push(("client-info-missing".into(), "connect succeeded but no Client Info PDU was parsed".into()));
        }
    });
    match &connect {
        Ok(()) => rep.hist("connected"),
        Err(e) => {
            rep.hist(&format!("connect-error:{}", e));
            if c.server == 0 || c.server == 3 || c.server == 4 || c.server == 6 {
                rep.inconclusive(&format!("connect failed ({}) in mode {}", e, mode));
            }
        }
    }
    if connect.is_ok() || c.server != 0 {
        rep.nontrivial(fnv(j.to_string().as_bytes()));
    }
    rep.set("server_behaviours", ["conforming", "selection-leaves-transport-in-clear", "unusual-challenge-flags", "second-connect-of-a-connector-whose-first-failed", "connection-after-one-whose-transport-died-at-the-client-info", "confirm-without-negotiation-structure", "second-connect-of-a-connector-reconfigured-through-its-setters"][c.server as usize].to_string());
    rep.set("modes", mode.clone());
    if rep.want_sample() {
        let jj = j.clone();
        rep.sample(|| jj);
    }
    for (what, detail) in viol {
        rep.violation(format!("C17/{}", what), format!("[{}] {}", mode, detail), j.clone());
    }
}

pub fn run(cfg: &Cfg) -> Report {
    crate::tls::prewarm(false);
    let seed = cfg.seed;
    let per = cfg.n(300, 20_000);
    par_run(cfg, 32 * per, 4, |i, rep| {
        let combo = i % 32;
        let idx = i / 32;
        mon::begin_case(17, combo, idx, seed);
        let c = make_case(combo, idx, seed);
        check_case(&c, rep);
    })
}

pub fn replay(_cfg: &Cfg, v: &Value) -> Report {
    let mut rep = Report::new();
    mon::set_quiet(false);
    let c = if let Some(a) = v.get("death_case") {
        let a: Vec<u64> = a.as_array().unwrap().iter().map(|x| x.as_u64().unwrap()).collect();
        make_case(a[1], a[2], a[3])
    } else {
        Case { cfg: ConnCfg::from_json(&v["cfg"]), selected: v["selected"].as_u64().unwrap_or(1) as u32, identity: v["identity"].as_u64().unwrap_or(2) as usize, combo: v["combo"].as_u64().unwrap_or(0), nla_seed: v["nla_seed"].as_u64().unwrap_or(1), server: v["server"].as_u64().unwrap_or(0) as u8, flags: v["flags"].as_u64().unwrap_or(0xE28A8235) as u32 }
    };
    check_case(&c, &mut rep);
    rep
}
