//! C01 — NLA releases credentials only after the server proves the session key.
//! The reference CredSSP server (real TLS, real NTLM) replaces its final-round reply; unless the
//! reply is *semantically* honest (unseals under the server-to-client keys with a valid checksum to
//! SubjectPublicKey+1 of the certificate presented) connect must fail and the server must receive no
//! further application byte.

use crate::client::{self, ConnCfg};
use crate::mon;
use crate::refs::ber::{self, Asn};
use crate::refs::cssp::{self, TsRequest};
use crate::refs::ntlm::Direction;
use crate::refs::proto::Profile;
use crate::report::Report;
use crate::rng::{fnv, hex, Rng};
use crate::server::{BlindCtx, Duplex, FinalAction, FinalCtx};
use crate::tls;
use crate::{par_run, Cfg};
use serde_json::{json, Value};
use std::sync::{Arc, Mutex};

#[derive(Clone, Debug)]
pub struct Config {
    pub cfg: ConnCfg,
    pub identity: usize,
    pub tls12_only: bool,
}

pub fn configs() -> Vec<Config> {
    let mut out = Vec::new();
    let creds = [("DOM", "user", "password"), ("", "u", ""), ("дом", "us🔑er", "päss🔑wörd")];
    let ids = [0usize, 2, 3];
    let mut k = 0;
    for hash in [false, true].iter() {
        for mode in 0..3 {
            let (d, u, p) = creds[k % 3];
            let mut c = ConnCfg::default();
            c.domain = d.into();
            c.user = u.into();
            c.password = p.into();
            c.restricted_admin = mode == 1;
            c.blank_creds = mode == 2;
            if *hash {
                c.hash = Some(crate::refs::ntlm::nt_hash(p).to_vec());
            }
            out.push(Config { cfg: c.clone(), identity: ids[k % 3], tls12_only: k % 2 == 0 });
            // and the same with the next key type
            out.push(Config { cfg: c, identity: ids[(k + 1) % 3], tls12_only: k % 2 == 1 });
            k += 1;
        }
    }
    // Ed25519 certificates whose key's low-order bytes are ff / fe / ff ff
    for (j, id) in tls::SPECIAL_IDENTITIES.iter().enumerate() {
        let (d, u, p) = creds[j % 3];
        let mut c = ConnCfg::default();
        c.domain = d.into();
        c.user = u.into();
        c.password = p.into();
        out.push(Config { cfg: c, identity: *id, tls12_only: j % 2 == 0 });
    }
    out
}

/// reply classes; `n` of a class may depend on the honest reply length
pub const CLASSES: [&str; 20] = [
    "bit-flip",
    "key-plus-k",
    "length-variants",
    "wrong-session-key",
    "client-to-server-keys",
    "wrong-sequence-number",
    "stale-cipher-state",
    "other-certificate",
    "reflection",
    "truncation",
    "trailing-garbage",
    "re-encoded",
    "tls-close",
    "two-bit-checksum",
    "checksum-permutation",
    "honest-control",
    "blind-attacker",
    "reused-authentication-context",
    "malformed-then-honest",
    "certificate-twin",
];
pub const REUSE_REPLIES: u64 = 5;

/// CHALLENGE flag sets a man in the middle may present (it relays or rewrites the CHALLENGE at will)
pub const BLIND_FLAGS: [u32; 14] = [
    0xE28A8235,
    0xE28A8235 & !0x20,
    0xE28A8235 & !0x10,
    0xE28A8235 & !0x30,
    0xE28A8235 & !0x8030,
    0xE28A8235 & !0x4000_0000,
    0xE28A8235 & !0x0008_0000,
    0xE28A8235 & !0xA000_0000,
    0xE28A8235 & !0x200,
    0xE28A8235 & !0x1,
    0xE28A8235 & !0x0200_0000,
    0,
    0xffff_ffff,
    0x201,
];
pub const BLIND_REPLIES: u64 = 15;

/// replies that need no secret: what is visible on the wire plus the certificate's key
fn blind_reply(ctx: &BlindCtx, rv: u64, r: &mut Rng) -> Vec<u8> {
    let k = &ctx.subject_public_key;
    let k1 = cssp::le_increment(k);
    let ct = &ctx.client_pub_key_auth;
    let cat = |a: &[u8], b: &[u8]| -> Vec<u8> {
        let mut v = a.to_vec();
        v.extend_from_slice(b);
        v
    };
    let dummy = [1u8, 0, 0, 0, 0, 0, 0, 0, 0, 0, 0, 0, 0, 0, 0, 0];
    let zero_key = [0u8; 16];
    let pka: Vec<u8> = match rv {
        0 => cat(&dummy, &k1),
        1 => cat(&[0u8; 16], &k1),
        2 => k1.clone(),
        3 => cat(&dummy, k),
        4 => ct.clone(),
        5 => cat(&ct[..ct.len().min(16)], &k1),
        6 => {
            let mut sig = vec![1u8, 0, 0, 0];
            sig.extend_from_slice(&r.bytes(8));
            sig.extend_from_slice(&[0, 0, 0, 0]);
            cat(&sig, &k1)
        }
        // sealed and signed with an all-zero session key, server and client direction
        7 => Direction::new(&zero_key, false).wrap(&k1),
        8 => Direction::new(&zero_key, true).wrap(&k1),
        9 => vec![],
        // dummy signature with sequence number 1
        10 => cat(&[1u8, 0, 0, 0, 0, 0, 0, 0, 0, 0, 0, 0, 1, 0, 0, 0], &k1),
        // the client's own token with the last byte of the ciphertext incremented
        11 => {
            let mut v = ct.clone();
            if let Some(x) = v.get_mut(16) {
                *x = x.wrapping_add(1);
            }
            v
        }
        12 => cat(&[0xffu8; 16], &k1),
        // an attacker who cannot know the session key can still try the few keys a careless generator would produce: the
        // client's own token is the certificate key sealed as its first message, so a guess is confirmed offline; with
        // the right guess the reply is the key + 1 correctly sealed (16 equal bytes, 8 equal bytes twice, a counter)
        14 => {
            let mut found: Option<[u8; 16]> = None;
            'search: for b in 0..=255u8 {
                let mut cands = vec![[b; 16]];
                let mut half = [b; 16];
                for x in half[8..].iter_mut() {
                    *x = b.wrapping_add(1);
                }
                cands.push(half);
                let mut ramp = [0u8; 16];
                for (i, x) in ramp.iter_mut().enumerate() {
                    *x = b.wrapping_add(i as u8);
                }
                cands.push(ramp);
                for key in cands {
                    if Direction::new(&key, true).wrap(k) == *ct {
                        found = Some(key);
                        break 'search;
                    }
                }
            }
            match found {
                Some(key) => Direction::new(&key, false).wrap(&k1),
                None => cat(&dummy, &k1),
            }
        }
        _ => cat(&dummy, &cat(&k1, &[0])),
    };
    ts(ctx.ts_version, pka)
}

fn seal_with(key: &[u8; 16], plain: &[u8]) -> Vec<u8> {
    Direction::new(key, false).wrap(plain)
}

fn ts(version: u64, pka: Vec<u8>) -> Vec<u8> {
    cssp::build(&TsRequest { version, pub_key_auth: Some(pka), ..Default::default() })
}

fn add_le(k: &[u8], delta: i128) -> Vec<u8> {
    // little-endian big integer arithmetic on the key bytes
    let mut v = k.to_vec();
    if delta >= 0 {
        let mut carry = delta as u128;
        let mut i = 0;
        while carry > 0 {
            if i == v.len() {
                v.push(0);
            }
            let s = v[i] as u128 + (carry & 0xff);
            v[i] = s as u8;
            carry = (carry >> 8) + (s >> 8);
            i += 1;
        }
    } else {
        let mut borrow = (-delta) as u128;
        let mut i = 0;
        while borrow > 0 && i < v.len() {
            let sub = borrow & 0xff;
            let cur = v[i] as i32 - sub as i32;
            if cur < 0 {
                v[i] = (cur + 256) as u8;
                borrow = (borrow >> 8) + 1;
            } else {
                v[i] = cur as u8;
                borrow >>= 8;
            }
            i += 1;
        }
    }
    v
}

/// the reply of class `class`, variant `sub`; None when `sub` is out of range for this reply
pub fn make_reply(ctx: &FinalCtx, class: usize, sub: u64, r: &mut Rng) -> Option<FinalAction> {
    let h = &ctx.honest_reply;
    let key = &ctx.subject_public_key;
    let sk = &ctx.session_key;
    let send = |b: Vec<u8>| Some(FinalAction::Send(b));
    // the sealed honest token (signature 16 + ciphertext)
    let honest_sealed = cssp::parse(h, true).ok()?.pub_key_auth?;
    match CLASSES[class] {
        "bit-flip" => {
            if sub >= h.len() as u64 * 8 {
                return None;
            }
            let mut b = h.clone();
            b[(sub / 8) as usize] ^= 1 << (sub % 8);
            send(b)
        }
        "key-plus-k" => {
            let ks: [i128; 20] = [0, 2, -1, 255, 256, 257, 1 << 64, -256, 3, 65536, 1 << 32, 0x0100_0000_0000_0001, -255, -254, -65535, 65537, 65281, -65279, 513, 1 - (1 << 24)];
            if sub as usize >= ks.len() + 4 + 6 {
                return None;
            }
            if sub as usize >= ks.len() + 4 {
                // offsets that do not fit a machine integer: the key read at the other end (big-endian + 1), and one added
                // at a single byte position in the middle, next to either end, or chosen at random
                let n = key.len();
                let mut k = key.clone();
                match sub as usize - ks.len() - 4 {
                    0 => {
                        // big-endian increment with carry
                        for i in (0..n).rev() {
                            k[i] = k[i].wrapping_add(1);
                            if k[i] != 0 {
                                break;
                            }
                        }
                    }
                    1 => {
                        for i in (0..n).rev() {
                            k[i] = k[i].wrapping_sub(1);
                            if k[i] != 0xff {
                                break;
                            }
                        }
                    }
                    2 => k[n / 2] = k[n / 2].wrapping_add(1),
                    3 => k[n - 2] = k[n - 2].wrapping_add(1),
                    4 => k[1] = k[1].wrapping_add(1),
                    _ => {
                        let i = 1 + r.below(n as u64 - 1) as usize;
                        k[i] = k[i].wrapping_add(1);
                    }
                }
                if k == cssp::le_increment(key) {
                    return None;
                }
                return send(ts(ctx.ts_version, seal_with(sk, &k)));
            }
            let d = if (sub as usize) < ks.len() { ks[sub as usize] } else { (r.next() >> 1) as i128 + 2 };
            send(ts(ctx.ts_version, seal_with(sk, &add_le(key, d))))
        }
        "length-variants" => {
            let p = &ctx.honest_plain;
            let n = p.len();
            // prefixes (incl. empty), key+1 followed by non-zero bytes, zero-extended (numerically equal: don't-care)
            let v: Vec<u8> = match sub {
                0 => vec![],
                1 => p[..1].to_vec(),
                2 => p[..n / 2].to_vec(),
                3 => p[..n - 1].to_vec(),
                4 => p[..n - 2].to_vec(),
                5 => {
                    let mut x = p.clone();
                    x.push(1);
                    x
                }
                6 => {
                    let mut x = p.clone();
                    x.extend_from_slice(&[0, 0, 7]);
                    x
                }
                7 => {
                    let mut x = p.clone();
                    x.extend_from_slice(&r.bytes(16));
                    x
                }
                8 => {
                    let mut x = p.clone();
                    x.extend_from_slice(&[0, 0, 0]);
                    x
                }
                9 => p[1..].to_vec(),
                10 => {
                    let mut x = vec![0u8];
                    x.extend_from_slice(p);
                    x
                }
                11 => p.iter().rev().cloned().collect(),
                12 => vec![0u8; n],
                13 => vec![0xffu8; n],
                _ => {
                    if sub < 14 + 40 {
                        p[..(sub as usize - 14) * n / 40].to_vec()
                    } else {
                        return None;
                    }
                }
            };
            send(ts(ctx.ts_version, seal_with(sk, &v)))
        }
        "wrong-session-key" => {
            if sub >= 8 {
                return None;
            }
            let mut k2 = *sk;
            match sub {
                0 => k2[0] ^= 1,
                1 => k2[15] ^= 0x80,
                2 => k2 = [0; 16],
                _ => k2.copy_from_slice(&r.bytes(16)),
            }
            send(ts(ctx.ts_version, seal_with(&k2, &ctx.honest_plain)))
        }
        "client-to-server-keys" => {
            if sub >= 2 {
                return None;
            }
            let mut d = Direction::new(sk, true);
            if sub == 1 {
                let _ = d.wrap(key); // as the client's context is after sealing its own token
            }
            send(ts(ctx.ts_version, d.wrap(&ctx.honest_plain)))
        }
        "wrong-sequence-number" => {
            if sub >= 4 {
                return None;
            }
            let mut d = Direction::new(sk, false);
            d.seq = [1u32, 2, 0xffffffff, 0x100][sub as usize];
            send(ts(ctx.ts_version, d.wrap(&ctx.honest_plain)))
        }
        "stale-cipher-state" => {
            if sub >= 3 {
                return None;
            }
            let mut d = Direction::new(sk, false);
            let _ = d.wrap(&vec![0u8; [1usize, 16, 300][sub as usize]]);
            d.seq = 0;
            send(ts(ctx.ts_version, d.wrap(&ctx.honest_plain)))
        }
        "other-certificate" => {
            if sub >= 4 {
                return None;
            }
            // the proof a relaying attacker obtains for a different certificate
            let other = tls::identity([1usize, 2, 3, 0][sub as usize]);
            if other.subject_public_key == *key {
                return None;
            }
            send(ts(ctx.ts_version, seal_with(sk, &cssp::le_increment(&other.subject_public_key))))
        }
        "reflection" => match sub {
            0 => send(ts(ctx.ts_version, ctx.client_sealed_pubkey.clone())),
            1 => send(ctx.client_authenticate_request.clone()),
            2 => {
                // the client's own plaintext (key, not key+1) sealed in the server direction
                send(ts(ctx.ts_version, seal_with(sk, key)))
            }
            _ => None,
        },
        "truncation" => {
            if sub >= h.len() as u64 {
                return None;
            }
            send(h[..sub as usize].to_vec())
        }
        "trailing-garbage" => {
            if sub >= 6 {
                return None;
            }
            let mut b = h.clone();
            match sub {
                0 => b.push(0),
                1 => b.extend_from_slice(&[0xff; 8]),
                2 => b.extend_from_slice(&r.bytes(64)),
                3 => {
                    // garbage inside the sealed token
                    let mut s = honest_sealed.clone();
                    s.push(0);
                    b = ts(ctx.ts_version, s);
                }
                4 => {
                    let mut s = honest_sealed.clone();
                    s.extend_from_slice(&r.bytes(16));
                    b = ts(ctx.ts_version, s);
                }
                _ => {
                    b.extend_from_slice(&h.clone());
                }
            }
            send(b)
        }
        "re-encoded" => {
            let pka = honest_sealed.clone();
            let ver = Asn::Ctx(0, Box::new(Asn::Int(ctx.ts_version)));
            let b: Vec<u8> = match sub {
                // BER with non-minimal lengths (semantically honest if accepted)
                0 => ber::der_form(&cssp::to_asn(&TsRequest { version: ctx.ts_version, pub_key_auth: Some(pka), ..Default::default() }), &mut |_| 1),
                1 => ber::der_form(&cssp::to_asn(&TsRequest { version: ctx.ts_version, pub_key_auth: Some(pka), ..Default::default() }), &mut |_| 3),
                // extra errorCode field
                2 => cssp::build(&TsRequest { version: ctx.ts_version, pub_key_auth: Some(pka), error_code: Some(0), ..Default::default() }),
                // pubKeyAuth missing
                3 => ber::der(&Asn::Seq(vec![ver])),
                // negoTokens instead of pubKeyAuth
                4 => cssp::build(&TsRequest { version: ctx.ts_version, nego_tokens: vec![pka], ..Default::default() }),
                // authInfo instead
                5 => cssp::build(&TsRequest { version: ctx.ts_version, auth_info: Some(pka), ..Default::default() }),
                // errorCode only (server says logon failure)
                6 => cssp::build(&TsRequest { version: ctx.ts_version, error_code: Some(0xc000006d), ..Default::default() }),
                // empty pubKeyAuth
                7 => ts(ctx.ts_version, vec![]),
                // only the 16-byte signature, no ciphertext
                8 => ts(ctx.ts_version, honest_sealed[..16].to_vec()),
                // indefinite length
                9 => {
                    let inner = &h[2 + if h[1] & 0x80 != 0 { (h[1] & 0x7f) as usize } else { 0 }..];
                    let mut v = vec![0x30, 0x80];
                    v.extend_from_slice(inner);
                    v.extend_from_slice(&[0, 0]);
                    v
                }
                _ => return None,
            };
            send(b)
        }
        "blind-attacker" | "reused-authentication-context" | "certificate-twin" => None,
        "malformed-then-honest" => {
            // a reply the client cannot take, in a TLS record of its own, and the honest reply right behind it: the round
            // has failed with the first one
            let ver = Asn::Ctx(0, Box::new(Asn::Int(ctx.ts_version)));
            let bad: Vec<u8> = match sub {
                0 => h[..h.len() / 2].to_vec(),
                1 => ber::der(&Asn::Seq(vec![ver])),
                2 => ts(ctx.ts_version, vec![]),
                3 => b"HTTP/1.1 400 Bad Request\r\n\r\n".to_vec(),
                4 => {
                    let mut b = h.clone();
                    b[0] = 0x31;
                    b
                }
                5 => ctx.client_authenticate_request.clone(),
                6 => vec![0x30],
                7 => cssp::build(&TsRequest { version: ctx.ts_version, error_code: Some(0xc000006d), ..Default::default() }),
                8 => cssp::build(&TsRequest { version: ctx.ts_version, nego_tokens: vec![honest_sealed.clone()], ..Default::default() }),
                9 => h[..h.len() - 1].to_vec(),
                _ => return None,
            };
            Some(FinalAction::SendSplit(vec![bad, h.clone()]))
        }
        "tls-close" => {
            if sub >= 1 {
                return None;
            }
            Some(FinalAction::Close)
        }
        "two-bit-checksum" => {
            // same bit in two different checksum bytes (the checksum sits at offset 4..12 of the sealed token)
            let pairs: Vec<(usize, usize)> = (4..12).flat_map(|a| ((a + 1)..12).map(move |b| (a, b))).collect();
            if sub as usize >= pairs.len() * 8 {
                return None;
            }
            let (a, b) = pairs[sub as usize / 8];
            let bit = sub % 8;
            let mut s = honest_sealed.clone();
            s[a] ^= 1 << bit;
            s[b] ^= 1 << bit;
            send(ts(ctx.ts_version, s))
        }
        "checksum-permutation" => {
            let pairs: Vec<(usize, usize)> = (4..12).flat_map(|a| ((a + 1)..12).map(move |b| (a, b))).collect();
            if sub as usize >= pairs.len() + 2 {
                return None;
            }
            let mut s = honest_sealed.clone();
            if (sub as usize) < pairs.len() {
                let (a, b) = pairs[sub as usize];
                if s[a] == s[b] {
                    return None;
                }
                s.swap(a, b);
            } else if sub as usize == pairs.len() {
                s[4..12].reverse();
            } else {
                s[4..12].rotate_left(1);
            }
            send(ts(ctx.ts_version, s))
        }
        _ => {
            // honest control: must be accepted, credentials must follow
            if sub >= 2 {
                return None;
            }
            if sub == 0 {
                send(h.clone())
            } else {
                let k = h.len() / 2;
                Some(FinalAction::SendSplit(vec![h[..k].to_vec(), h[k..].to_vec()]))
            }
        }
    }
}

fn le_trim(v: &[u8]) -> &[u8] {
    let mut n = v.len();
    while n > 0 && v[n - 1] == 0 {
        n -= 1;
    }
    &v[..n]
}

/// is this reply an honest proof, semantically?
pub fn honest(reply: &[u8], session_key: &[u8; 16], honest_plain: &[u8]) -> bool {
    let t = match cssp::parse(reply, false) {
        Ok(t) => t,
        Err(_) => return false,
    };
    let pka = match t.pub_key_auth {
        Some(p) => p,
        None => return false,
    };
    // the sequence number is covered by the signature; a reply signed with another number still proves the key
    match Direction::new(session_key, false).unwrap_any_seq(&pka) {
        Ok(p) => le_trim(&p) == le_trim(honest_plain),
        Err(_) => false,
    }
}

pub struct Outcome {
    pub connect: Result<(), String>,
    pub reached_final_round: bool,
    pub reply: Vec<u8>,
    pub honest: bool,
    pub app_bytes_after: usize,
    pub auth_info_received: bool,
    pub raw_bytes_after: usize,
    pub skipped: bool,
}

/// The application keeps ONE authentication object and uses it for two connections in a row (the public API
/// takes it by `&mut`). The first server is genuine and so learns that session's key; the second one does not know
/// the account's secrets and answers the final round from what the first session revealed.
fn run_reuse_case(conf: &Config, sub: u64, seed: u64) -> Result<Outcome, mon::PanicInfo> {
    use rdp::core::{tpkt as ltpkt, x224 as lx224};
    use rdp::model::link::{Link, Stream};
    use rdp::nla::ntlm::Ntlm;
    let skipped = Outcome { connect: Ok(()), reached_final_round: false, reply: vec![], honest: false, app_bytes_after: 0, auth_info_received: false, raw_bytes_after: 0, skipped: true };
    if sub >= REUSE_REPLIES {
        return Ok(skipped);
    }
    let mk_server = |which: u64| -> Duplex {
        let mut p = Profile::default();
        p.selected_protocol = 2;
        let d = Duplex::new(p);
        let mut nr = Rng::derive(seed, "C01-reuse-nla", which, sub);
        let nla = crate::gen::nla_cfg(&mut nr, &conf.cfg);
        d.with(|s| {
            s.tls_identity = conf.identity;
            s.tls12_only = conf.tls12_only;
            s.nla_cfg = nla;
        });
        d
    };
    let cfg = conf.cfg.clone();
    // first connection: genuine server; what it learns is kept
    let learned: Arc<Mutex<Option<([u8; 16], Vec<u8>)>>> = Arc::new(Mutex::new(None));
    let d1 = mk_server(1);
    let l2 = learned.clone();
    d1.with(|s| {
        s.final_hook = Some(Box::new(move |ctx: &FinalCtx| {
            *l2.lock().unwrap() = Some((ctx.session_key, ctx.honest_reply.clone()));
            FinalAction::Send(ctx.honest_reply.clone())
        }));
    });
    let d2 = mk_server(2);
    let shared: Arc<Mutex<(bool, Vec<u8>)>> = Arc::new(Mutex::new((false, Vec::new())));
    let (sh, l3) = (shared.clone(), learned.clone());
    d2.with(|s| {
        s.blind_hook = Some(Box::new(move |ctx: &BlindCtx| {
            let (k1, reply1) = l3.lock().unwrap().clone().unwrap_or(([0u8; 16], Vec::new()));
            let key1 = cssp::le_increment(&ctx.subject_public_key);
            let b = match sub {
                // key+1 of the certificate sealed under the FIRST session's key, fresh and continued cipher state
                0 => ts(ctx.ts_version, Direction::new(&k1, false).wrap(&key1)),
                1 => {
                    let mut d = Direction::new(&k1, false);
                    let _ = d.wrap(&key1);
                    ts(ctx.ts_version, d.wrap(&key1))
                }
                // the first session's final reply, verbatim (same certificate, so same plaintext)
                2 => reply1,
                // the same under the client-to-server keys of the first session
                3 => ts(ctx.ts_version, Direction::new(&k1, true).wrap(&key1)),
                // the first session's key as if it were derived again with another sequence number
                _ => {
                    let mut d = Direction::new(&k1, false);
                    d.seq = 1;
                    ts(ctx.ts_version, d.wrap(&key1))
                }
            };
            let mut g = sh.lock().unwrap();
            g.0 = true;
            g.1 = b.clone();
            b
        }));
    });
    let (p1, p2) = (d1.clone(), d2.clone());
    let res = mon::guarded(move || -> Result<(Result<(), String>, Result<(), String>), String> {
        let mut auth = match &cfg.hash {
            Some(h) => Ntlm::from_hash(cfg.domain.clone(), cfg.user.clone(), h),
            None => Ntlm::new(cfg.domain.clone(), cfg.user.clone(), cfg.password.clone()),
        };
        let first = lx224::Client::connect(ltpkt::Client::new(Link::new(Stream::Raw(d1.clone()))), 3, false, Some(&mut auth), cfg.restricted_admin, cfg.blank_creds).map(|_| ()).map_err(|e| client::err_kind(&e));
        let second = lx224::Client::connect(ltpkt::Client::new(Link::new(Stream::Raw(d2.clone()))), 3, false, Some(&mut auth), cfg.restricted_admin, cfg.blank_creds).map(|_| ()).map_err(|e| client::err_kind(&e));
        Ok((first, second))
    })?;
    let (first, second) = match res {
        Ok(x) => x,
        Err(_) => return Ok(skipped),
    };
    let first_ok = first.is_ok() && p1.with(|s| s.nla_log.auth_info_received);
    let g = shared.lock().unwrap();
    if !first_ok {
        // the genuine first connection must work, otherwise the second tells nothing
        return Ok(Outcome { connect: first, reached_final_round: false, reply: vec![], honest: false, app_bytes_after: 0, auth_info_received: false, raw_bytes_after: 0, skipped: false });
    }
    let (app_after, auth_info, raw_after) = p2.with(|s| (s.plain_after_final_reply, s.nla_log.auth_info_received, s.raw_mark_final.map(|m| s.raw_post_tls.len().saturating_sub(m)).unwrap_or(0)));
    Ok(Outcome { connect: second, reached_final_round: g.0, reply: g.1.clone(), honest: false, app_bytes_after: app_after, auth_info_received: auth_info, raw_bytes_after: raw_after, skipped: false })
}

/// Two certificates with the same issuer and serial number but different keys. A first connection (same thread) sees the
/// first one; the second connection is terminated by the other and answered with (key of the FIRST certificate)+1, sealed
/// and signed correctly: the proof a relaying attacker gets from the genuine server. The client must compare with the
/// certificate it sees now.
fn run_twin_case(conf: &Config, sub: u64, seed: u64) -> Result<Outcome, mon::PanicInfo> {
    let skipped = Outcome { connect: Ok(()), reached_final_round: false, reply: vec![], honest: false, app_bytes_after: 0, auth_info_received: false, raw_bytes_after: 0, skipped: true };
    if sub >= 4 {
        return Ok(skipped);
    }
    let (first_id, second_id) = if sub % 2 == 0 { (tls::TWIN_IDENTITIES[0], tls::TWIN_IDENTITIES[1]) } else { (tls::TWIN_IDENTITIES[1], tls::TWIN_IDENTITIES[0]) };
    let mk = |id: usize, which: u64| -> Duplex {
        let mut p = Profile::default();
        p.selected_protocol = 2;
        let d = Duplex::new(p);
        let mut nr = Rng::derive(seed, "C01-twin-nla", which, sub);
        let nla = crate::gen::nla_cfg(&mut nr, &conf.cfg);
        d.with(|s| {
            s.tls_identity = id;
            s.tls12_only = sub >= 2;
            s.nla_cfg = nla;
        });
        d
    };
    let d1 = mk(first_id, 1);
    let d2 = mk(second_id, 2);
    // the relaying attacker does not care what key the client's own token names
    d2.with(|s| s.lenient_pubkey = true);
    let first_key = tls::identity(first_id).subject_public_key.clone();
    let shared: Arc<Mutex<(bool, Vec<u8>)>> = Arc::new(Mutex::new((false, Vec::new())));
    let sh = shared.clone();
    d2.with(|s| {
        s.final_hook = Some(Box::new(move |ctx: &FinalCtx| {
            let b = ts(ctx.ts_version, seal_with(&ctx.session_key, &cssp::le_increment(&first_key)));
            let mut g = sh.lock().unwrap();
            g.0 = true;
            g.1 = b.clone();
            FinalAction::Send(b)
        }));
    });
    let cfg = conf.cfg.clone();
    let (p1, p2) = (d1.clone(), d2.clone());
    let res = mon::guarded(move || {
        let first = client::connect_real(&cfg, d1.clone()).map(|_| ()).map_err(|e| client::err_kind(&e));
        let second = client::connect_real(&cfg, d2.clone()).map(|_| ()).map_err(|e| client::err_kind(&e));
        (first, second)
    })?;
    let (first, second) = res;
    if first.is_err() || !p1.with(|s| s.nla_log.auth_info_received) {
        return Ok(Outcome { connect: first, reached_final_round: false, reply: vec![], honest: false, app_bytes_after: 0, auth_info_received: false, raw_bytes_after: 0, skipped: false });
    }
    let g = shared.lock().unwrap();
    let (app_after, auth_info, raw_after) = p2.with(|s| (s.plain_after_final_reply, s.nla_log.auth_info_received, s.raw_mark_final.map(|m| s.raw_post_tls.len().saturating_sub(m)).unwrap_or(0)));
    Ok(Outcome { connect: second, reached_final_round: g.0, reply: g.1.clone(), honest: false, app_bytes_after: app_after, auth_info_received: auth_info, raw_bytes_after: raw_after, skipped: false })
}

pub fn run_case(conf: &Config, class: usize, sub: u64, seed: u64) -> Result<Outcome, mon::PanicInfo> {
    if CLASSES[class] == "reused-authentication-context" {
        return run_reuse_case(conf, sub, seed);
    }
    if CLASSES[class] == "certificate-twin" {
        return run_twin_case(conf, sub, seed);
    }
    let mut p = Profile::default();
    p.selected_protocol = 2;
    let d = Duplex::new(p);
    let mut nr = Rng::derive(seed, "C01-nla", class as u64, sub);
    let mut nla = crate::gen::nla_cfg(&mut nr, &conf.cfg);
    let shared: Arc<Mutex<(bool, Vec<u8>, bool, usize, bool)>> = Arc::new(Mutex::new((false, Vec::new(), false, 0, false)));
    let sh = shared.clone();
    let mut hr = Rng::derive(seed, "C01-reply", class as u64, sub);
    let probe = d.clone();
    let blind = CLASSES[class] == "blind-attacker";
    if blind && sub >= BLIND_FLAGS.len() as u64 * BLIND_REPLIES {
        return Ok(Outcome { connect: Ok(()), reached_final_round: false, reply: vec![], honest: false, app_bytes_after: 0, auth_info_received: false, raw_bytes_after: 0, skipped: true });
    }
    if blind {
        nla.challenge_flags = BLIND_FLAGS[(sub / BLIND_REPLIES) as usize];
        let sh = shared.clone();
        let mut br = Rng::derive(seed, "C01-blind", class as u64, sub);
        d.with(|s| {
            s.blind_hook = Some(Box::new(move |ctx: &BlindCtx| {
                let b = blind_reply(ctx, sub % BLIND_REPLIES, &mut br);
                let mut g = sh.lock().unwrap();
                g.0 = true;
                g.1 = b.clone();
                g.2 = false;
                b
            }));
        });
    }
    d.with(|s| {
        s.tls_identity = conf.identity;
        s.tls12_only = conf.tls12_only;
        s.nla_cfg = nla;
        s.final_hook = Some(Box::new(move |ctx: &FinalCtx| {
            let mut g = sh.lock().unwrap();
            g.0 = true;
            match make_reply(ctx, class, sub, &mut hr) {
                None => {
                    g.4 = true; // out of range for this reply: send the honest one, case is skipped
                    FinalAction::Send(ctx.honest_reply.clone())
                }
                Some(a) => {
                    let bytes = match &a {
                        FinalAction::Send(b) => b.clone(),
                        FinalAction::SendSplit(parts) => parts.concat(),
                        FinalAction::Close => Vec::new(),
                    };
                    g.2 = honest(&bytes, &ctx.session_key, &ctx.honest_plain);
                    g.1 = bytes;
                    a
                }
            }
        }));
    });
    let cfg = conf.cfg.clone();
    let raw_before = Arc::new(Mutex::new(0usize));
    let _ = raw_before;
    let res = mon::guarded(move || client::connect_real(&cfg, d.clone()).map(|_| ()).map_err(|e| client::err_kind(&e)))?;
    let g = shared.lock().unwrap();
    let (app_after, auth_info, raw_after) = probe.with(|s| (s.plain_after_final_reply, s.nla_log.auth_info_received, s.raw_mark_final.map(|m| s.raw_post_tls.len().saturating_sub(m)).unwrap_or(0)));
    Ok(Outcome { connect: res, reached_final_round: g.0, reply: g.1.clone(), honest: g.2, app_bytes_after: app_after, auth_info_received: auth_info, raw_bytes_after: raw_after, skipped: g.4 })
}

pub fn check_case(ci: usize, class: usize, sub: u64, seed: u64, confs: &[Config], rep: &mut Report) -> bool {
    let conf = &confs[ci % confs.len()];
    let rp = json!({"config": ci, "class": CLASSES[class], "class_idx": class, "sub": sub, "seed": seed, "cfg": conf.cfg.to_json(), "identity": conf.identity});
    match run_case(conf, class, sub, seed) {
        Err(p) => {
            rep.eval();
            rep.violation(format!("C01/{}/{}", CLASSES[class], p.sig()), format!("{} at {}:{}", p.msg, p.file, p.line), rp);
            true
        }
        Ok(o) => {
            if o.skipped {
                return false;
            }
            rep.eval();
            if !o.reached_final_round {
                rep.selfcheck_fail(format!("the final CredSSP round was not reached for config {} ({:?})", ci, o.connect));
                return true;
            }
            rep.set("classes", CLASSES[class].to_string());
            if o.honest {
                rep.hist("honest-reply(don't-care)");
                rep.count("honest_replies_not_counted", 1);
                if CLASSES[class] == "honest-control" && sub == 1 && o.connect.is_err() {
                    rep.observe("honest-reply-split-over-two-TLS-records-is-rejected", || json!("the client reads each CredSSP message with a single read; a reply delivered in two records is refused (outside the conforming-server envelope assumed in C03)"));
                } else if CLASSES[class] == "honest-control" && (o.connect.is_err() || !o.auth_info_received) {
                    // the positive control: an honest proof must let the client proceed (this is C03's business; here it
                    // only guards the harness against a vacuous run)
                    rep.selfcheck_fail(format!("honest control reply was not accepted: {:?}", o.connect));
                }
                return true;
            }
            rep.nontrivial(fnv(&o.reply) ^ (ci as u64) << 48 ^ (class as u64) << 40);
            let leaked = o.app_bytes_after > 0 || o.auth_info_received;
            if o.connect.is_ok() || leaked {
                rep.hist("dishonest-reply-ACCEPTED");
                let what = if leaked { "credentials-sent-after-dishonest-reply" } else { "connect-succeeded-after-dishonest-reply" };
                rep.violation(
                    format!("C01/{}/{}", CLASSES[class], what),
                    format!("reply class {} variant {} ({} bytes, {}): connect returned {:?}, the server then received {} application bytes (authInfo seen: {})", CLASSES[class], sub, o.reply.len(), hex(&o.reply[..o.reply.len().min(24)]), o.connect, o.app_bytes_after, o.auth_info_received),
                    rp,
                );
            } else {
                rep.hist(&format!("rejected:{}", o.connect.as_ref().err().cloned().unwrap_or_default()));
                rep.hist(if o.raw_bytes_after == 0 { "rejected:link-silent-afterwards" } else { "rejected:raw-bytes-written-afterwards" });
                if o.raw_bytes_after > 0 {
                    // "writes nothing further on the link" is taken literally, at the raw transport below TLS
                    rep.violation(
                        format!("C01/{}/wrote-on-the-link-after-dishonest-reply", CLASSES[class]),
                        format!("reply class {} variant {}: connect failed ({:?}) but {} raw bytes were written on the link after the reply", CLASSES[class], sub, o.connect, o.raw_bytes_after),
                        rp.clone(),
                    );
                }
                rep.max("raw_bytes_written_after_a_rejected_reply", o.raw_bytes_after as f64);
            }
            if rep.want_sample() {
                let s = json!({"config": ci, "class": CLASSES[class], "sub": sub, "reply_len": o.reply.len(), "connect": format!("{:?}", o.connect)});
                rep.sample(|| s);
            }
            true
        }
    }
}

pub fn run(cfg: &Cfg) -> Report {
    crate::tls::prewarm(true);
    let mut total = Report::new();
    // thorough: every configuration against eight different servers (challenge, target info, CredSSP version)
    let passes: u64 = if cfg.quick() { 1 } else { 8 };
    for pass in 0..passes {
        total.merge(run_pass(cfg, cfg.seed.wrapping_add(pass.wrapping_mul(0x9E37_79B9))));
    }
    total.count("server_variations_per_configuration", passes);
    total
}

fn run_pass(cfg: &Cfg, seed: u64) -> Report {
    let confs = configs();
    let mut total = Report::new();
    let nconf = if cfg.quick() { 2 } else { confs.len() };
    // the configuration used by the quick tier rotates with the seed
    let first = (seed as usize) % (confs.len() - if cfg.quick() { tls::SPECIAL_IDENTITIES.len() } else { 0 });
    for k in 0..nconf {
        let mut ci = (first + k) % confs.len();
        if cfg.quick() && k == 1 {
            // a second configuration with another certificate key type
            ci = (0..confs.len()).map(|j| (first + 1 + j) % confs.len()).find(|j| confs[*j].identity != confs[first].identity && (confs[*j].identity == 0 || confs[first].identity == 0)).unwrap_or(ci);
        }
        for class in 0..CLASSES.len() {
            if !cfg.wants(class as u64) {
                continue;
            }
            // upper bound of variants; out-of-range ones are skipped inside
            let n: u64 = match CLASSES[class] {
                "bit-flip" => 700 * 8,
                "truncation" => 700,
                "two-bit-checksum" => 28 * 8,
                "length-variants" => 54,
                "blind-attacker" => BLIND_FLAGS.len() as u64 * BLIND_REPLIES,
                "reused-authentication-context" => REUSE_REPLIES,
                "malformed-then-honest" => 10,
                "certificate-twin" => 4,
                _ => 40,
            };
            let confs_ref = &confs;
            let rep = par_run(cfg, n, 8, |sub, rep| {
                mon::begin_case(1, (ci as u64) << 8 | class as u64, sub, seed);
                check_case(ci, class, sub, seed, confs_ref, rep);
            });
            total.merge(rep);
        }
        // all structured classes for two more configurations even in the quick tier
        if cfg.quick() {
            // ... and always the three certificates whose key has carry-prone low-order bytes
            let base = confs.len() - tls::SPECIAL_IDENTITIES.len();
            let mut extras: Vec<usize> = if k == 0 { vec![(first + 5) % base, (first + 10) % base] } else { (base..confs.len()).collect() };
            extras.retain(|c| *c != ci);
            for cj in extras {
                for class in 1..CLASSES.len() {
                    if CLASSES[class] == "truncation" {
                        continue;
                    }
                    let n = if CLASSES[class] == "two-bit-checksum" { 224 } else if CLASSES[class] == "blind-attacker" { BLIND_FLAGS.len() as u64 * BLIND_REPLIES } else { 54 };
                    let confs_ref = &confs;
                    let rep = par_run(cfg, n, 8, |sub, rep| {
                        mon::begin_case(1, (cj as u64) << 8 | class as u64, sub, seed);
                        check_case(cj, class, sub, seed, confs_ref, rep);
                    });
                    total.merge(rep);
                }
            }
        }
    }
    total.count("configurations", nconf as u64 + if cfg.quick() { 5 } else { 0 });
    total
}

pub fn replay(_cfg: &Cfg, v: &Value) -> Report {
    let mut rep = Report::new();
    mon::set_quiet(false);
    let confs = configs();
    if let Some(a) = v.get("death_case") {
        let a: Vec<u64> = a.as_array().unwrap().iter().map(|x| x.as_u64().unwrap()).collect();
        check_case((a[1] >> 8) as usize, (a[1] & 0xff) as usize, a[2], a[3], &confs, &mut rep);
        return rep;
    }
    check_case(v["config"].as_u64().unwrap_or(0) as usize, v["class_idx"].as_u64().unwrap_or(0) as usize, v["sub"].as_u64().unwrap_or(0), v["seed"].as_u64().unwrap_or(1), &confs, &mut rep);
    rep
}
