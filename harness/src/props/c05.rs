//! C05 — hostile server bytes during connection setup never crash the client.
//! Pure safety oracle: panic recorder, allocation monitor, CPU watchdog. Fault plans are applied to
//! the messages of a valid conversation produced by the reference server.

use crate::client::{self, ConnCfg};
use crate::fault::{self, Mutant};
use crate::mon;
use crate::refs::build::B;
use crate::refs::proto::{License, Profile};
use crate::report::Report;
use crate::rng::{fnv, hex, unhex, Rng};
use crate::server::{Duplex, Wrap};
use crate::transport::FragmentingReader;
use crate::{par_run, Cfg};
use rdp::core::{gcc, license, per, tpkt};
use rdp::model::link::{Link, Stream};
use serde_json::{json, Value};
use std::io::Cursor;
use std::sync::{Arc, Mutex};

#[derive(Clone)]
pub struct Template {
    pub kind: String,
    pub occ: usize,
    pub inner: B,
    pub frame: B,
}

pub fn profiles() -> Vec<Profile> {
    let p0 = Profile::default();
    let mut p1 = Profile::default();
    p1.core_optional = 0;
    p1.extra_blocks = vec![(0x0C04, vec![0xec, 0x03]), (0x0C08, vec![1, 0, 0, 0])];
    p1.block_order = vec![3, 0, 4, 2, 1];
    p1.license = License::NewLicense { flags: 0x03, body: vec![7; 20] };
    p1.user_id = 1001;
    let mut p2 = Profile::default();
    p2.version = 0x00080001;
    p2.license = License::ValidClient { flags: 0x83, blob_type: 4, blob: vec![1, 2, 3, 4, 5, 6] };
    p2.user_id = 65535;
    p2.net_channels = vec![1004, 1005, 1006];
    vec![p0, p1, p2]
}

/// panics met while recording the unfaulted connects (conforming server): (profile, panic)
pub static CLEAN_CONNECT_PANICS: Mutex<Vec<(String, mon::PanicInfo)>> = Mutex::new(Vec::new());

/// run a clean connect and capture every server message with its field map
pub fn record_templates(profile: &Profile, tls: bool) -> Vec<Template> {
    let mut p = profile.clone();
    p.selected_protocol = if tls { 1 } else { 0 };
    let d = Duplex::new(p);
    let inner: Arc<Mutex<Vec<(String, B)>>> = Arc::new(Mutex::new(Vec::new()));
    let frames: Arc<Mutex<Vec<(String, B)>>> = Arc::new(Mutex::new(Vec::new()));
    let (i2, f2) = (inner.clone(), frames.clone());
    d.with(|s| {
        s.tls_identity = 2;
        s.inner_hook = Some(Box::new(move |k, b| {
            i2.lock().unwrap().push((k.to_string(), b.clone()));
            None
        }));
        s.frame_hook = Some(Box::new(move |k, b| {
            f2.lock().unwrap().push((k.to_string(), b.clone()));
            None
        }));
    });
    let mut cfg = ConnCfg::default();
    cfg.nla = false;
    // the clean connect runs the code under test too: a panic here is recorded and reported by run()
    let d2 = d.clone();
    if let Err(p) = mon::guarded(move || if tls { client::connect_real(&cfg, d2.clone()).map(|_| ()) } else { client::connect_plain(&cfg, d2.clone()).map(|_| ()) }) {
        CLEAN_CONNECT_PANICS.lock().unwrap().push((format!("profile user_id={} version={:#x} core_optional={} tls={}", profile.user_id, profile.version, profile.core_optional, tls), p));
    }
    let inner = inner.lock().unwrap().clone();
    let frames = frames.lock().unwrap().clone();
    let mut out: Vec<Template> = Vec::new();
    for ((k, i), (_, f)) in inner.into_iter().zip(frames.into_iter()) {
        out.push(Template { kind: k, occ: 0, inner: i, frame: f });
    }
    // canonical order and occurrence numbers: messages of one kind are ordered by their bytes, not by the order in
    // which this particular process happened to ask for them
    let first: Vec<String> = out.iter().fold(Vec::new(), |mut v, t| {
        if !v.contains(&t.kind) {
            v.push(t.kind.clone());
        }
        v
    });
    out.sort_by(|a, b| first.iter().position(|k| *k == a.kind).cmp(&first.iter().position(|k| *k == b.kind)).then(a.inner.v.cmp(&b.inner.v)));
    for i in 0..out.len() {
        out[i].occ = out[..i].iter().filter(|t| t.kind == out[i].kind).count();
    }
    out
}

#[derive(Clone)]
pub struct Plan {
    /// hash of the unfaulted message (inner or frame bytes, by layer) the fault replaces: the client sends its channel
    /// joins in hash-map order, so "the n-th message of this kind" is not the same message in every process
    pub orig: u64,
    pub profile: usize,
    pub tls: bool,
    pub kind: String,
    pub occ: usize,
    pub layer: &'static str, // inner | frame
    pub mutant: Mutant,
}

impl Plan {
    pub fn to_json(&self) -> Value {
        json!({"orig": self.orig, "profile": self.profile, "tls": self.tls, "kind": self.kind, "occ": self.occ, "layer": self.layer, "class": self.mutant.class, "at": self.mutant.at, "bytes": hex(&self.mutant.bytes)})
    }
    pub fn from_json(v: &Value) -> Plan {
        Plan {
            orig: v["orig"].as_u64().unwrap_or(0),
            profile: v["profile"].as_u64().unwrap_or(0) as usize,
            tls: v["tls"].as_bool().unwrap_or(false),
            kind: v["kind"].as_str().unwrap_or("").to_string(),
            occ: v["occ"].as_u64().unwrap_or(0) as usize,
            layer: if v["layer"] == "frame" { "frame" } else if v["layer"] == "inner+close" { "inner+close" } else { "inner" },
            mutant: Mutant { class: v["class"].as_str().unwrap_or("").to_string(), bytes: unhex(v["bytes"].as_str().unwrap_or("")), at: v["at"].as_u64().unwrap_or(0) as usize },
        }
    }
}

/// install a fault plan on a server
pub fn install(d: &Duplex, plan: &Plan) {
    let kind = plan.kind.clone();
    let occ = plan.occ;
    let orig = plan.orig;
    let bytes = plan.mutant.bytes.clone();
    let mut seen = 0usize;
    let mut done = false;
    let hook = Box::new(move |k: &str, b: &B| {
        if k == kind && !done {
            // by content when the plan names the message it replaces, else by occurrence (old replay files)
            let hit = if orig != 0 { fnv(&b.v) == orig } else { seen == occ };
            seen += 1;
            if hit {
                done = true;
                return Some(bytes.clone());
            }
        }
        None
    });
    d.with(|s| {
        if plan.layer == "inner" || plan.layer == "inner+close" {
            s.inner_hook = Some(hook);
            s.close_after_fault = plan.layer == "inner+close";
        } else {
            s.frame_hook = Some(hook);
        }
    });
}

pub struct Observed {
    pub outcome: String,
    pub panic: Option<mon::PanicInfo>,
    pub alloc: mon::AllocStats,
    pub server_bytes: usize,
    pub consumed_fault: bool,
}

/// the allocation proportionality rule of DESIGN 2.3
pub fn alloc_violation(a: &mon::AllocStats, n: usize) -> Option<String> {
    if a.max_request > 256 * 1024 + 16 * n || a.peak_live as usize > 1024 * 1024 + 64 * n {
        return Some(format!("largest request {} bytes, peak {} bytes above baseline, while the server had made {} bytes available", a.max_request, a.peak_live, n));
    }
    None
}

pub fn run_plan(plan: &Plan, profs: &[Profile]) -> Observed {
    let mut p = profs[plan.profile % profs.len()].clone();
    p.selected_protocol = if plan.tls { 1 } else { 0 };
    let d = Duplex::new(p);
    d.with(|s| s.tls_identity = 2);
    install(&d, plan);
    let probe = d.clone();
    let tls = plan.tls;
    let mut cfg = ConnCfg::default();
    cfg.nla = false;
    let (res, alloc) = mon::observed(move || {
        let r = if tls { client::connect_real(&cfg, d.clone()) } else { client::connect_plain(&cfg, d.clone()) };
        match r {
            Ok(mut c) => {
                // the demand-active that follows the licence is part of what a faulted licence may shift
                let _ = c.read(|_| {});
                "Ok".to_string()
            }
            Err(e) => format!("Err({})", client::err_kind(&e)),
        }
    });
    let (server_bytes, consumed_fault) = probe.with(|s| {
        let hit = s.sent.iter().find(|x| x.faulted);
        let consumed = match hit {
            Some(x) => s.delivered > x.end - x.len,
            None => false,
        };
        (s.out_total, consumed)
    });
    match res {
        Ok(o) => Observed { outcome: o, panic: None, alloc, server_bytes, consumed_fault },
        Err(p) => Observed { outcome: "panic".into(), panic: Some(p), alloc, server_bytes, consumed_fault },
    }
}

pub fn judge(prop: &str, entry: &str, class: &str, o: &Observed, replay: Value, rep: &mut Report) {
    rep.eval();
    let replay_for_stack = replay.clone();
    rep.hist(&o.outcome);
    if let Some(p) = &o.panic {
        rep.violation(format!("{}/{}/{}", prop, entry, p.sig()), format!("fault {}: {} at {}:{}", class, p.msg, p.file, p.line), replay.clone());
    }
    if let Some(d) = alloc_violation(&o.alloc, o.server_bytes) {
        rep.violation(format!("{}/{}/alloc-out-of-proportion", prop, entry), format!("fault {}: {}", class, d), replay);
    }
    // stack: what the client keeps on the stack must not grow with the number of messages the server sends (a frame per
    // skipped PDU ends in a stack overflow, which aborts the process); measured at the transport calls
    if o.alloc.max_stack_depth > STACK_LIMIT {
        rep.violation(format!("{}/{}/stack-depth-grows-with-input", prop, entry), format!("fault {}: the stack was {} bytes deep at a transport call (limit {}), {} bytes had been made available by the server", class, o.alloc.max_stack_depth, STACK_LIMIT, o.server_bytes), replay_for_stack);
    }
    rep.max("largest_allocation_bytes", o.alloc.max_request as f64);
    rep.max("deepest_stack_at_transport_call_bytes", o.alloc.max_stack_depth as f64);
}

/// deepest stack allowed at a transport call inside one connect (the unchanged client stays below 9 KiB, TLS included)
pub const STACK_LIMIT: usize = 128 << 10;

fn all_plans(seed: u64, quick: bool, profs: &[Profile]) -> Vec<Plan> {
    let mut plans = Vec::new();
    for (pi, p) in profs.iter().enumerate() {
        for tls in [false, true].iter() {
            if *tls && pi != 0 {
                continue;
            }
            let temps = record_templates(p, *tls);
            for t in temps.iter() {
                if *tls && t.kind == "connection-confirm" {
                    continue; // negotiation faults on the TLS path belong to C02
                }
                let mut r = Rng::derive(seed, "C05-f", pi as u64, fnv(t.kind.as_bytes()) ^ t.occ as u64);
                let light = *tls || quick && pi != 0;
                for m in fault::single_faults(&t.inner, &mut r, light) {
                    if *tls && !m.class.starts_with("bound") && !m.class.starts_with("truncate") && !m.class.starts_with("remove") && r.chance(3, 4) {
                        continue;
                    }
                    if *tls && m.class.starts_with("truncate") {
                        // the same cut, after which the server ends the TLS session in an orderly way (close_notify)
                        plans.push(Plan { orig: fnv(&t.inner.v), profile: pi, tls: true, kind: t.kind.clone(), occ: t.occ, layer: "inner+close", mutant: m.clone() });
                    }
                    plans.push(Plan { orig: fnv(&t.inner.v), profile: pi, tls: *tls, kind: t.kind.clone(), occ: t.occ, layer: "inner", mutant: m });
                }
                if *tls {
                    // the whole message, then close_notify
                    plans.push(Plan { orig: fnv(&t.inner.v), profile: pi, tls: true, kind: t.kind.clone(), occ: t.occ, layer: "inner+close", mutant: Mutant { class: "valid-then-close-notify".into(), bytes: t.inner.v.clone(), at: t.inner.v.len() } });
                }
                if !*tls {
                    // blind pokes on the final frame: only the wrapping layers' own fields (TPKT, X.224, MCS, BER)
                    let mut wrap_only = B::new();
                    wrap_only.v = t.frame.v.clone();
                    wrap_only.fields = t.frame.fields.iter().filter(|f| !f.name.contains(".c.") && !f.name.contains(".d.") && !f.name.contains("gcc.") || f.name.contains("ber.")).cloned().collect();
                    for m in fault::single_faults(&wrap_only, &mut r, true) {
                        plans.push(Plan { orig: fnv(&t.frame.v), profile: pi, tls: false, kind: t.kind.clone(), occ: t.occ, layer: "frame", mutant: m });
                    }
                }
            }
        }
    }
    plans
}

/// floods: thousands of small well-formed PDUs that a client may skip or ignore, in front of each setup message
fn flood_plans(profs: &[Profile]) -> Vec<Plan> {
    use crate::refs::proto;
    let p = &profs[0];
    let mut plans = Vec::new();
    let temps = record_templates(p, false);
    let sec_pdu = |flags: u16, body: &[u8]| -> Vec<u8> {
        let mut b = B::new();
        b.u16le("sec.flags", flags).u16le("sec.flagsHi", 0).bytes("sec.body", body);
        proto::slow_path_frame(p, &b).v
    };
    let mut units: Vec<(String, Vec<u8>)> = Vec::new();
    for f in [0x4000u16, 0x1000, 0x2000, 0x0010, 0x0400, 0x0000, 0x8000].iter() {
        units.push((format!("sec-flags-{:#06x}", f), sec_pdu(*f, &[0u8; 4])));
    }
    units.push(("empty-x224-data".into(), proto::tpkt(&proto::x224_data(&B::new())).v));
    units.push(("fast-path-empty".into(), vec![0x00, 0x02]));
    units.push(("fast-path-pointer-hidden".into(), vec![0x00, 0x05, 0x05, 0x00, 0x00]));
    for t in temps.iter() {
        if t.kind == "connection-confirm" {
            continue;
        }
        for (name, unit) in units.iter() {
            let mut bytes = Vec::with_capacity(unit.len() * FLOOD + t.frame.v.len());
            for _ in 0..FLOOD {
                bytes.extend_from_slice(unit);
            }
            bytes.extend_from_slice(&t.frame.v);
            plans.push(Plan { orig: fnv(&t.frame.v), profile: 0, tls: false, kind: t.kind.clone(), occ: t.occ, layer: "frame", mutant: Mutant { class: format!("flood:{}x{}", FLOOD, name), bytes, at: 0 } });
        }
        // the message itself, many times over
        let mut bytes = Vec::new();
        for _ in 0..FLOOD / 4 {
            bytes.extend_from_slice(&t.frame.v);
        }
        plans.push(Plan { orig: fnv(&t.frame.v), profile: 0, tls: false, kind: t.kind.clone(), occ: t.occ, layer: "frame", mutant: Mutant { class: format!("flood:{}x-the-message-itself", FLOOD / 4), bytes, at: 0 } });
    }
    plans
}
const FLOOD: usize = 4000;

fn pair_plans(seed: u64, profs: &[Profile], n: u64) -> Vec<Plan> {
    let mut plans = Vec::new();
    let temps = record_templates(&profs[0], false);
    let mut r = Rng::derive(seed, "C05-pairs", 0, 0);
    let per = (n as usize / temps.len().max(1)).max(1);
    for t in temps.iter() {
        let sub = fault::boundary_subset(&t.inner);
        if sub.len() < 2 {
            continue;
        }
        let total = sub.len() * sub.len();
        for k in 0..per {
            // exhaustive when the pair space is small, sampled otherwise
            let (i, j) = if total <= per { (k / sub.len(), k % sub.len()) } else { (r.below(sub.len() as u64) as usize, r.below(sub.len() as u64) as usize) };
            if i >= sub.len() || i >= j {
                continue;
            }
            if let Some(m) = fault::pair_fault(&t.inner, &sub, i, j) {
                plans.push(Plan { orig: fnv(&t.inner.v), profile: 0, tls: false, kind: t.kind.clone(), occ: t.occ, layer: "inner", mutant: m });
            }
        }
    }
    plans
}

// ------------------------------------------------------------------------------------------ direct parser entries

pub const ENTRIES: [&str; 9] = ["tpkt.read", "x224.connect", "gcc.read_conference_create_response", "license.client_connect", "per.read_integer", "per.read_object_identifier", "per.read_octet_stream", "per.read_numeric_string", "per.read_integer_16"];

pub fn run_entry(entry: usize, data: &[u8]) -> (Result<String, mon::PanicInfo>, mon::AllocStats) {
    let d = data.to_vec();
    mon::observed(move || match ENTRIES[entry] {
        "tpkt.read" => {
            let mut t = tpkt::Client::new(Link::new(Stream::Raw(Cursor::new(d))));
            format!("{}", t.read().is_ok())
        }
        "x224.connect" => {
            let mut frame = vec![3, 0, 0, (d.len() + 4) as u8];
            frame.extend_from_slice(&d);
            let tr = FragmentingReader::new(frame, vec![]);
            let t = tpkt::Client::new(Link::new(Stream::Raw(tr)));
            format!("{}", rdp::core::x224::Client::connect(t, 0, false, None, false, false).is_ok())
        }
        "gcc.read_conference_create_response" => format!("{}", gcc::read_conference_create_response(&mut Cursor::new(d)).is_ok()),
        "license.client_connect" => format!("{}", license::client_connect(&mut Cursor::new(d)).is_ok()),
        "per.read_integer" => format!("{}", per::read_integer(&mut Cursor::new(d)).is_ok()),
        "per.read_object_identifier" => format!("{}", per::read_object_identifier(&[0, 0, 20, 124, 0, 1], &mut Cursor::new(d)).is_ok()),
        "per.read_octet_stream" => format!("{}", per::read_octet_stream(b"McDn", 4, &mut Cursor::new(d)).is_ok()),
        "per.read_numeric_string" => format!("{}", per::read_numeric_string(1, &mut Cursor::new(d)).is_ok()),
        _ => {
            let min = if d.is_empty() { 1001 } else { 1001u16.wrapping_add(d[0] as u16 * 251) };
            format!("{}", per::read_integer_16(min, &mut Cursor::new(d)).is_ok())
        }
    })
}

fn check_entry(entry: usize, data: &[u8], class: &str, rep: &mut Report) {
    rep.eval();
    let (res, alloc) = run_entry(entry, data);
    let rp = json!({"entry": ENTRIES[entry], "data": hex(data), "class": class});
    match res {
        Ok(o) => rep.hist(&format!("entry-{}", o)),
        Err(p) => {
            rep.hist("panic");
            rep.violation(format!("C05/{}/{}", ENTRIES[entry], p.sig()), format!("{} on input {}: {} at {}:{}", ENTRIES[entry], hex(&data[..data.len().min(32)]), p.msg, p.file, p.line), rp.clone());
        }
    }
    if let Some(d) = alloc_violation(&alloc, data.len()) {
        rep.violation(format!("C05/{}/alloc-out-of-proportion", ENTRIES[entry]), d, rp);
    }
}

fn hostile_variants() -> Vec<(String, Profile)> {
    let vals: [u32; 14] = [0, 1, 2, 0x7f, 0x80, 0xff, 0x100, 0x7fff, 0xffff, 0x10000, 0xffffff, 0x1000000, 0x7fffffff, 0xffffffff];
    let mut variants: Vec<(String, Profile)> = Vec::new();
    for i in 0..8 {
        for v in vals.iter() {
            let mut p = Profile::default();
            p.domain_params[i] = *v;
            variants.push((format!("domainParameters[{}]={:#x}", i, v), p));
        }
    }
    for v in vals.iter() {
        let mut p = Profile::default();
        p.connect_id = *v;
        variants.push((format!("calledConnectId={:#x}", v), p));
        let mut p = Profile::default();
        p.gcc_tag = *v;
        variants.push((format!("gccTag={:#x}", v), p));
        let mut p = Profile::default();
        p.version = *v;
        variants.push((format!("rdpVersion={:#x}", v), p));
        let mut p = Profile::default();
        p.early_caps = *v;
        variants.push((format!("earlyCapabilityFlags={:#x}", v), p));
        let mut p = Profile::default();
        p.share_id = *v;
        variants.push((format!("shareId={:#x}", v), p));
    }
    for u in [1001u16, 1002, 1003, 1004, 0x7fff, 0x8000, 0xffff, 2000].iter() {
        let mut p = Profile::default();
        p.user_id = *u;
        variants.push((format!("userId={}", u), p.clone()));
        p.io_channel = *u;
        variants.push((format!("userId=ioChannel={}", u), p));
        let mut p = Profile::default();
        p.node_id = *u;
        variants.push((format!("nodeId={}", u), p));
    }
    for n in [1usize, 2, 3, 7, 8, 31, 32, 255, 1000, 8000].iter() {
        let mut p = Profile::default();
        p.net_channels = (0..*n).map(|i| 1004 + (i % 60000) as u16).collect();
        variants.push((format!("channelCount={}", n), p));
    }
    // a channel id array that disagrees with its count: fewer complete ids than announced, half an id at the end
    for count in [0u16, 1, 2, 3, 0xffff].iter() {
        for nbytes in [0usize, 1, 2, 3, 5, 6].iter() {
            if *nbytes == *count as usize * 2 {
                continue;
            }
            let mut p = Profile::default();
            p.net_raw = Some((*count, (0..*nbytes).map(|i| 0xec + i as u8).collect()));
            variants.push((format!("scNet(channelCount,arrayBytes)={}/{}", count, nbytes), p));
        }
    }
    for n in [0usize, 1, 50, 200].iter() {
        let mut p = Profile::default();
        let one = p.caps[1].clone();
        p.caps = (0..*n).map(|_| one.clone()).collect();
        variants.push((format!("capabilitySets={}", n), p));
    }
    variants
}

fn run_variant(variants: &[(String, Profile)], idx: u64, rep: &mut Report) {
    let (name, prof) = &variants[(idx / 2) as usize];
    let tls = idx % 2 == 1;
    let plan = Plan { orig: 0, profile: 0, tls, kind: "none".into(), occ: 0, layer: "inner", mutant: Mutant { class: format!("value:{}", name), bytes: vec![], at: 0 } };
    let o = run_plan(&plan, std::slice::from_ref(prof));
    rep.nontrivial(fnv(name.as_bytes()) ^ idx);
    rep.set("hostile_values", name.split('=').next().unwrap_or("").to_string());
    judge("C05", &format!("value:{}", name.split('=').next().unwrap_or("")), &plan.mutant.class, &o, json!({"value_variant": name, "tls": tls}), rep);
}

fn report_clean_connect_panics(total: &mut Report) {
    let mut seen = std::collections::BTreeSet::new();
    for (prof, p) in CLEAN_CONNECT_PANICS.lock().unwrap().drain(..) {
        if seen.insert((prof.clone(), p.sig())) {
            total.eval();
            total.violation(format!("C05/clean-connect/{}", p.sig()), format!("a connect against the conforming reference server ({}) panicked: {} at {}:{}", prof, p.msg, p.file, p.line), json!({"clean_connect": prof}));
        }
    }
}

pub fn run(cfg: &Cfg) -> Report {
    crate::tls::prewarm(false);
    let seed = cfg.seed;
    let profs = profiles();
    let mut total = Report::new();
    // class 0: structured single faults on every message of the setup conversation
    if cfg.wants(0) {
        let plans = all_plans(seed, cfg.quick(), &profs);
        let n = plans.len() as u64;
        let rep = par_run(cfg, n, 16, |idx, rep| {
            mon::begin_case(5, 0, idx, seed);
            let plan = &plans[idx as usize];
            let o = run_plan(plan, &profs);
            let entry = format!("{}{}", plan.kind, if plan.tls { "(tls)" } else { "" });
            if o.consumed_fault {
                rep.nontrivial(fnv(&plan.mutant.bytes) ^ fnv(plan.kind.as_bytes()) ^ plan.occ as u64);
            }
            rep.set("fault_classes", plan.mutant.class.split(':').next().unwrap_or("").to_string());
            rep.set("messages_faulted", format!("{}#{}/{}", plan.kind, plan.occ, plan.layer));
            if rep.want_sample() && plan.mutant.bytes.len() < 60 {
                let j = plan.to_json();
                rep.sample(|| j);
            }
            judge("C05", &entry, &plan.mutant.class, &o, plan.to_json(), rep);
        });
        total.count("structured_single_faults", n);
        total.merge(rep);
    }
    // class 1: pairs of boundary faults
    if cfg.wants(1) {
        let plans = pair_plans(seed, &profs, cfg.n(20_000, 600_000));
        let n = plans.len() as u64;
        let rep = par_run(cfg, n, 16, |idx, rep| {
            mon::begin_case(5, 1, idx, seed);
            let plan = &plans[idx as usize];
            let o = run_plan(plan, &profs);
            if o.consumed_fault {
                rep.nontrivial(fnv(&plan.mutant.bytes) ^ 0x11);
            }
            judge("C05", &plan.kind, &plan.mutant.class, &o, plan.to_json(), rep);
        });
        total.count("fault_pairs", n);
        total.merge(rep);
    }
    // class 2: seeded random corruption and splices
    if cfg.wants(2) {
        let temps: Vec<Vec<Template>> = profs.iter().map(|p| record_templates(p, false)).collect();
        let n = cfg.n(100_000, 6_000_000);
        let rep = par_run(cfg, n, 64, |idx, rep| {
            mon::begin_case(5, 2, idx, seed);
            let mut r = Rng::derive(seed, "C05-rand", 2, idx);
            let pi = r.below(profs.len() as u64) as usize;
            let ts = &temps[pi];
            let t = &ts[r.below(ts.len() as u64) as usize];
            let o2 = &ts[r.below(ts.len() as u64) as usize];
            let layer = if r.chance(1, 3) { "frame" } else { "inner" };
            let m = if layer == "frame" { fault::random_fault(&t.frame, Some(&o2.frame), &mut r) } else { fault::random_fault(&t.inner, Some(&o2.inner), &mut r) };
            let plan = Plan { orig: fnv(if layer == "frame" { &t.frame.v } else { &t.inner.v }), profile: pi, tls: false, kind: t.kind.clone(), occ: t.occ, layer, mutant: m };
            let o = run_plan(&plan, &profs);
            if o.consumed_fault {
                rep.nontrivial(fnv(&plan.mutant.bytes) ^ idx);
            }
            judge("C05", &plan.kind, &plan.mutant.class, &o, plan.to_json(), rep);
        });
        total.count("random_corruptions", n);
        total.merge(rep);
    }
    // class 4: well-encoded but hostile *values*: every numeric parameter of the server's messages at boundary values,
    // re-encoded consistently (DER integers grow, lengths follow) - what blind pokes cannot produce
    if cfg.wants(4) {
        let variants = hostile_variants();
        let n = variants.len() as u64 * 2;
        let rep = par_run(cfg, n, 4, |idx, rep| {
            mon::begin_case(5, 4, idx, seed);
            run_variant(&variants, idx, rep);
        });
        total.count("hostile_value_variants", n);
        total.merge(rep);
    }
    // class 5: floods of small well-formed PDUs in front of each setup message (stack depth, allocation, termination)
    if cfg.wants(5) {
        let plans = flood_plans(&profs);
        let n = plans.len() as u64;
        let rep = par_run(cfg, n, 1, |idx, rep| {
            mon::begin_case(5, 5, idx, seed);
            let plan = &plans[idx as usize];
            let o = run_plan(plan, &profs);
            rep.nontrivial(fnv(plan.mutant.class.as_bytes()) ^ fnv(plan.kind.as_bytes()));
            rep.set("flood_units", plan.mutant.class.clone());
            // the replay regenerates the flood from its name: the bytes are too many to store
            judge("C05", &plan.kind, &plan.mutant.class, &o, json!({"flood": idx}), rep);
        });
        total.count("flood_plans", n);
        total.merge(rep);
    }
    // class 6: the negotiation as callers of x224::Client::connect may configure it - every offered mask (also masks that
    // hold protocols the stock Connector never offers) against every selected value, flags and reply kind (the cases of
    // C02's sweeps); only crashes are judged here
    if cfg.wants(6) {
        let n = cfg.n(16_384, 16_384 * 4);
        let rep = par_run(cfg, n, 64, |idx, rep| {
            mon::begin_case(5, 6, idx, seed);
            rep.eval();
            let c = crate::props::c02::make_case(1 + idx / 16_384 % 2 * 3, idx % 16_384, seed);
            if let Err(p) = crate::props::c02::run_case(&c) {
                rep.violation(format!("C05/x224-negotiation/{}", p.sig()), format!("{} at {}:{}", p.msg, p.file, p.line), json!({"x224_case": [1 + idx / 16_384 % 2 * 3, idx % 16_384, seed]}));
            }
            rep.nontrivial(idx ^ 0xC05_6);
        });
        total.count("x224_negotiation_cases", n);
        total.merge(rep);
    }
    // class 3: all short byte strings at each parser entry (length <= 3 quick; <= 4 at the three cheapest in thorough)
    if cfg.wants(3) {
        for (e, _) in ENTRIES.iter().enumerate() {
            let maxlen = if cfg.quick() { if e == 0 || e == 2 || e == 3 { 3 } else { 2 } } else if e >= 4 && e <= 6 { 4 } else { 3 };
            let n = fault::short_string_count(maxlen);
            let rep = par_run(cfg, n, 8192, |idx, rep| {
                mon::begin_case(5, 10 + e as u64, idx, seed);
                let s = fault::short_string(idx);
                check_entry(e, &s, "short-string", rep);
                if !s.is_empty() {
                    rep.nontrivial((e as u64) << 40 | idx);
                }
            });
            total.count(&format!("short_strings_{}_maxlen{}", ENTRIES[e], maxlen), n);
            total.merge(rep);
        }
        // faulted valid inputs at the direct entries
        let ccr = {
            let p = Profile::default();
            let blocks = crate::refs::proto::gcc_blocks(&p);
            crate::refs::proto::conference_create_response(&p, &blocks)
        };
        let lic = {
            let l = crate::refs::proto::license_pdu(&License::ValidClient { flags: 3, blob_type: 4, blob: vec![1, 2, 3] });
            let mut b = B::new();
            b.v = l.v[4..].to_vec();
            b.fields = l.fields.iter().filter(|f| f.off >= 4).map(|f| crate::refs::build::Field { name: f.name.clone(), off: f.off - 4, len: f.len }).collect();
            b
        };
        for (e, b) in [(2usize, ccr), (3usize, lic)].iter() {
            let mut r = Rng::derive(seed, "C05-direct", *e as u64, 0);
            let ms = fault::single_faults(b, &mut r, false);
            let n = ms.len() as u64;
            let rep = par_run(cfg, n, 64, |idx, rep| {
                mon::begin_case(5, 30 + *e as u64, idx, seed);
                let m = &ms[idx as usize];
                check_entry(*e, &m.bytes, &m.class, rep);
                rep.nontrivial(fnv(&m.bytes) ^ 0x33);
            });
            total.merge(rep);
        }
    }
    report_clean_connect_panics(&mut total);
    let _ = Wrap::Tpkt;
    total
}

pub fn replay(cfg: &Cfg, v: &Value) -> Report {
    let mut rep = Report::new();
    mon::set_quiet(false);
    if let Some(a) = v.get("x224_case").and_then(|a| a.as_array()) {
        let c = crate::props::c02::make_case(a[0].as_u64().unwrap_or(1), a[1].as_u64().unwrap_or(0), a[2].as_u64().unwrap_or(1));
        if let Err(p) = crate::props::c02::run_case(&c) {
            rep.violation(format!("C05/x224-negotiation/{}", p.sig()), format!("{} at {}:{}", p.msg, p.file, p.line), v.clone());
        }
        return rep;
    }
    let profs = profiles();
    if let Some(a) = v.get("death_case") {
        let a: Vec<u64> = a.as_array().unwrap().iter().map(|x| x.as_u64().unwrap()).collect();
        let (class, idx, seed) = (a[1], a[2], a[3]);
        match class {
            0 => {
                let plans = all_plans(seed, cfg.quick(), &profs);
                let plan = &plans[idx as usize];
                let o = run_plan(plan, &profs);
                judge("C05", &plan.kind, &plan.mutant.class, &o, plan.to_json(), &mut rep);
            }
            1 => {
                let plans = pair_plans(seed, &profs, cfg.n(20_000, 600_000));
                let plan = &plans[idx as usize];
                let o = run_plan(plan, &profs);
                judge("C05", &plan.kind, &plan.mutant.class, &o, plan.to_json(), &mut rep);
            }
            4 => run_variant(&hostile_variants(), idx, &mut rep),
            5 => {
                let plans = flood_plans(&profs);
                if let Some(plan) = plans.get(idx as usize) {
                    let o = run_plan(plan, &profs);
                    judge("C05", &plan.kind, &plan.mutant.class, &o, json!({"flood": idx}), &mut rep);
                }
            }
            c if c >= 10 && c < 30 => check_entry((c - 10) as usize, &fault::short_string(idx), "short-string", &mut rep),
            _ => {
                rep.eval();
                rep.inconclusive("death case of a class that cannot be regenerated individually");
            }
        }
        return rep;
    }
    if let Some(i) = v.get("flood").and_then(|x| x.as_u64()) {
        let plans = flood_plans(&profs);
        if let Some(plan) = plans.get(i as usize) {
            let o = run_plan(plan, &profs);
            judge("C05", &plan.kind, &plan.mutant.class, &o, json!({"flood": i}), &mut rep);
        } else {
            rep.eval();
            rep.inconclusive("flood index outside the regenerated plans");
        }
        return rep;
    }
    if v.get("clean_connect").is_some() {
        for p in profs.iter() {
            let _ = record_templates(p, false);
            let _ = record_templates(p, true);
        }
        rep.eval();
        report_clean_connect_panics(&mut rep);
        return rep;
    }
    if let Some(name) = v.get("value_variant").and_then(|x| x.as_str()) {
        let vs = hostile_variants();
        if let Some(i) = vs.iter().position(|(n, _)| n == name) {
            run_variant(&vs, i as u64 * 2 + v["tls"].as_bool().unwrap_or(false) as u64, &mut rep);
        } else {
            rep.eval();
            rep.inconclusive("unknown value variant in replay file");
        }
        return rep;
    }
    if let Some(e) = v.get("entry") {
        let idx = ENTRIES.iter().position(|x| Some(*x) == e.as_str()).unwrap_or(0);
        check_entry(idx, &unhex(v["data"].as_str().unwrap_or("")), "replay", &mut rep);
        return rep;
    }
    let plan = Plan::from_json(v);
    let o = run_plan(&plan, &profs);
    judge("C05", &plan.kind, &plan.mutant.class, &o, plan.to_json(), &mut rep);
    rep
}
