//! C16 — NTLM session security seals per MS-NLMP, round-trips, and rejects tampering.
//! Oracle: refs::ntlm::Direction advanced in lock-step with the client's context; every wrapped
//! message compared byte for byte, every peer message must unwrap, every tampered one must fail.

use crate::client;
use crate::mon;
use crate::refs::ntlm::{self, Account, Direction};
use crate::report::Report;
use crate::rng::{fnv, hex, Rng};
use crate::{par_run, Cfg};
use rdp::nla::ntlm::{NTLMv2SecurityInterface, Ntlm};
use rdp::nla::rc4::Rc4;
use rdp::nla::sspi::{AuthenticationProtocol, GenericSecurityService};
use serde_json::{json, Value};

#[derive(Clone, Debug)]
pub enum Op {
    /// the client seals a message of this length
    Wrap(usize),
    /// the peer seals a message of this length, the client unseals it
    Unwrap(usize),
}

pub struct Case {
    pub handshake: bool,
    pub key_seed: u64,
    pub ops: Vec<Op>,
    pub gen: [u64; 3],
}

fn plaintext(seed: u64, i: usize, n: usize) -> Vec<u8> {
    Rng::derive(seed, "C16-pt", i as u64, n as u64).bytes(n)
}

fn mirrored(session_key: &[u8; 16]) -> Box<dyn GenericSecurityService> {
    let (c_sign, c_seal, s_sign, s_seal) = ntlm::session_keys(session_key);
    Box::new(NTLMv2SecurityInterface::new(Rc4::new(&c_seal), Rc4::new(&s_seal), c_sign.to_vec(), s_sign.to_vec()))
}

/// obtain the client's context through a real NTLM handshake; the reference recovers the session key from the token
fn via_handshake(seed: u64, rounds: usize) -> Result<(Box<dyn GenericSecurityService>, [u8; 16]), String> {
    let mut r = Rng::derive(seed, "C16-hs", 0, 0);
    let (d, u, p) = (client::ascii_name(&mut r, 8), client::ascii_name(&mut r, 8), client::ascii_name(&mut r, 12));
    let account = Account { domain: d.clone(), user: u.clone(), nt_hash: ntlm::nt_hash(&p) };
    let mut n = Ntlm::new(d, u, p);
    // the application may authenticate several times with one context (reconnection): the security interface built
    // after the last handshake must be keyed by the last session
    let mut last = None;
    for _ in 0..rounds.max(1) {
        let mut sc = [0u8; 8];
        sc.copy_from_slice(&r.bytes(8));
        let ti = ntlm::av_pairs(&[(2, r.bytes(8)), (7, r.bytes(8))]);
        let chal = ntlm::build_challenge(0xE28A8235, &sc, b"", &ti);
        let neg = n.create_negotiate_message().map_err(|e| client::err_kind(&e))?;
        let auth = n.read_challenge_message(&chal).map_err(|e| client::err_kind(&e))?;
        let a = ntlm::verify_authenticate(&neg, &chal, &auth, &sc, 0xE28A8235, &ti, &account)?;
        last = Some((n.build_security_interface(), a.exported_session_key));
    }
    last.ok_or_else(|| "no handshake".to_string())
}

pub fn make_case(class: u64, idx: u64, seed: u64) -> Case {
    let mut r = Rng::derive(seed, "C16", class, idx);
    let n = r.range(1, 12) as usize;
    let mut ops = Vec::new();
    let must = [0usize, 1, 255, 256];
    for i in 0..n {
        let len = if i < 4 && r.chance(1, 2) { must[i] } else { match r.below(4) { 0 => r.range(0, 8) as usize, 1 => r.range(0, 64) as usize, _ => r.range(0, 300) as usize } };
        ops.push(if r.chance(1, 2) { Op::Wrap(len) } else { Op::Unwrap(len) });
    }
    if class == 2 {
        // messages around and beyond 64 KiB: a sealed message has no 16-bit framing of its own
        ops.clear();
        let big = [65519usize, 65520, 65534, 65535, 65536, 65537, 70000, 131072, 200001];
        for _ in 0..r.range(1, 3) {
            let len = *r.pick(&big);
            ops.push(if r.chance(1, 3) { Op::Wrap(len) } else { Op::Unwrap(len) });
        }
        if r.chance(1, 2) {
            ops.push(Op::Unwrap(r.range(0, 40) as usize));
        }
    }
    if class == 3 {
        // message lengths walking across the sizes an implementation might buffer by: powers of two from 512 to 32 KiB,
        // sixteen bytes (one signature) either side of each
        ops.clear();
        let p = 512usize << (idx % 7);
        let base = p - 17 + (idx / 7 % 3) as usize * 12;
        for k in 0..12 {
            let len = base + k;
            ops.push(if (idx / 21 + k as u64) % 4 == 0 { Op::Unwrap(len) } else { Op::Wrap(len) });
        }
    }
    Case { handshake: class == 1, key_seed: r.next(), ops, gen: [class, idx, seed] }
}

fn tampers(m: &[u8], r: &mut Rng, exhaustive_bits: bool) -> Vec<(String, Vec<u8>)> {
    let mut out: Vec<(String, Vec<u8>)> = Vec::new();
    let nbits = m.len() * 8;
    if exhaustive_bits {
        for b in 0..nbits {
            let mut t = m.to_vec();
            t[b / 8] ^= 1 << (b % 8);
            let region = match b / 8 {
                0..=3 => "version",
                4..=11 => "checksum",
                12..=15 => "seqnum",
                _ => "ciphertext",
            };
            out.push((format!("bitflip-{}", region), t));
        }
    } else {
        for _ in 0..64 {
            let b = r.below(nbits as u64) as usize;
            let mut t = m.to_vec();
            t[b / 8] ^= 1 << (b % 8);
            out.push(("bitflip-sampled".into(), t));
        }
    }
    // the same bit in two different checksum bytes; permutations of checksum bytes
    for a in 4..12 {
        for b in (a + 1)..12 {
            for bit in 0..8 {
                let mut t = m.to_vec();
                t[a] ^= 1 << bit;
                t[b] ^= 1 << bit;
                out.push(("two-bit-checksum".into(), t));
            }
            if m[a] != m[b] {
                let mut t = m.to_vec();
                t.swap(a, b);
                out.push(("checksum-bytes-swapped".into(), t));
            }
        }
    }
    // every truncation point of short messages; for long ones the first 32, the last 4, around 64 KiB and a sample
    let cuts: Vec<usize> = if m.len() <= 600 {
        (0..m.len()).collect()
    } else {
        let mut v: Vec<usize> = (0..32).collect();
        v.extend((1..=4).map(|d| m.len() - d));
        v.extend([0xFFFEusize, 0xFFFF, 0x10000, 0x1000F, 0x10010, 0x10011].iter().filter(|k| **k < m.len()).cloned());
        v.extend((0..24).map(|_| r.below(m.len() as u64) as usize));
        v
    };
    for k in cuts {
        out.push((if k < 16 { "truncated-in-signature".into() } else { "truncated-in-ciphertext".into() }, m[..k].to_vec()));
    }
    for k in 1..=16 {
        let mut t = m.to_vec();
        t.extend_from_slice(&r.bytes(k));
        out.push(("extended".into(), t));
    }
    for v in [0u32, 2, 0xffffffff].iter() {
        let mut t = m.to_vec();
        t[0..4].copy_from_slice(&v.to_le_bytes());
        out.push(("version-substituted".into(), t));
    }
    // header fields blanked or filled (the "dummy signature" of a peer that signs nothing), alone and with the
    // ciphertext altered as well
    for fill in [0u8, 0xff].iter() {
        let mut t = m.to_vec();
        for x in t[4..12].iter_mut() {
            *x = *fill;
        }
        out.push(("checksum-blanked".into(), t.clone()));
        for x in t[12..16].iter_mut() {
            *x = *fill;
        }
        out.push(("checksum-and-seqnum-blanked".into(), t.clone()));
        if t.len() > 16 {
            let k = 16 + r.below(t.len() as u64 - 16) as usize;
            t[k] ^= 1 << r.below(8);
            out.push(("header-blanked-and-ciphertext-altered".into(), t));
        }
    }
    let seq = u32::from_le_bytes([m[12], m[13], m[14], m[15]]);
    for v in [seq.wrapping_add(1), seq.wrapping_sub(1), 0xffffffff, seq ^ 0x100].iter() {
        if *v != seq {
            let mut t = m.to_vec();
            t[12..16].copy_from_slice(&v.to_le_bytes());
            out.push(("seqnum-substituted".into(), t));
        }
    }
    out
}

pub fn check_case(c: &Case, rep: &mut Report) {
    rep.eval();
    let desc = json!({"gen": c.gen, "handshake": c.handshake, "ops": format!("{:?}", c.ops)});
    let mut key = [0u8; 16];
    key.copy_from_slice(&Rng::new(c.key_seed).bytes(16));
    let built = mon::guarded(|| if c.handshake { via_handshake(c.key_seed, 1 + (c.gen[1] % 3) as usize) } else { Ok((mirrored(&key), key)) });
    let (mut ctx, session_key) = match built {
        Ok(Ok(x)) => x,
        Ok(Err(e)) => {
            rep.selfcheck_fail(format!("could not obtain a security context: {}", e));
            return;
        }
        Err(p) => {
            rep.violation(format!("C16/setup/{}", p.sig()), p.msg.clone(), desc);
            return;
        }
    };
    let mut c2s = Direction::new(&session_key, true);
    let mut s2c = Direction::new(&session_key, false);
    let mut viol: Vec<(String, String)> = Vec::new();
    let mut r = Rng::derive(c.key_seed, "C16-t", 0, 0);
    for (i, op) in c.ops.iter().enumerate() {
        match op {
            Op::Wrap(n) => {
                let pt = plaintext(c.key_seed, i, *n);
                let want = c2s.wrap(&pt);
                match mon::guarded(|| ctx.gss_wrapex(&pt).map_err(|e| client::err_kind(&e))) {
                    Err(p) => {
                        viol.push((format!("C16/wrap/{}", p.sig()), format!("op {}: {}", i, p.msg)));
                        break;
                    }
                    Ok(Err(e)) => {
                        viol.push((format!("C16/wrap/error:{}", e), format!("op {} (len {}): gss_wrapex returned {}", i, n, e)));
                        break;
                    }
                    Ok(Ok(got)) => {
                        if got != want {
                            let d = got.iter().zip(want.iter()).position(|(a, b)| a != b);
                            let region = match d {
                                Some(0..=3) => "version",
                                Some(4..=11) => "checksum",
                                Some(12..=15) => "seqnum",
                                Some(_) => "ciphertext",
                                None => "length",
                            };
                            viol.push((format!("C16/wrap/differs-from-MS-NLMP:{}", region), format!("op {} of {:?}: sealed message of {} bytes differs from the reference at {:?} (got {}.. expected {}..)", i, c.ops, n, d, hex(&got[..got.len().min(20)]), hex(&want[..want.len().min(20)]))));
                            break;
                        }
                        rep.hist("wrap-identical");
                    }
                }
            }
            Op::Unwrap(n) => {
                let pt = plaintext(c.key_seed, i, *n);
                let sealed = s2c.wrap(&pt);
                // tampering, each variant on a fresh context replayed to this point (mirrored-key contexts only);
                // a context obtained from a handshake cannot be cloned, so it gets one tamper at the end of its history
                if !c.handshake {
                    let ts = tampers(&sealed, &mut r, *n <= 64);
                    for (name, t) in ts {
                        let mut fresh = mirrored(&session_key);
                        let mut f_c2s = Direction::new(&session_key, true);
                        let mut f_s2c = Direction::new(&session_key, false);
                        let mut ok = true;
                        for (j, prev) in c.ops.iter().enumerate().take(i) {
                            match prev {
                                Op::Wrap(m) => {
                                    let _ = f_c2s.wrap(&plaintext(c.key_seed, j, *m));
                                    ok &= fresh.gss_wrapex(&plaintext(c.key_seed, j, *m)).is_ok();
                                }
                                Op::Unwrap(m) => {
                                    let s = f_s2c.wrap(&plaintext(c.key_seed, j, *m));
                                    ok &= fresh.gss_unwrapex(&s).is_ok();
                                }
                            }
                        }
                        if !ok {
                            continue;
                        }
                        rep.count("tampered_messages_tried", 1);
                        match mon::guarded(|| fresh.gss_unwrapex(&t).map_err(|e| client::err_kind(&e))) {
                            Err(p) => viol.push((format!("C16/tamper/{}/{}", name, p.sig()), format!("op {}: {}", i, p.msg))),
                            Ok(Ok(p)) => viol.push((format!("C16/tamper/{}/accepted", name), format!("op {} of {:?}: an altered sealed message ({} bytes, plaintext {} bytes) was accepted and yielded {} bytes", i, c.ops, t.len(), n, p.len()))),
                            Ok(Err(_)) => {
                                rep.hist("tamper-rejected");
                                // a refusal must leave nothing behind that makes the same forgery pass the next time
                                match mon::guarded(|| fresh.gss_unwrapex(&t).map_err(|e| client::err_kind(&e))) {
                                    Err(p) => viol.push((format!("C16/tamper/{}/second-presentation/{}", name, p.sig()), format!("op {}: {}", i, p.msg))),
                                    Ok(Ok(p)) => viol.push((format!("C16/tamper/{}/accepted-on-second-presentation", name), format!("op {} of {:?}: an altered sealed message ({} bytes) was refused once and accepted when presented again ({} bytes of plaintext)", i, c.ops, t.len(), p.len()))),
                                    Ok(Err(_)) => rep.hist("tamper-rejected-again"),
                                }
                                // the sending direction has its own keys, cipher state and sequence number: whatever was refused
                                // on the way in, a message the context still seals is sealed as MS-NLMP says (a context that
                                // refuses to seal from then on is not judged)
                                let probe_pt = plaintext(c.key_seed, 7000 + i, 5);
                                let want = f_c2s.wrap(&probe_pt);
                                match mon::guarded(|| fresh.gss_wrapex(&probe_pt).map_err(|e| client::err_kind(&e))) {
                                    Err(p) => viol.push((format!("C16/wrap-after-refused/{}/{}", name, p.sig()), format!("op {}: {}", i, p.msg))),
                                    Ok(Ok(got)) if got != want => {
                                        let d = got.iter().zip(want.iter()).position(|(a, b)| a != b);
                                        viol.push((format!("C16/wrap-after-refused/{}/differs-from-MS-NLMP", name), format!("op {} of {:?}: after an altered message had been refused, the next message the context sealed differs from the reference at {:?}", i, c.ops, d)));
                                    }
                                    Ok(Ok(_)) => rep.hist("sealed-exactly-after-a-refusal"),
                                    Ok(Err(_)) => rep.hist("refused-to-seal-after-a-refusal(not judged)"),
                                }
                            }
                        }
                        // the other order, for one alteration in four: the genuine message is accepted first, then its altered
                        // copy arrives (same signature header unless that is what was altered); it must be refused too
                        if r.chance(1, 4) && viol.is_empty() {
                            let mut again = mirrored(&session_key);
                            let mut a_c2s = Direction::new(&session_key, true);
                            let mut a_s2c = Direction::new(&session_key, false);
                            let mut ok = true;
                            for (j, prev) in c.ops.iter().enumerate().take(i) {
                                match prev {
                                    Op::Wrap(m) => {
                                        let _ = a_c2s.wrap(&plaintext(c.key_seed, j, *m));
                                        ok &= again.gss_wrapex(&plaintext(c.key_seed, j, *m)).is_ok();
                                    }
                                    Op::Unwrap(m) => {
                                        let s = a_s2c.wrap(&plaintext(c.key_seed, j, *m));
                                        ok &= again.gss_unwrapex(&s).is_ok();
                                    }
                                }
                            }
                            ok &= again.gss_unwrapex(&sealed).is_ok();
                            if ok {
                                rep.count("altered_copies_after_the_genuine_message", 1);
                                match mon::guarded(|| again.gss_unwrapex(&t).map_err(|e| client::err_kind(&e))) {
                                    Err(p) => viol.push((format!("C16/tamper/{}/after-genuine/{}", name, p.sig()), format!("op {}: {}", i, p.msg))),
                                    Ok(Ok(p)) => viol.push((format!("C16/tamper/{}/accepted-after-the-genuine-message", name), format!("op {} of {:?}: once the genuine message had been accepted, its altered copy ({} bytes) was accepted too and yielded {} bytes", i, c.ops, t.len(), p.len()))),
                                    Ok(Err(_)) => rep.hist("altered-copy-rejected-after-genuine"),
                                }
                            }
                        }
                        if viol.len() > 8 {
                            break;
                        }
                    }
                }
                match mon::guarded(|| ctx.gss_unwrapex(&sealed).map_err(|e| client::err_kind(&e))) {
                    Err(p) => {
                        viol.push((format!("C16/unwrap/{}", p.sig()), format!("op {}: {}", i, p.msg)));
                        break;
                    }
                    Ok(Err(e)) => {
                        viol.push((format!("C16/unwrap/genuine-message-rejected:{}", e), format!("op {} of {:?}: a message of {} bytes sealed by a conforming peer was rejected ({})", i, c.ops, n, e)));
                        break;
                    }
                    Ok(Ok(got)) => {
                        if got != pt {
                            viol.push(("C16/unwrap/wrong-plaintext".into(), format!("op {}: unsealed {} bytes differ from the plaintext", i, n)));
                            break;
                        }
                        rep.hist("unwrap-exact");
                    }
                }
            }
        }
        if viol.len() > 8 {
            break;
        }
    }
    if c.handshake && viol.is_empty() && c.gen[1] % 2 == 1 {
        // the context obtained from the handshake: a genuine message is accepted, then an altered copy of it arrives
        let pt = plaintext(c.key_seed, 998, 24);
        let sealed = s2c.wrap(&pt);
        let ts = tampers(&sealed, &mut r, false);
        let (name, t) = &ts[r.below(ts.len() as u64) as usize];
        if matches!(mon::guarded(|| ctx.gss_unwrapex(&sealed).map_err(|e| client::err_kind(&e))), Ok(Ok(_))) {
            rep.count("altered_copies_after_the_genuine_message", 1);
            match mon::guarded(|| ctx.gss_unwrapex(t).map_err(|e| client::err_kind(&e))) {
                Ok(Ok(_)) => viol.push((format!("C16/tamper/{}/accepted-after-the-genuine-message", name), "the context obtained from the handshake accepted the altered copy of a message it had just accepted".into())),
                Err(p) => viol.push((format!("C16/tamper/{}/after-genuine/{}", name, p.sig()), p.msg.clone())),
                Ok(Err(_)) => rep.hist("altered-copy-rejected-after-genuine"),
            }
        }
    } else if c.handshake && viol.is_empty() {
        // one tamper at the end of the history
        let pt = plaintext(c.key_seed, 999, 24);
        let sealed = s2c.wrap(&pt);
        let ts = tampers(&sealed, &mut r, false);
        let (name, t) = &ts[r.below(ts.len() as u64) as usize];
        rep.count("tampered_messages_tried", 1);
        match mon::guarded(|| ctx.gss_unwrapex(t).map_err(|e| client::err_kind(&e))) {
            Ok(Ok(_)) => viol.push((format!("C16/tamper/{}/accepted", name), "an altered sealed message was accepted by the context obtained from the handshake".into())),
            Err(p) => viol.push((format!("C16/tamper/{}/{}", name, p.sig()), p.msg.clone())),
            Ok(Err(_)) => rep.hist("tamper-rejected"),
        }
    }
    rep.nontrivial(fnv(desc.to_string().as_bytes()));
    if rep.want_sample() {
        let d = desc.clone();
        rep.sample(|| d);
    }
    for (sig, detail) in viol {
        rep.violation(sig, detail, desc.clone());
    }
}

pub fn run(cfg: &Cfg) -> Report {
    let seed = cfg.seed;
    let mut total = Report::new();
    // reference self-check: c2s/s2c round trip and tamper rejection in the reference itself
    {
        let k = [7u8; 16];
        let mut a = Direction::new(&k, true);
        let mut b = Direction::new(&k, true);
        for n in [0usize, 1, 17, 300].iter() {
            let pt = plaintext(1, *n, *n);
            let s = a.wrap(&pt);
            match b.unwrap(&s) {
                Ok(p) if p == pt => {}
                _ => total.selfcheck_fail("reference seal/unseal round trip".into()),
            }
        }
    }
    let plan: Vec<(u64, u64)> = vec![(0, cfg.n(600, 20_000)), (1, cfg.n(4_000, 200_000)), (2, cfg.n(60, 3_000)), (3, cfg.n(42, 2_100))];
    for (class, n) in plan {
        if !cfg.wants(class) {
            continue;
        }
        let rep = par_run(cfg, n, 4, |idx, rep| {
            mon::begin_case(16, class, idx, seed);
            let c = make_case(class, idx, seed);
            check_case(&c, rep);
        });
        total.count(&format!("cases_class_{}", class), n);
        total.merge(rep);
    }
    total
}

pub fn replay(_cfg: &Cfg, v: &Value) -> Report {
    let mut rep = Report::new();
    mon::set_quiet(false);
    let g: Vec<u64> = if let Some(a) = v.get("death_case") {
        let a: Vec<u64> = a.as_array().unwrap().iter().map(|x| x.as_u64().unwrap()).collect();
        vec![a[1], a[2], a[3]]
    } else {
        v["gen"].as_array().unwrap().iter().map(|x| x.as_u64().unwrap()).collect()
    };
    let c = make_case(g[0], g[1], g[2]);
    check_case(&c, &mut rep);
    rep
}
