//! C08 — bitmap decompression is total and returns exactly w*h*4 bytes.
//! Oracle: panic monitor + allocation monitor + CPU watchdog + the length equation.

use crate::mon;
use crate::refs::rle as refrle;
use crate::report::Report;
use crate::rng::{fnv, hex, unhex, Rng};
use crate::{par_run, Cfg};
use rdp::core::event::BitmapEvent;
use serde_json::{json, Value};

#[derive(Clone)]
pub struct Case {
    pub class: &'static str,
    pub w: u16,
    pub h: u16,
    pub bpp: u16,
    pub compress: bool,
    pub data: Vec<u8>,
    /// generator triple (class, index, seed) when the case was generated: replays regenerate long data from it
    pub gen: Option<[u64; 3]>,
}

impl Case {
    pub fn to_json(&self) -> Value {
        json!({"class": self.class, "w": self.w, "h": self.h, "bpp": self.bpp, "compress": self.compress, "gen": self.gen.map(|g| g.to_vec()),
               "data_len": self.data.len(), "data": hex(&self.data[..self.data.len().min(4096)])})
    }
    fn hash(&self) -> u64 {
        let mut v = vec![self.w as u8, (self.w >> 8) as u8, self.h as u8, (self.h >> 8) as u8, self.bpp as u8, (self.bpp >> 8) as u8, self.compress as u8];
        v.extend_from_slice(&self.data);
        fnv(&v)
    }
}

/// what decompress may allocate beyond four times its output (error values, small temporaries)
const ALLOC_SLACK: usize = 4096;

/// Evaluate one case against the real decompressor under all monitors.
pub fn check_case(c: &Case, rep: &mut Report) {
    rep.eval();
    // the destination rectangle travels in the same event, unvalidated from the wire; what the picture decodes to has
    // nothing to do with it: matching, inverted, extreme or arbitrary rectangles (derived from the case's content)
    let hsh = c.hash();
    let (dl, dt, dr, db): (u16, u16, u16, u16) = match hsh % 5 {
        0 | 1 => (0, 0, c.w.wrapping_sub(1), c.h.wrapping_sub(1)),
        2 => (1 + (hsh >> 8) as u16 % 9, 1 + (hsh >> 16) as u16 % 9, 0, 0),
        3 => (65535, 0, 0, 65535),
        _ => ((hsh >> 8) as u16, (hsh >> 24) as u16, (hsh >> 40) as u16, (hsh >> 48) as u16),
    };
    rep.hist(["rect-matching", "rect-matching", "rect-inverted", "rect-extreme", "rect-arbitrary"][(hsh % 5) as usize]);
    let ev = BitmapEvent {
        dest_left: dl,
        dest_top: dt,
        dest_right: dr,
        dest_bottom: db,
        width: c.w,
        height: c.h,
        bpp: c.bpp,
        is_compress: c.compress,
        data: c.data.clone(),
    };
    let expect = c.w as usize * c.h as usize * 4;
    let (res, alloc) = mon::observed(move || ev.decompress());
    let mode = format!("bpp{}/{}", c.bpp, if c.compress { "rle" } else { "raw" });
    let mut viol: Option<(String, String)> = None;
    match res {
        Err(p) => {
            rep.hist("panic");
            viol = Some((format!("C08/decompress/{}/{}", mode, p.sig()), format!("{} at {}:{}", p.msg, p.file, p.line)));
        }
        Ok(Ok(v)) => {
            rep.hist("ok");
            if v.len() != expect {
                viol = Some((format!("C08/decompress/{}/wrong-length", mode), format!("returned {} bytes for {}x{} (expected {})", v.len(), c.w, c.h, expect)));
            }
        }
        Ok(Err(_)) => {
            rep.hist("err");
        }
    }
    // allocation proportionality: no more than 4x the output size + a small constant; the input belongs to the event and
    // decompress has no reason to allocate in proportion to it
    let bound = 4 * expect + ALLOC_SLACK;
    if alloc.max_request > bound || alloc.peak_live as usize > bound + expect {
        if viol.is_none() {
            viol = Some((format!("C08/decompress/{}/alloc-out-of-proportion", mode), format!("max request {} peak {} for output size {}", alloc.max_request, alloc.peak_live, expect)));
        }
    }
    if expect > 0 {
        rep.max("alloc_max_request_over_output", alloc.max_request as f64 / expect as f64);
    }
    if expect > 0 && !c.data.is_empty() && (c.bpp == 16 || c.bpp == 32) {
        rep.nontrivial(c.hash());
    }
    rep.set("classes", c.class.to_string());
    if rep.want_sample() && c.data.len() > 2 && c.data.len() < 200 {
        let cj = c.to_json();
        rep.sample(|| cj);
    }
    if let Some((sig, detail)) = viol {
        rep.violation(sig, detail, c.to_json());
    }
}

const SMALL_GEOM: [u16; 8] = [0, 1, 2, 3, 4, 5, 8, 9];
pub const GEOM: [u16; 23] = [0, 1, 2, 3, 4, 7, 8, 9, 15, 16, 17, 31, 32, 33, 63, 64, 65, 127, 128, 181, 182, 200, 256];
const BPPS: [u16; 9] = [0, 1, 8, 15, 16, 24, 32, 33, 65535];

fn short_string(mut k: u64) -> Vec<u8> {
    // 0 -> "", 1..=256 -> 1 byte, 257..=65792 -> 2 bytes, then 3 bytes
    if k == 0 {
        return vec![];
    }
    k -= 1;
    if k < 256 {
        return vec![k as u8];
    }
    k -= 256;
    if k < 65536 {
        return vec![(k >> 8) as u8, k as u8];
    }
    k -= 65536;
    vec![(k >> 16) as u8, (k >> 8) as u8, k as u8]
}
const N_LE2: u64 = 1 + 256 + 65536;
const N_LE3: u64 = N_LE2 + (1 << 24);

/// hostile interleaved-RLE stream: well-formed orders with lengths placed at line/buffer edges,
/// every opcode byte, truncated operands
pub fn hostile_rle16(r: &mut Rng, w: usize, h: usize) -> Vec<u8> {
    let total = (w * h) as i64;
    let mut out = Vec::new();
    let mut remaining = total + r.range(0, 4) as i64 - 2;
    let mut x = 0i64;
    let norders = r.range(1, 40);
    for _ in 0..norders {
        // pick order byte: any value with bias to defined ones
        let code: u8 = match r.below(10) {
            0 => r.u8(),
            1 => *r.pick(&[0xF0, 0xF1, 0xF2, 0xF3, 0xF4, 0xF6, 0xF7, 0xF8]),
            2 => *r.pick(&[0xF9, 0xFA, 0xFD, 0xFE, 0xF5, 0xFB, 0xFC, 0xFF]),
            3 => *r.pick(&[0xC0, 0xD0, 0xE0, 0x00, 0x20, 0x40, 0x60, 0x80, 0xA0]),
            4 => (*r.pick(&[0xC0u8, 0xD0, 0xE0])) | (r.u8() & 0x0f),
            _ => (*r.pick(&[0x00u8, 0x20, 0x40, 0x60, 0x80])) | (r.u8() & 0x1f),
        };
        out.push(code);
        // target length relative to edges
        let to_line_end = if w > 0 { (w as i64 - (x % w.max(1) as i64)) % (w as i64 + 1) } else { 0 };
        let tgt: i64 = match r.below(8) {
            0 => to_line_end - 1,
            1 => to_line_end,
            2 => to_line_end + 1,
            3 => remaining - 1,
            4 => remaining,
            5 => remaining + 1,
            6 => 0xFFFF,
            _ => r.range(0, 300) as i64,
        };
        let tgt = tgt.max(0).min(0xFFFF);
        let hi = code >> 4;
        let mut count = tgt;
        if hi == 0xF {
            let op = code & 0xf;
            if op < 9 {
                out.push(tgt as u8);
                if !r.chance(1, 30) {
                    out.push((tgt >> 8) as u8);
                }
            } else {
                count = if op < 0xb { 8 } else { 1 };
            }
        } else {
            let (low, offset, fgbg) = if hi >= 0xC { ((code & 0xf) as i64, 16, hi == 0xD) } else { ((code & 0x1f) as i64, 32, (code >> 5) == 2) };
            if low == 0 {
                // extension byte
                let ext = if fgbg { (tgt - 1).max(0).min(255) } else { (tgt - offset).max(0).min(255) };
                if !r.chance(1, 30) {
                    out.push(ext as u8);
                }
                count = if fgbg { ext + 1 } else { ext + offset };
            } else {
                count = if fgbg { low * 8 } else { low };
            }
        }
        // operands
        let kind = if hi == 0xF { code & 0xf } else if hi >= 0xC { hi - 6 } else { code >> 5 };
        let trunc = r.chance(1, 25);
        let mut operands: Vec<u8> = Vec::new();
        match kind {
            3 | 6 | 7 => operands.extend_from_slice(&r.bytes(2)),
            8 => operands.extend_from_slice(&r.bytes(4)),
            _ => {}
        }
        match kind {
            2 | 7 => operands.extend_from_slice(&r.bytes(((count + 7) / 8).min(8192) as usize)),
            4 => operands.extend_from_slice(&r.bytes((count * 2).min(16384) as usize)),
            _ => {}
        }
        if trunc && !operands.is_empty() {
            let k = r.below(operands.len() as u64) as usize;
            operands.truncate(k);
        }
        out.extend_from_slice(&operands);
        let px = if kind == 8 { count * 2 } else { count };
        x += px;
        remaining -= px;
        if remaining <= -4 || out.len() > 20000 {
            break;
        }
    }
    out
}

/// hostile planar stream: control bytes with every (raw, run) nibble pair at line edges
pub fn hostile_planar(r: &mut Rng, w: usize, h: usize) -> Vec<u8> {
    let mut out = vec![if r.chance(1, 20) { r.u8() } else { 0x10 }];
    let planes = if r.chance(1, 10) { r.range(0, 5) } else { 4 };
    'outer: for _ in 0..planes {
        for _ in 0..h {
            let mut x = 0usize;
            let mut guard = 0;
            while x < w {
                guard += 1;
                if guard > 4 * w + 8 {
                    break;
                }
                let rem = w - x;
                let (raw, run): (usize, usize) = match r.below(8) {
                    0 => (r.below(16) as usize, r.below(16) as usize),
                    1 => (rem.min(15), 0),
                    2 => ((rem + 1).min(15), 0),
                    3 => (1.min(rem), (rem.saturating_sub(1)).min(15)),
                    4 => (1, rem.min(15)),
                    5 => (r.below(16) as usize, 1),
                    6 => (r.below(16) as usize, 2),
                    _ => (r.range(1, 4) as usize, r.below(8) as usize),
                };
                out.push(((raw as u8) << 4) | run as u8);
                let (eraw, erun) = if run == 1 { (0, raw + 16) } else if run == 2 { (0, raw + 32) } else { (raw, run) };
                let n = if r.chance(1, 40) { r.below(eraw as u64 + 1) as usize } else { eraw };
                out.extend_from_slice(&r.bytes(n));
                x += eraw + erun;
                if out.len() > 60000 {
                    break 'outer;
                }
            }
        }
    }
    if r.chance(1, 10) {
        let k = r.below(out.len() as u64 + 1) as usize;
        out.truncate(k);
    }
    out
}

fn geom(r: &mut Rng) -> (u16, u16) {
    if r.chance(3, 4) {
        (*r.pick(&GEOM), *r.pick(&GEOM))
    } else {
        (r.range(0, 512) as u16, r.range(0, 512) as u16)
    }
}

/// Build case `idx` of class `class` (deterministic in seed).
pub fn make_case(class: u64, idx: u64, seed: u64) -> Case {
    let mut c = make_case_inner(class, idx, seed);
    c.gen = Some([class, idx, seed]);
    c
}

const EXTREME: [u16; 17] = [1, 2, 255, 256, 257, 4095, 4096, 4097, 8191, 8192, 8193, 16383, 16384, 16385, 32768, 65534, 65535];

fn make_case_inner(class: u64, idx: u64, seed: u64) -> Case {
    let mut r = Rng::derive(seed, "C08", class, idx);
    match class {
        0 | 7 => {
            // exhaustive short strings over small geometries; 16 and 32 bpp compressed
            let ns = if class == 0 { N_LE2 } else { N_LE3 };
            let gset: &[u16] = if class == 0 { &SMALL_GEOM } else { &[0, 1, 2] };
            let s = idx % ns;
            let rest = idx / ns;
            let mode = rest % 2;
            let g = rest / 2;
            let w = gset[(g as usize) % gset.len()];
            let h = gset[(g as usize / gset.len()) % gset.len()];
            Case { class: if class == 0 { "exhaustive<=2" } else { "exhaustive<=3" }, w, h, bpp: if mode == 0 { 16 } else { 32 }, compress: true, data: short_string(s), gen: None }
        }
        1 => {
            let (w, h) = geom(&mut r);
            let data = hostile_rle16(&mut r, w as usize, h as usize);
            Case { class: "grammar-rle16", w, h, bpp: 16, compress: true, data, gen: None }
        }
        2 => {
            let (mut w, mut h) = geom(&mut r);
            if w as u32 * h as u32 > 40000 {
                w = w.min(200);
                h = h.min(200);
            }
            let data = hostile_planar(&mut r, w as usize, h as usize);
            Case { class: "grammar-planar", w, h, bpp: 32, compress: true, data, gen: None }
        }
        3 => {
            let (w, h) = geom(&mut r);
            let n = r.range(0, 4096) as usize;
            let data = r.bytes(n);
            let bpp = *r.pick(&[16u16, 32]);
            Case { class: "random-bytes", w, h, bpp, compress: r.chance(3, 4), data, gen: None }
        }
        4 => {
            // uncompressed, data length around the exact size
            let (w, h) = if r.chance(1, 2) { (r.range(0, 20) as u16, r.range(0, 20) as u16) } else { geom(&mut r) };
            let bpp = *r.pick(&[16u16, 32]);
            let exact = w as usize * h as usize * (bpp as usize / 8);
            let n = match r.below(6) {
                0 => exact,
                1 => exact.saturating_sub(1),
                2 => exact + 1,
                3 => 0,
                4 => exact / 2,
                _ => exact + r.range(0, 64) as usize,
            };
            Case { class: "uncompressed", w, h, bpp, compress: false, data: r.bytes(n.min(300_000)), gen: None }
        }
        5 => {
            let (w, h) = geom(&mut r);
            let bpp = if r.chance(1, 2) { *r.pick(&BPPS) } else { r.u16() };
            let n = r.range(0, 64) as usize;
            Case { class: "any-bpp", w, h, bpp, compress: r.chance(1, 2), data: r.bytes(n), gen: None }
        }
        8 => {
            // one very long dimension (every power of two up to 65535 and its neighbours), the other 1..3
            let long = EXTREME[(idx % EXTREME.len() as u64) as usize] as usize;
            let short = 1 + (idx / EXTREME.len() as u64 % 3) as usize;
            let (w, h) = if (idx / (EXTREME.len() as u64 * 3)) % 2 == 0 { (long, short) } else { (short, long) };
            let kind = (idx / (EXTREME.len() as u64 * 6)) % 6;
            let (bpp, compress, data) = match kind {
                0 => {
                    // conformant planar encoding of a two-valued image
                    let pal = [r.u8(), r.u8()];
                    let img: Vec<u8> = (0..w * h * 4).map(|i| pal[(i / 37) % 2]).collect();
                    let mut st = Vec::new();
                    (32u16, true, refrle::encode_planar(&img, w, h, &mut r, &mut st))
                }
                1 => {
                    let pal = [r.u16(), r.u16()];
                    let img: Vec<u16> = (0..w * h).map(|i| pal[(i / 29) % 2]).collect();
                    (16u16, true, refrle::encode_rle16(&img, w, h, &mut r, 300).0)
                }
                2 => (32u16, true, hostile_planar(&mut r, w, h)),
                3 => (16u16, true, hostile_rle16(&mut r, w, h)),
                4 => {
                    let n = w * h * 4 + [0usize, 1, 7][r.below(3) as usize] - (r.chance(1, 4) as usize);
                    (32u16, false, r.bytes(n))
                }
                _ => {
                    let n = w * h * 2 + [0usize, 1, 7][r.below(3) as usize];
                    (16u16, false, r.bytes(n))
                }
            };
            Case { class: "extreme-geometry", w: w as u16, h: h as u16, bpp, compress, data, gen: None }
        }
        10 => {
            // uncompressed bitmaps announcing far more pixels than they carry: products at and around 2^30, 2^31, 2^32
            // pixels or bytes; the data is short, also of exactly the length the announced size has modulo 2^32
            const DIMS: [(u16, u16); 16] = [(32768, 32768), (65535, 65535), (16384, 65535), (40000, 30000), (32767, 32768), (65535, 16385), (46341, 46341), (65535, 32768), (32768, 16384), (16384, 16384), (65535, 1), (1, 65535), (65535, 4), (46340, 46341), (23170, 23171), (65534, 32769)];
            let (w, h) = DIMS[(idx % 16) as usize];
            let bpp = if (idx / 16) % 2 == 0 { 32u16 } else { 16 };
            let announced = w as u64 * h as u64 * (bpp as u64 / 8);
            let wrapped = (announced & 0xffff_ffff) as usize;
            let n = match (idx / 32) % 6 {
                0 => 0,
                1 => 1,
                2 => r.range(2, 4096) as usize,
                3 => wrapped.min(200_000),
                4 => (wrapped + r.range(1, 64) as usize).min(200_000),
                _ => (w as usize * (bpp as usize / 8)).min(200_000) * r.range(1, 3) as usize,
            };
            Case { class: "announced-size-extremes", w, h, bpp, compress: false, data: r.bytes(n), gen: None }
        }
        9 => {
            // small pictures carrying far more data than they need
            let w = r.below(5) as u16;
            let h = r.below(5) as u16;
            let surplus = *r.pick(&[4096usize, 65537, 300_000, 1 << 20]);
            let bpp = *r.pick(&[16u16, 32]);
            let compress = r.chance(1, 3);
            let exact = w as usize * h as usize * (bpp as usize / 8);
            let mut data = if compress && w > 0 && h > 0 {
                if bpp == 32 {
                    let img = r.bytes(w as usize * h as usize * 4);
                    let mut st = Vec::new();
                    refrle::encode_planar(&img, w as usize, h as usize, &mut r, &mut st)
                } else {
                    let img: Vec<u16> = (0..w as usize * h as usize).map(|_| r.u16()).collect();
                    refrle::encode_rle16(&img, w as usize, h as usize, &mut r, 300).0
                }
            } else {
                r.bytes(exact)
            };
            let fill = r.u8();
            data.resize(data.len() + surplus, fill);
            Case { class: "surplus-data", w, h, bpp, compress, data, gen: None }
        }
        _ => {
            // 6: valid encodings of random images, then corrupted
            let w = r.range(1, 40) as usize;
            let h = r.range(1, 40) as usize;
            let use16 = r.chance(1, 2);
            let mut data;
            if use16 {
                let pal: Vec<u16> = (0..r.range(1, 4)).map(|_| r.u16()).collect();
                let img: Vec<u16> = (0..w * h).map(|_| *r.pick(&pal)).collect();
                data = refrle::encode_rle16(&img, w, h, &mut r, 300).0;
            } else {
                let pal: Vec<u8> = (0..r.range(1, 4)).map(|_| r.u8()).collect();
                let img: Vec<u8> = (0..w * h * 4).map(|_| *r.pick(&pal)).collect();
                let mut st = Vec::new();
                data = refrle::encode_planar(&img, w, h, &mut r, &mut st);
            }
            match r.below(5) {
                0 => {
                    let k = r.below(data.len() as u64 + 1) as usize;
                    data.truncate(k);
                }
                1 => {
                    if !data.is_empty() {
                        let k = r.below(data.len() as u64) as usize;
                        data[k] ^= 1 << r.below(8);
                    }
                }
                2 => {
                    let k = r.range(1, 16) as usize;
                    data.extend_from_slice(&r.bytes(k));
                }
                3 => {
                    if !data.is_empty() {
                        let k = r.below(data.len() as u64) as usize;
                        data[k] = r.u8();
                    }
                }
                _ => {}
            }
            // geometry sometimes off by one relative to what was encoded
            let (dw, dh) = match r.below(6) {
                0 => (w + 1, h),
                1 => (w.saturating_sub(1), h),
                2 => (w, h + 1),
                3 => (w, h.saturating_sub(1)),
                _ => (w, h),
            };
            Case { class: "corrupted-valid", w: dw as u16, h: dh as u16, bpp: if use16 { 16 } else { 32 }, compress: true, data, gen: None }
        }
    }
}

pub fn run(cfg: &Cfg) -> Report {
    let seed = cfg.seed;
    let mut total = Report::new();
    // class 0: exhaustive, all strings of length <= 2, 64 geometries, 2 modes
    let n0 = N_LE2 * 2 * 64;
    let plan: Vec<(u64, u64)> = vec![
        (0, n0),
        (1, cfg.n(400_000, 30_000_000)),
        (2, cfg.n(300_000, 20_000_000)),
        (3, cfg.n(200_000, 10_000_000)),
        (4, cfg.n(100_000, 3_000_000)),
        (5, cfg.n(50_000, 1_000_000)),
        (6, cfg.n(200_000, 10_000_000)),
        (7, if cfg.quick() { 0 } else { N_LE3 * 2 * 9 }),
        (8, cfg.n(17 * 36 * 4, 17 * 36 * 200)),
        (9, cfg.n(2_000, 100_000)),
        (10, cfg.n(16 * 2 * 6 * 4, 16 * 2 * 6 * 400)),
    ];
    for (class, n) in plan {
        if !cfg.wants(class) {
            continue;
        }
        if n == 0 {
            continue;
        }
        let rep = par_run(cfg, n, 4096, |idx, rep| {
            mon::begin_case(8, class, idx, seed);
            let c = make_case(class, idx, seed);
            check_case(&c, rep);
        });
        total.count(&format!("cases_class_{}", class), n);
        total.merge(rep);
    }
    total.count("exhaustive_le2_complete", 1);
    total
}

pub fn replay(_cfg: &Cfg, v: &Value) -> Report {
    let mut rep = Report::new();
    mon::set_quiet(false);
    let c = if v.get("death_case").is_some() {
        let a: Vec<u64> = v["death_case"].as_array().unwrap().iter().map(|x| x.as_u64().unwrap()).collect();
        make_case(a[1], a[2], a[3])
    } else if let Some(g) = v.get("gen").and_then(|g| g.as_array()).filter(|g| g.len() == 3) {
        make_case(g[0].as_u64().unwrap_or(0), g[1].as_u64().unwrap_or(0), g[2].as_u64().unwrap_or(1))
    } else {
        Case {
            class: "replay",
            w: v["w"].as_u64().unwrap() as u16,
            h: v["h"].as_u64().unwrap() as u16,
            bpp: v["bpp"].as_u64().unwrap() as u16,
            compress: v["compress"].as_bool().unwrap(),
            data: unhex(v["data"].as_str().unwrap()),
            gen: None,
        }
    };
    check_case(&c, &mut rep);
    rep
}
