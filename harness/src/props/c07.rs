//! C07 — hostile server bytes during NLA never crash the client.
//! Monitors as in C05; faults on the CHALLENGE (fields, offsets, AV pairs), on the TSRequest DER
//! around it and on the final pubKeyAuth reply, end to end through Connector::connect over TLS and
//! directly at the four parser entries.

use crate::client::{self, ConnCfg};
use crate::fault::{self, Mutant};
use crate::mon;
use crate::props::c05::{alloc_violation, Observed};
use crate::refs::build::B;
use crate::refs::cssp::{self, TsRequest};
use crate::refs::ntlm;
use crate::refs::proto::Profile;
use crate::report::Report;
use crate::rng::{fnv, hex, unhex, Rng};
use crate::server::{Duplex, FinalAction};
use crate::{par_run, Cfg};
use rdp::nla::cssp as lcssp;
use rdp::nla::ntlm::{NTLMv2SecurityInterface, Ntlm};
use rdp::nla::rc4::Rc4;
use rdp::nla::sspi::{AuthenticationProtocol, GenericSecurityService};
use serde_json::{json, Value};

/// CHALLENGE with a field map
pub fn challenge_b(flags: u32, pairs: &[(u16, Vec<u8>)], with_eol: bool) -> B {
    let hdr = if flags & ntlm::F_VERSION != 0 { 56 } else { 48 };
    let tn = crate::refs::bytes::utf16le("SRV");
    let mut ti = B::new();
    for (i, (id, v)) in pairs.iter().enumerate() {
        let mut p = B::new();
        p.u16le("id", *id).u16le("len", v.len() as u16).bytes("value", v);
        ti.nest(&format!("av{}", i), &p);
    }
    if with_eol {
        let mut p = B::new();
        p.u16le("id", 0).u16le("len", 0);
        ti.nest("eol", &p);
    }
    let mut b = B::new();
    b.bytes("signature", b"NTLMSSP\0").u32le("messageType", 2);
    b.u16le("targetNameLen", tn.len() as u16).u16le("targetNameMaxLen", tn.len() as u16).u32le("targetNameOffset", hdr as u32);
    b.u32le("negotiateFlags", flags).bytes("serverChallenge", &[1, 2, 3, 4, 5, 6, 7, 8]).bytes("reserved", &[0; 8]);
    b.u16le("targetInfoLen", ti.len() as u16).u16le("targetInfoMaxLen", ti.len() as u16).u32le("targetInfoOffset", (hdr + tn.len()) as u32);
    if flags & ntlm::F_VERSION != 0 {
        b.bytes("version", &[10, 0, 0x61, 0x4a, 0, 0, 0, 15]);
    }
    b.bytes("targetName", &tn);
    b.nest("ti", &ti);
    b
}

fn std_pairs() -> Vec<(u16, Vec<u8>)> {
    vec![(2, crate::refs::bytes::utf16le("DOM")), (1, crate::refs::bytes::utf16le("SRV")), (4, crate::refs::bytes::utf16le("d.local")), (7, vec![1, 2, 3, 4, 5, 6, 7, 8])]
}

#[derive(Clone)]
pub struct Plan {
    /// challenge-ntlm: bytes replace the NTLM CHALLENGE inside an otherwise honest TSRequest
    /// challenge-ts:   bytes replace the whole first server TSRequest
    /// final-ts:       bytes replace the whole final TSRequest
    /// final-sealed:   bytes replace the pubKeyAuth octet string inside an honest TSRequest
    /// final-keyed:    bytes are a plaintext the server seals and signs with the real session keys
    /// direct:<entry>  bytes are handed to a parser entry
    pub target: String,
    pub then_close: bool,
    pub mutant: Mutant,
}

impl Plan {
    pub fn to_json(&self) -> Value {
        json!({"target": self.target, "then_close": self.then_close, "class": self.mutant.class, "at": self.mutant.at, "bytes": hex(&self.mutant.bytes)})
    }
    pub fn from_json(v: &Value) -> Plan {
        Plan { target: v["target"].as_str().unwrap_or("").to_string(), then_close: v["then_close"].as_bool().unwrap_or(false), mutant: Mutant { class: v["class"].as_str().unwrap_or("").to_string(), bytes: unhex(v["bytes"].as_str().unwrap_or("")), at: v["at"].as_u64().unwrap_or(0) as usize } }
    }
}

pub const ENTRIES: [&str; 4] = ["ntlm.read_challenge_message", "cssp.read_ts_server_challenge", "cssp.read_ts_validate", "ntlm.gss_unwrapex"];

fn run_direct(entry: &str, data: &[u8]) -> (Result<String, mon::PanicInfo>, mon::AllocStats) {
    let d = data.to_vec();
    let e = entry.to_string();
    mon::observed(move || match e.as_str() {
        "ntlm.read_challenge_message" => {
            // the same challenge is answered by clients holding each kind of credentials (the answer encodes them in the
            // character set the challenge selects)
            let mut out = String::new();
            for (dom, user, pw) in CREDS.iter() {
                let mut n = Ntlm::new(dom.to_string(), user.to_string(), pw.to_string());
                let _ = n.create_negotiate_message();
                out = format!("{}", n.read_challenge_message(&d).is_ok());
            }
            out
        }
        "cssp.read_ts_server_challenge" => format!("{}", lcssp::read_ts_server_challenge(&d).is_ok()),
        "cssp.read_ts_validate" => format!("{}", lcssp::read_ts_validate(&d).is_ok()),
        _ => {
            let mut c = NTLMv2SecurityInterface::new(Rc4::new(b"0123456789abcdef"), Rc4::new(b"fedcba9876543210"), vec![1; 16], vec![2; 16]);
            format!("{}", c.gss_unwrapex(&d).is_ok())
        }
    })
}

/// credentials of the authenticating client: ASCII, Latin-1, other BMP scripts, supplementary-plane characters
pub const CREDS: [(&str, &str, &str); 6] = [("DOM", "user", "password"), ("D\u{d6}M", "\u{fc}s\u{e9}r", "p\u{e5}ss\u{ff}"), ("\u{434}\u{43e}\u{43c}\u{435}\u{43d}", "\u{7528}\u{6237}", "\u{43f}\u{430}\u{440}\u{43e}\u{43b}\u{44c}"), ("\u{57df}\u{1f511}", "\u{1f600}user", "\u{5bc6}\u{7801}\u{1f600}"), ("", "user", "password"), (".", "", "")];

/// sessions whose challenge is replaced run once per kind of credentials (the first with a defect is reported)
pub fn run_plan(plan: &Plan) -> Observed {
    // ... and clients configured without a domain (the Connector default), or with next to nothing
    let sets: &[usize] = if plan.target.starts_with("challenge") { &[0, 2, 3, 4, 5] } else { &[0] };
    let mut last = None;
    for k in sets {
        let o = run_plan_as(plan, *k);
        if o.panic.is_some() || alloc_violation(&o.alloc, o.server_bytes).is_some() || o.alloc.max_stack_depth > crate::props::c05::STACK_LIMIT {
            return o;
        }
        last = Some(o);
    }
    last.unwrap()
}

fn run_plan_as(plan: &Plan, creds: usize) -> Observed {
    if let Some(entry) = plan.target.strip_prefix("direct:") {
        let (res, alloc) = run_direct(entry, &plan.mutant.bytes);
        return match res {
            Ok(o) => Observed { outcome: format!("entry-{}", o), panic: None, alloc, server_bytes: plan.mutant.bytes.len(), consumed_fault: true },
            Err(p) => Observed { outcome: "panic".into(), panic: Some(p), alloc, server_bytes: plan.mutant.bytes.len(), consumed_fault: true },
        };
    }
    let mut p = Profile::default();
    p.selected_protocol = 2;
    let d = Duplex::new(p);
    let bytes = plan.mutant.bytes.clone();
    let target = plan.target.clone();
    let then_close = plan.then_close;
    d.with(|s| {
        s.tls_identity = 2;
        match target.as_str() {
            "challenge-ntlm" => {
                let b = bytes.clone();
                s.challenge_hook = Some(Box::new(move |_c, _h| Some(cssp::build(&TsRequest { version: 6, nego_tokens: vec![b.clone()], ..Default::default() }))));
            }
            "challenge-ts" => {
                let b = bytes.clone();
                s.challenge_hook = Some(Box::new(move |_c, _h| Some(b.clone())));
            }
            "final-ts" => {
                let b = bytes.clone();
                s.final_hook = Some(Box::new(move |_ctx| FinalAction::Send(b.clone())));
            }
            "final-keyed" => {
                // the server holds the session keys: the bytes are the *plaintext*, sealed and signed correctly
                let b = bytes.clone();
                s.final_hook = Some(Box::new(move |ctx| {
                    let sealed = crate::refs::ntlm::Direction::new(&ctx.session_key, false).wrap(&b);
                    FinalAction::Send(cssp::build(&TsRequest { version: ctx.ts_version, pub_key_auth: Some(sealed), ..Default::default() }))
                }));
            }
            _ => {
                let b = bytes.clone();
                s.final_hook = Some(Box::new(move |ctx| FinalAction::Send(cssp::build(&TsRequest { version: ctx.ts_version, pub_key_auth: Some(b.clone()), ..Default::default() }))));
            }
        }
    });
    let _ = then_close;
    let probe = d.clone();
    let mut cfg = ConnCfg::default();
    cfg.domain = CREDS[creds].0.to_string();
    cfg.user = CREDS[creds].1.to_string();
    cfg.password = CREDS[creds].2.to_string();
    let (res, alloc) = mon::observed(move || match client::connect_real(&cfg, d.clone()) {
        Ok(_) => "Ok".to_string(),
        Err(e) => format!("Err({})", client::err_kind(&e)),
    });
    let (server_bytes, consumed) = probe.with(|s| (s.out_total, s.nla_log.negotiate.is_some()));
    match res {
        Ok(o) => Observed { outcome: o, panic: None, alloc, server_bytes, consumed_fault: consumed },
        Err(p) => Observed { outcome: "panic".into(), panic: Some(p), alloc, server_bytes, consumed_fault: consumed },
    }
}

fn judge(plan: &Plan, o: &Observed, rep: &mut Report) {
    rep.eval();
    rep.hist(&o.outcome);
    if let Some(p) = &o.panic {
        rep.violation(format!("C07/{}/{}", plan.target, p.sig()), format!("fault {}: {} at {}:{}", plan.mutant.class, p.msg, p.file, p.line), plan.to_json());
    }
    if let Some(d) = alloc_violation(&o.alloc, o.server_bytes) {
        rep.violation(format!("C07/{}/alloc-out-of-proportion", plan.target), format!("fault {}: {}", plan.mutant.class, d), plan.to_json());
    }
    if o.alloc.max_stack_depth > crate::props::c05::STACK_LIMIT {
        rep.violation(format!("C07/{}/stack-depth-grows-with-input", plan.target), format!("fault {}: the stack was {} bytes deep at a transport call", plan.mutant.class, o.alloc.max_stack_depth), plan.to_json());
    }
    rep.max("deepest_stack_at_transport_call_bytes", o.alloc.max_stack_depth as f64);
    rep.max("largest_allocation_bytes", o.alloc.max_request as f64);
    rep.set("targets", plan.target.clone());
    rep.set("fault_classes", plan.mutant.class.split(':').next().unwrap_or("").to_string());
}

/// blind byte-level faults for DER blobs without a field map
fn blind_faults(b: &[u8], r: &mut Rng) -> Vec<Mutant> {
    let mut out = Vec::new();
    for i in 0..b.len().min(96) {
        for x in [0u8, 0xff, 0x80, 0x81, 0x84, 0x30, 0xa0, 0x04, b[i] ^ 1, b[i].wrapping_add(1)].iter() {
            if *x != b[i] {
                let mut v = b.to_vec();
                v[i] = *x;
                out.push(Mutant { class: "der-byte".into(), bytes: v, at: i });
            }
        }
    }
    for k in 0..b.len() {
        out.push(Mutant { class: "truncate".into(), bytes: b[..k].to_vec(), at: k });
    }
    for n in [1usize, 8, 1500].iter() {
        let mut v = b.to_vec();
        v.extend_from_slice(&r.bytes(*n));
        out.push(Mutant { class: "extend".into(), bytes: v, at: b.len() });
    }
    out
}

fn structural_ts() -> Vec<(String, Vec<u8>)> {
    use crate::refs::ber::{der, Asn};
    let chal = challenge_b(0xE28A8235, &std_pairs(), true).v;
    let tok = |t: Vec<u8>| Asn::Seq(vec![Asn::Ctx(0, Box::new(Asn::Octets(t)))]);
    vec![
        ("empty-negoTokens".into(), der(&Asn::Seq(vec![Asn::Ctx(0, Box::new(Asn::Int(6))), Asn::Ctx(1, Box::new(Asn::Seq(vec![])))]))),
        ("no-negoTokens".into(), der(&Asn::Seq(vec![Asn::Ctx(0, Box::new(Asn::Int(6)))]))),
        ("empty-negoToken".into(), der(&Asn::Seq(vec![Asn::Ctx(0, Box::new(Asn::Int(6))), Asn::Ctx(1, Box::new(Asn::Seq(vec![tok(vec![])])))]))),
        ("two-negoTokens".into(), der(&Asn::Seq(vec![Asn::Ctx(0, Box::new(Asn::Int(6))), Asn::Ctx(1, Box::new(Asn::Seq(vec![tok(chal.clone()), tok(chal.clone())])))]))),
        ("no-version".into(), der(&Asn::Seq(vec![Asn::Ctx(1, Box::new(Asn::Seq(vec![tok(chal.clone())])))]))),
        ("pubKeyAuth-instead".into(), der(&Asn::Seq(vec![Asn::Ctx(0, Box::new(Asn::Int(6))), Asn::Ctx(3, Box::new(Asn::Octets(vec![1; 40])))]))),
        ("errorCode-only".into(), der(&Asn::Seq(vec![Asn::Ctx(0, Box::new(Asn::Int(6))), Asn::Ctx(4, Box::new(Asn::Int(0xc000006d)))]))),
        ("version-huge".into(), der(&Asn::Seq(vec![Asn::Ctx(0, Box::new(Asn::Int(0xffff_ffff_ffff))), Asn::Ctx(1, Box::new(Asn::Seq(vec![tok(chal.clone())])))]))),
        ("indefinite-length".into(), {
            let mut v = vec![0x30, 0x80];
            v.extend_from_slice(&der(&Asn::Ctx(0, Box::new(Asn::Int(6)))));
            v.extend_from_slice(&[0, 0]);
            v
        }),
        ("length-4GiB".into(), vec![0x30, 0x84, 0xff, 0xff, 0xff, 0xff, 0xa0, 0x03, 0x02, 0x01, 0x06]),
        ("length-2GiB-octets".into(), vec![0x30, 0x0d, 0xa0, 0x03, 0x02, 0x01, 0x06, 0xa3, 0x06, 0x04, 0x84, 0x7f, 0xff, 0xff, 0xff]),
        ("64-negoTokens".into(), der(&Asn::Seq(vec![Asn::Ctx(0, Box::new(Asn::Int(6))), Asn::Ctx(1, Box::new(Asn::Seq((0..64).map(|_| tok(vec![1, 2, 3])).collect())))]))),
        ("65-negoTokens-first-valid".into(), der(&Asn::Seq(vec![Asn::Ctx(0, Box::new(Asn::Int(6))), Asn::Ctx(1, Box::new(Asn::Seq((0..65).map(|i| tok(if i == 0 { chal.clone() } else { vec![i as u8] })).collect())))]))),
        ("300-negoTokens".into(), der(&Asn::Seq(vec![Asn::Ctx(0, Box::new(Asn::Int(6))), Asn::Ctx(1, Box::new(Asn::Seq((0..300).map(|_| tok(vec![])).collect())))]))),
        ("5000-negoTokens".into(), der(&Asn::Seq(vec![Asn::Ctx(0, Box::new(Asn::Int(6))), Asn::Ctx(1, Box::new(Asn::Seq((0..5000).map(|i| tok(vec![i as u8])).collect())))]))),
        ("all-fields-present".into(), der(&Asn::Seq(vec![Asn::Ctx(0, Box::new(Asn::Int(6))), Asn::Ctx(1, Box::new(Asn::Seq(vec![tok(chal.clone())]))), Asn::Ctx(2, Box::new(Asn::Octets(vec![7; 30]))), Asn::Ctx(3, Box::new(Asn::Octets(vec![1; 40]))), Asn::Ctx(4, Box::new(Asn::Int(5))), Asn::Ctx(5, Box::new(Asn::Octets(vec![9; 32])))]))),
        ("fields-reversed".into(), der(&Asn::Seq(vec![Asn::Ctx(3, Box::new(Asn::Octets(vec![1; 40]))), Asn::Ctx(1, Box::new(Asn::Seq(vec![tok(chal.clone())]))), Asn::Ctx(0, Box::new(Asn::Int(6)))]))),
        ("version-twice".into(), der(&Asn::Seq(vec![Asn::Ctx(0, Box::new(Asn::Int(6))), Asn::Ctx(0, Box::new(Asn::Int(6))), Asn::Ctx(1, Box::new(Asn::Seq(vec![tok(chal.clone())])))]))),
        ("unknown-context-tag-9".into(), der(&Asn::Seq(vec![Asn::Ctx(0, Box::new(Asn::Int(6))), Asn::Ctx(9, Box::new(Asn::Octets(vec![1; 4]))), Asn::Ctx(1, Box::new(Asn::Seq(vec![tok(chal.clone())])))]))),
        ("not-der".into(), b"HTTP/1.1 400 Bad Request\r\n\r\n".to_vec()),
        ("empty".into(), vec![]),
        ("octet-string-at-top".into(), der(&Asn::Octets(chal))),
    ]
}

fn semantic_challenges() -> Vec<(String, Vec<u8>)> {
    let f = 0xE28A8235u32;
    let mut out: Vec<(String, Vec<u8>)> = Vec::new();
    for l in [0usize, 1, 4, 7, 9, 16, 256, 1000].iter() {
        let mut p = std_pairs();
        p[3].1 = vec![0x5a; *l];
        out.push((format!("timestamp-len-{}", l), challenge_b(f, &p, true).v));
    }
    let mut p = std_pairs();
    p.retain(|x| x.0 != 7);
    out.push(("no-timestamp".into(), challenge_b(f, &p, true).v));
    out.push(("no-eol".into(), challenge_b(f, &std_pairs(), false).v));
    out.push(("no-pairs-no-eol".into(), challenge_b(f, &[], false).v));
    out.push(("only-eol".into(), challenge_b(f, &[], true).v));
    let mut p = std_pairs();
    p.push((7, vec![9; 8]));
    out.push(("two-timestamps".into(), challenge_b(f, &p, true).v));
    for id in 0u16..=12 {
        let mut p = std_pairs();
        p.insert(1, (id, vec![1, 2, 3, 4]));
        out.push((format!("extra-av-id-{}", id), challenge_b(f, &p, true).v));
    }
    for id in [0x00ffu16, 0x0100, 0x7fff, 0x8000, 0xffff].iter() {
        let mut p = std_pairs();
        p.insert(0, (*id, vec![1, 2]));
        out.push((format!("extra-av-id-{:#x}", id), challenge_b(f, &p, true).v));
    }
    let many: Vec<(u16, Vec<u8>)> = (0..200).map(|i| (1 + (i % 6) as u16, vec![i as u8; 3])).chain(std::iter::once((7u16, vec![0; 8]))).collect();
    out.push(("200-pairs".into(), challenge_b(f, &many, true).v));
    let mut p = std_pairs();
    p.insert(0, (9, vec![0x41; 60000]));
    out.push(("60000-byte-pair".into(), challenge_b(f, &p, true).v));
    // target info close to the 16-bit limit of its length field (the client echoes it in its own, longer, response)
    for total in [0xFF00usize, 0xFFC0, 0xFFD0, 0xFFD3, 0xFFD4, 0xFFD8, 0xFFE0, 0xFFF0, 0xFFFB, 0xFFFF].iter() {
        // pairs: one filler (id 9), timestamp (12 bytes), EOL (4 bytes)
        let filler = total - 4 - 12 - 4;
        let p: Vec<(u16, Vec<u8>)> = vec![(9, vec![0x41; filler]), (7, vec![1; 8])];
        out.push((format!("target-info-{:#x}-bytes", total), challenge_b(f, &p, true).v));
    }
    // a timestamp pair whose own length is huge
    for l in [0x8000usize, 0xFFF0, 0xFFF7].iter() {
        out.push((format!("timestamp-len-{:#x}", l), challenge_b(f, &[(7, vec![2; *l])], true).v));
    }
    for flags in [0u32, 1, f & !ntlm::F_VERSION, f & !ntlm::F_UNICODE, f & !ntlm::F_KEY_EXCH, 0xffffffff].iter() {
        out.push((format!("flags-{:#x}", flags), challenge_b(*flags, &std_pairs(), true).v));
    }
    out
}

fn all_plans(seed: u64, quick: bool) -> Vec<Plan> {
    let mut plans = Vec::new();
    let mut r = Rng::derive(seed, "C07", 0, 0);
    let chal = challenge_b(0xE28A8235, &std_pairs(), true);
    let chal_nv = challenge_b(0xE28A8235 & !ntlm::F_VERSION, &std_pairs(), true);
    // (1) field faults of the CHALLENGE: direct entry for all, end-to-end for a share
    for (ci, c) in [&chal, &chal_nv].iter().enumerate() {
        for (i, m) in fault::single_faults(c, &mut r, false).into_iter().enumerate() {
            plans.push(Plan { target: "direct:ntlm.read_challenge_message".into(), then_close: false, mutant: m.clone() });
            let e2e = ci == 0 && (m.class.starts_with("bound") || m.class.starts_with("remove") || m.class.starts_with("truncate") || i % (if quick { 16 } else { 2 }) == 0);
            if e2e {
                plans.push(Plan { target: "challenge-ntlm".into(), then_close: false, mutant: m });
            }
        }
        let sub = fault::boundary_subset(c);
        let npairs = if quick { 3000 } else { 60000 };
        for _ in 0..npairs {
            let (i, j) = (r.below(sub.len() as u64) as usize, r.below(sub.len() as u64) as usize);
            if let Some(m) = fault::pair_fault(c, &sub, i.min(j), i.max(j)) {
                plans.push(Plan { target: "direct:ntlm.read_challenge_message".into(), then_close: false, mutant: m });
            }
        }
    }
    for (name, bytes) in semantic_challenges() {
        let m = Mutant { class: format!("semantic:{}", name), bytes, at: 0 };
        plans.push(Plan { target: "direct:ntlm.read_challenge_message".into(), then_close: false, mutant: m.clone() });
        if m.bytes.len() < 1300 {
            plans.push(Plan { target: "challenge-ntlm".into(), then_close: false, mutant: m });
        }
    }
    // (2) TSRequest around the challenge
    let honest_ts = cssp::build(&TsRequest { version: 6, nego_tokens: vec![chal.v.clone()], ..Default::default() });
    for m in blind_faults(&honest_ts, &mut r) {
        plans.push(Plan { target: "direct:cssp.read_ts_server_challenge".into(), then_close: false, mutant: m.clone() });
        if m.class != "der-byte" || m.at < 24 {
            plans.push(Plan { target: "challenge-ts".into(), then_close: true, mutant: m });
        }
    }
    for (name, bytes) in structural_ts() {
        let m = Mutant { class: format!("structural:{}", name), bytes, at: 0 };
        for t in ["direct:cssp.read_ts_server_challenge", "direct:cssp.read_ts_validate", "challenge-ts", "final-ts"].iter() {
            plans.push(Plan { target: t.to_string(), then_close: true, mutant: m.clone() });
        }
    }
    // (3) final round: TSRequest with pubKeyAuth
    let honest_final = cssp::build(&TsRequest { version: 6, pub_key_auth: Some(vec![0x42; 286]), ..Default::default() });
    for m in blind_faults(&honest_final, &mut r) {
        plans.push(Plan { target: "direct:cssp.read_ts_validate".into(), then_close: false, mutant: m.clone() });
        if m.class != "der-byte" || m.at < 16 {
            plans.push(Plan { target: "final-ts".into(), then_close: true, mutant: m });
        }
    }
    // sealed token: every length 0..40 and some longer, random content (checksum will not verify: must be an error)
    for l in (0..40).chain([64usize, 286, 287, 1200].iter().cloned()) {
        let m = Mutant { class: format!("sealed-len-{}", l), bytes: r.bytes(l), at: 0 };
        plans.push(Plan { target: "direct:ntlm.gss_unwrapex".into(), then_close: false, mutant: m.clone() });
        plans.push(Plan { target: "final-sealed".into(), then_close: false, mutant: m });
    }
    // correctly sealed values in the neighbourhood of the certificate's key (same length, smaller and larger)
    {
        let key = crate::tls::identity(2).subject_public_key.clone();
        let n = key.len();
        let mut vals: Vec<(String, Vec<u8>)> = Vec::new();
        for (name, d) in [("key-minus-1", -1i128), ("key", 0), ("key-plus-2", 2), ("key-minus-256", -256), ("key-plus-256", 256)].iter() {
            // little-endian add on a copy
            let mut v = key.clone();
            let mut carry = *d;
            let mut i = 0;
            while carry != 0 && i < v.len() {
                let cur = v[i] as i128 + carry;
                v[i] = cur.rem_euclid(256) as u8;
                carry = cur.div_euclid(256);
                i += 1;
            }
            vals.push((name.to_string(), v));
        }
        let mut top_less = key.clone();
        if let Some(x) = top_less.iter_mut().rev().find(|x| **x != 0) {
            *x -= 1;
        }
        vals.push(("key-with-smaller-top-byte".into(), top_less));
        vals.push(("zeros-of-key-length".into(), vec![0u8; n]));
        vals.push(("ff-of-key-length".into(), vec![0xff; n]));
        vals.push(("key-reversed".into(), key.iter().rev().cloned().collect()));
        for (name, v) in vals {
            plans.push(Plan { target: "final-keyed".into(), then_close: false, mutant: Mutant { class: format!("keyed-{}", name), bytes: v, at: 0 } });
        }
    }
    // correctly sealed plaintexts of every short length and of hostile content (a server that does hold the keys)
    for l in (0..48).chain([64usize, 91, 270, 294, 295, 1200, 16000].iter().cloned()) {
        for fill in [0u8, 0xff, 0x30].iter() {
            plans.push(Plan { target: "final-keyed".into(), then_close: false, mutant: Mutant { class: format!("keyed-plaintext-len-{}", l), bytes: vec![*fill; l], at: 0 } });
        }
        plans.push(Plan { target: "final-keyed".into(), then_close: false, mutant: Mutant { class: format!("keyed-plaintext-len-{}", l), bytes: r.bytes(l), at: 0 } });
    }
    plans
}

pub fn run(cfg: &Cfg) -> Report {
    crate::tls::prewarm(false);
    let seed = cfg.seed;
    let mut total = Report::new();
    if cfg.wants(0) {
        let plans = all_plans(seed, cfg.quick());
        let n = plans.len() as u64;
        let rep = par_run(cfg, n, 8, |idx, rep| {
            mon::begin_case(7, 0, idx, seed);
            let plan = &plans[idx as usize];
            let o = run_plan(plan);
            if o.consumed_fault {
                rep.nontrivial(fnv(&plan.mutant.bytes) ^ fnv(plan.target.as_bytes()));
            }
            if rep.want_sample() && plan.mutant.bytes.len() < 80 && plan.mutant.bytes.len() > 4 {
                let j = plan.to_json();
                rep.sample(|| j);
            }
            judge(plan, &o, rep);
        });
        total.count("structured_faults", n);
        total.merge(rep);
    }
    if cfg.wants(1) {
        // random corruption of the CHALLENGE at the direct entry
        let chal = challenge_b(0xE28A8235, &std_pairs(), true);
        let n = cfg.n(300_000, 8_000_000);
        let rep = par_run(cfg, n, 256, |idx, rep| {
            mon::begin_case(7, 1, idx, seed);
            let mut r = Rng::derive(seed, "C07-rand", 1, idx);
            let m = fault::random_fault(&chal, Some(&chal), &mut r);
            let plan = Plan { target: "direct:ntlm.read_challenge_message".into(), then_close: false, mutant: m };
            let o = run_plan(&plan);
            rep.nontrivial(fnv(&plan.mutant.bytes) ^ idx);
            judge(&plan, &o, rep);
        });
        total.count("random_corruptions", n);
        total.merge(rep);
    }
    if cfg.wants(2) {
        for (e, entry) in ENTRIES.iter().enumerate() {
            let maxlen = if cfg.quick() { 2 } else { 3 };
            let n = fault::short_string_count(maxlen);
            let rep = par_run(cfg, n, 4096, |idx, rep| {
                mon::begin_case(7, 10 + e as u64, idx, seed);
                let plan = Plan { target: format!("direct:{}", entry), then_close: false, mutant: Mutant { class: "short-string".into(), bytes: fault::short_string(idx), at: 0 } };
                let o = run_plan(&plan);
                rep.nontrivial((e as u64) << 40 | idx);
                judge(&plan, &o, rep);
            });
            total.count(&format!("short_strings_{}_maxlen{}", entry, maxlen), n);
            total.merge(rep);
        }
    }
    total
}

pub fn replay(cfg: &Cfg, v: &Value) -> Report {
    let mut rep = Report::new();
    mon::set_quiet(false);
    let plan = if let Some(a) = v.get("death_case") {
        let a: Vec<u64> = a.as_array().unwrap().iter().map(|x| x.as_u64().unwrap()).collect();
        match a[1] {
            0 => all_plans(a[3], cfg.quick())[a[2] as usize].clone(),
            c if c >= 10 => Plan { target: format!("direct:{}", ENTRIES[(c - 10) as usize]), then_close: false, mutant: Mutant { class: "short-string".into(), bytes: fault::short_string(a[2]), at: 0 } },
            _ => {
                rep.eval();
                rep.inconclusive("death case of a class that cannot be regenerated individually");
                return rep;
            }
        }
    } else {
        Plan::from_json(v)
    };
    let o = run_plan(&plan);
    judge(&plan, &o, &mut rep);
    rep
}
