//! C18 (a) — the library's message model: length() == bytes written, and reading those bytes into an
//! empty message of the same shape reproduces every field and consumes exactly that many bytes.
//! A shape generator emits, from ONE description, the written message, the empty message and the
//! expected leaf list.

use crate::rng::Rng;
use rdp::model::data::{Array, Check, Component, DataType, DynOption, Message, MessageOption, Trame, U16, U32};

#[derive(Clone, Debug)]
pub enum D {
    U8(u8),
    U16(u16, bool),
    U32(u32, bool),
    /// byte block; governed = delimited by a Size option (or last in the message): the empty message holds an empty Vec
    Bytes(Vec<u8>, bool),
    CheckU8(u8),
    CheckU16(u16, bool),
    CheckU32(u32, bool),
    CheckBytes(Vec<u8>),
    Comp(Vec<Field>),
    Trame(Vec<D>),
    /// optional trailing u32 / u16 (present or absent)
    OptU32(u32, bool),
    OptU16(u16, bool),
    /// array of records with the same shape (items, shape of one element)
    Array(Vec<Vec<Field>>, Vec<Field>),
}

#[derive(Clone, Debug)]
pub enum Rel {
    None,
    /// this integer field carries the byte size of the named field
    SizeOf(String),
    /// when this integer field equals the trigger, the named field is skipped
    SkipIf(String, u32),
}

#[derive(Clone, Debug)]
pub struct Field {
    pub name: String,
    pub d: D,
    pub rel: Rel,
}

#[derive(Clone, Debug, PartialEq)]
pub enum Leaf {
    U8(u8),
    U16(u16),
    U32(u32),
    Bytes(Vec<u8>),
    None,
    Bad(String),
}

fn int_value(d: &D) -> u32 {
    match d {
        D::U8(v) => *v as u32,
        D::U16(v, _) => *v as u32,
        D::U32(v, _) => *v,
        _ => 0,
    }
}

/// which fields of a record are emitted (sequential semantics: an emitted field may skip later ones)
pub fn emitted(fields: &[Field]) -> Vec<bool> {
    let mut skip: Vec<String> = Vec::new();
    let mut out = Vec::new();
    for f in fields {
        if skip.contains(&f.name) {
            out.push(false);
            continue;
        }
        out.push(true);
        if let Rel::SkipIf(t, trig) = &f.rel {
            if int_value(&f.d) == *trig {
                skip.push(t.clone());
            }
        }
    }
    out
}

/// reference size in bytes
pub fn size(d: &D) -> usize {
    match d {
        D::U8(_) | D::CheckU8(_) => 1,
        D::U16(..) | D::CheckU16(..) => 2,
        D::U32(..) | D::CheckU32(..) => 4,
        D::Bytes(b, _) | D::CheckBytes(b) => b.len(),
        D::Comp(f) => comp_size(f),
        D::Trame(t) => t.iter().map(size).sum(),
        D::OptU32(_, p) => {
            if *p {
                4
            } else {
                0
            }
        }
        D::OptU16(_, p) => {
            if *p {
                2
            } else {
                0
            }
        }
        D::Array(items, _) => items.iter().map(|f| comp_size(f)).sum(),
    }
}

pub fn comp_size(fields: &[Field]) -> usize {
    let e = emitted(fields);
    fields.iter().zip(e.iter()).filter(|(_, em)| **em).map(|(f, _)| size(&f.d)).sum()
}

/// reference encoding
pub fn encode(d: &D, out: &mut Vec<u8>) {
    match d {
        D::U8(v) | D::CheckU8(v) => out.push(*v),
        D::U16(v, le) | D::CheckU16(v, le) => out.extend_from_slice(&if *le { v.to_le_bytes() } else { v.to_be_bytes() }),
        D::U32(v, le) | D::CheckU32(v, le) => out.extend_from_slice(&if *le { v.to_le_bytes() } else { v.to_be_bytes() }),
        D::Bytes(b, _) | D::CheckBytes(b) => out.extend_from_slice(b),
        D::Comp(f) => encode_comp(f, out),
        D::Trame(t) => {
            for x in t {
                encode(x, out)
            }
        }
        D::OptU32(v, p) => {
            if *p {
                out.extend_from_slice(&v.to_le_bytes())
            }
        }
        D::OptU16(v, p) => {
            if *p {
                out.extend_from_slice(&v.to_le_bytes())
            }
        }
        D::Array(items, _) => {
            for f in items {
                encode_comp(f, out)
            }
        }
    }
}

pub fn encode_comp(fields: &[Field], out: &mut Vec<u8>) {
    let e = emitted(fields);
    for (f, em) in fields.iter().zip(e.iter()) {
        if *em {
            encode(&f.d, out);
        }
    }
}

pub fn leaves(d: &D, out: &mut Vec<Leaf>) {
    match d {
        D::U8(v) | D::CheckU8(v) => out.push(Leaf::U8(*v)),
        D::U16(v, _) | D::CheckU16(v, _) => out.push(Leaf::U16(*v)),
        D::U32(v, _) | D::CheckU32(v, _) => out.push(Leaf::U32(*v)),
        D::Bytes(b, _) | D::CheckBytes(b) => out.push(Leaf::Bytes(b.clone())),
        D::Comp(f) => comp_leaves(f, out),
        D::Trame(t) => {
            for x in t {
                leaves(x, out)
            }
        }
        D::OptU32(v, p) => out.push(if *p { Leaf::U32(*v) } else { Leaf::None }),
        D::OptU16(v, p) => out.push(if *p { Leaf::U16(*v) } else { Leaf::None }),
        D::Array(items, _) => {
            for f in items {
                comp_leaves(f, out)
            }
        }
    }
}

fn comp_leaves(fields: &[Field], out: &mut Vec<Leaf>) {
    let e = emitted(fields);
    for (f, em) in fields.iter().zip(e.iter()) {
        if *em {
            leaves(&f.d, out);
        }
    }
}

// ------------------------------------------------------------------------------------------ building library messages

fn u16m(v: u16, le: bool) -> U16 {
    if le {
        U16::LE(v)
    } else {
        U16::BE(v)
    }
}
fn u32m(v: u32, le: bool) -> U32 {
    if le {
        U32::LE(v)
    } else {
        U32::BE(v)
    }
}

fn with_rel_u8(v: u8, rel: &Rel) -> Box<dyn Message> {
    match rel.clone() {
        Rel::None => Box::new(v),
        Rel::SizeOf(t) => Box::new(DynOption::new(v, move |x| MessageOption::Size(t.clone(), *x as usize))),
        Rel::SkipIf(t, trig) => Box::new(DynOption::new(v, move |x| if *x as u32 == trig { MessageOption::SkipField(t.clone()) } else { MessageOption::None })),
    }
}
fn with_rel_u16(v: U16, rel: &Rel) -> Box<dyn Message> {
    match rel.clone() {
        Rel::None => Box::new(v),
        Rel::SizeOf(t) => Box::new(DynOption::new(v, move |x| MessageOption::Size(t.clone(), x.inner() as usize))),
        Rel::SkipIf(t, trig) => Box::new(DynOption::new(v, move |x| if x.inner() as u32 == trig { MessageOption::SkipField(t.clone()) } else { MessageOption::None })),
    }
}
fn with_rel_u32(v: U32, rel: &Rel) -> Box<dyn Message> {
    match rel.clone() {
        Rel::None => Box::new(v),
        Rel::SizeOf(t) => Box::new(DynOption::new(v, move |x| MessageOption::Size(t.clone(), x.inner() as usize))),
        Rel::SkipIf(t, trig) => Box::new(DynOption::new(v, move |x| if x.inner() == trig { MessageOption::SkipField(t.clone()) } else { MessageOption::None })),
    }
}

pub fn build(d: &D, rel: &Rel, empty: bool) -> Box<dyn Message> {
    match d {
        D::U8(v) => with_rel_u8(if empty { 0 } else { *v }, rel),
        D::U16(v, le) => with_rel_u16(u16m(if empty { 0 } else { *v }, *le), rel),
        D::U32(v, le) => with_rel_u32(u32m(if empty { 0 } else { *v }, *le), rel),
        D::Bytes(b, governed) => {
            if empty {
                if *governed {
                    Box::new(Vec::<u8>::new())
                } else {
                    Box::new(vec![0u8; b.len()])
                }
            } else {
                Box::new(b.clone())
            }
        }
        // constants are present in the written and in the empty message alike
        D::CheckU8(v) => Box::new(Check::new(*v)),
        D::CheckU16(v, le) => Box::new(Check::new(u16m(*v, *le))),
        D::CheckU32(v, le) => Box::new(Check::new(u32m(*v, *le))),
        D::CheckBytes(b) => Box::new(Check::new(b.clone())),
        D::Comp(f) => Box::new(build_comp(f, empty)),
        D::Trame(t) => {
            let mut tr = Trame::new();
            for x in t {
                tr.push(build(x, &Rel::None, empty));
            }
            Box::new(tr)
        }
        D::OptU32(v, p) => {
            if empty {
                Box::new(Some(U32::LE(0)))
            } else if *p {
                Box::new(Some(U32::LE(*v)))
            } else {
                Box::new(Option::<U32>::None)
            }
        }
        D::OptU16(v, p) => {
            if empty {
                Box::new(Some(U16::LE(0)))
            } else if *p {
                Box::new(Some(U16::LE(*v)))
            } else {
                Box::new(Option::<U16>::None)
            }
        }
        D::Array(items, proto) => {
            if empty {
                let proto: Vec<Field> = proto.clone();
                Box::new(Array::new(move || build_comp(&proto, true)))
            } else {
                let mut tr = Trame::new();
                for f in items {
                    tr.push(Box::new(build_comp(f, false)));
                }
                Box::new(Array::<Component>::from_trame(tr))
            }
        }
    }
}

pub fn build_comp(fields: &[Field], empty: bool) -> Component {
    let mut c = Component::new();
    for f in fields {
        c.insert(f.name.clone(), build(&f.d, &f.rel, empty));
    }
    c
}

/// walk a library message along the description and collect its leaves
pub fn collect(m: &dyn Message, d: &D, out: &mut Vec<Leaf>) {
    match d {
        D::U8(_) | D::CheckU8(_) => match m.visit() {
            DataType::U8(v) => out.push(Leaf::U8(v)),
            _ => out.push(Leaf::Bad("expected u8".into())),
        },
        D::U16(..) | D::CheckU16(..) => match m.visit() {
            DataType::U16(v) => out.push(Leaf::U16(v)),
            _ => out.push(Leaf::Bad("expected u16".into())),
        },
        D::U32(..) | D::CheckU32(..) => match m.visit() {
            DataType::U32(v) => out.push(Leaf::U32(v)),
            _ => out.push(Leaf::Bad("expected u32".into())),
        },
        D::Bytes(..) | D::CheckBytes(_) => match m.visit() {
            DataType::Slice(s) => out.push(Leaf::Bytes(s.to_vec())),
            _ => out.push(Leaf::Bad("expected bytes".into())),
        },
        D::Comp(f) => match m.visit() {
            DataType::Component(c) => collect_comp(c, f, out),
            _ => out.push(Leaf::Bad("expected component".into())),
        },
        D::Trame(t) => match m.visit() {
            DataType::Trame(tr) => {
                if tr.len() != t.len() {
                    out.push(Leaf::Bad(format!("trame of {} items, expected {}", tr.len(), t.len())));
                } else {
                    for (x, dx) in tr.iter().zip(t.iter()) {
                        collect(x.as_ref(), dx, out);
                    }
                }
            }
            _ => out.push(Leaf::Bad("expected trame".into())),
        },
        D::OptU32(..) => match m.visit() {
            DataType::U32(v) => out.push(Leaf::U32(v)),
            DataType::None => out.push(Leaf::None),
            _ => out.push(Leaf::Bad("expected optional u32".into())),
        },
        D::OptU16(..) => match m.visit() {
            DataType::U16(v) => out.push(Leaf::U16(v)),
            DataType::None => out.push(Leaf::None),
            _ => out.push(Leaf::Bad("expected optional u16".into())),
        },
        D::Array(items, _) => match m.visit() {
            DataType::Trame(tr) => {
                if tr.len() != items.len() {
                    out.push(Leaf::Bad(format!("array of {} elements, expected {}", tr.len(), items.len())));
                } else {
                    for (x, f) in tr.iter().zip(items.iter()) {
                        match x.visit() {
                            DataType::Component(c) => collect_comp(c, f, out),
                            _ => out.push(Leaf::Bad("array element is not a component".into())),
                        }
                    }
                }
            }
            _ => out.push(Leaf::Bad("expected array".into())),
        },
    }
}

fn collect_comp(c: &Component, fields: &[Field], out: &mut Vec<Leaf>) {
    let e = emitted(fields);
    for (f, em) in fields.iter().zip(e.iter()) {
        if !*em {
            continue;
        }
        match c.get(&f.name) {
            Some(m) => collect(m.as_ref(), &f.d, out),
            None => out.push(Leaf::Bad(format!("field {} missing", f.name))),
        }
    }
}

// ------------------------------------------------------------------------------------------ shape generator

pub struct Gen<'a> {
    pub r: &'a mut Rng,
    pub counter: usize,
}

impl<'a> Gen<'a> {
    fn name(&mut self) -> String {
        self.counter += 1;
        format!("f{}", self.counter)
    }
    fn int(&mut self) -> D {
        match self.r.below(5) {
            0 => D::U8(self.r.u8()),
            1 => D::U16(self.r.edge16(), true),
            2 => D::U16(self.r.edge16(), false),
            3 => D::U32(self.r.edge32(), true),
            _ => D::U32(self.r.edge32(), false),
        }
    }
    /// an integer field able to hold `v`
    /// length of a delimited / trailing byte block: small most of the time, sometimes at the edges of the
    /// 8-, 12- and 16-bit ranges and beyond (a block has no size limit of its own)
    fn blob_len(&mut self, small_max: u64) -> usize {
        if self.r.chance(1, 24) {
            *self.r.pick(&[127usize, 128, 255, 256, 257, 4095, 4096, 16383, 16384, 32767, 32768, 65534, 65535, 65536, 65537, 70000, 131072, 200001])
        } else {
            self.r.range(0, small_max) as usize
        }
    }
    fn int_holding(&mut self, v: usize) -> D {
        let le = self.r.chance(1, 2);
        if v < 256 && self.r.chance(1, 3) {
            D::U8(v as u8)
        } else if v < 65536 && self.r.chance(2, 3) {
            D::U16(v as u16, le)
        } else {
            D::U32(v as u32, le)
        }
    }
    fn leaf(&mut self) -> D {
        match self.r.below(10) {
            0..=4 => self.int(),
            5 | 6 => {
                let n = self.r.range(1, 24) as usize;
                D::Bytes(self.r.bytes(n), false)
            }
            7 => D::CheckU16(self.r.u16(), self.r.chance(1, 2)),
            8 => match self.r.below(3) {
                0 => D::CheckU8(self.r.u8()),
                1 => D::CheckU32(self.r.u32(), self.r.chance(1, 2)),
                _ => {
                    let n = self.r.range(1, 8) as usize;
                    D::CheckBytes(self.r.bytes(n))
                }
            },
            _ => D::U8(self.r.u8()),
        }
    }
    fn simple_record(&mut self, depth: usize) -> Vec<Field> {
        // records used as array elements / governed targets: self-delimiting, at least one byte
        let n = self.r.range(1, 4) as usize;
        let mut f = Vec::new();
        for _ in 0..n {
            let d = if depth > 0 && self.r.chance(1, 6) { D::Comp(self.simple_record(depth - 1)) } else { self.leaf() };
            f.push(Field { name: self.name(), d, rel: Rel::None });
        }
        if self.r.chance(1, 3) {
            // a size-governed block inside the element
            let n = self.r.range(0, 12) as usize;
            let tname = self.name();
            let sz = self.int_holding(n);
            f.push(Field { name: self.name(), d: sz, rel: Rel::SizeOf(tname.clone()) });
            f.push(Field { name: tname, d: D::Bytes(self.r.bytes(n), true), rel: Rel::None });
        }
        f
    }
    pub fn record(&mut self, depth: usize, width: usize) -> Vec<Field> {
        let n = self.r.range(1, width as u64) as usize;
        let mut f: Vec<Field> = Vec::new();
        while f.len() < n {
            match self.r.below(13) {
                12 => {
                    // two flags ahead of their two targets: both skips are pending at the same time
                    let (ta, tb) = (self.name(), self.name());
                    for t in [ta.clone(), tb.clone()].iter() {
                        let trig = self.r.below(2) as u32;
                        let val = if self.r.chance(2, 3) { trig } else { trig + 1 };
                        f.push(Field { name: self.name(), d: D::U8(val as u8), rel: Rel::SkipIf(t.clone(), trig) });
                    }
                    if self.r.chance(1, 3) {
                        let d = self.leaf();
                        f.push(Field { name: self.name(), d, rel: Rel::None });
                    }
                    let (da, db) = (self.leaf(), self.leaf());
                    f.push(Field { name: ta, d: da, rel: Rel::None });
                    f.push(Field { name: tb, d: db, rel: Rel::None });
                }
                0..=4 => {
                    let d = self.leaf();
                    f.push(Field { name: self.name(), d, rel: Rel::None });
                }
                5 if depth > 0 => {
                    let d = D::Comp(self.record(depth - 1, width));
                    f.push(Field { name: self.name(), d, rel: Rel::None });
                }
                6 if depth > 0 => {
                    let k = self.r.range(1, 4) as usize;
                    let items = (0..k).map(|_| if self.r.chance(1, 4) { D::Comp(self.simple_record(depth - 1)) } else { self.leaf() }).collect();
                    f.push(Field { name: self.name(), d: D::Trame(items), rel: Rel::None });
                }
                7 | 8 => {
                    // size field ... governed target (bytes, array, record), possibly with fields in between
                    let target: D = match self.r.below(4) {
                        0 | 1 => {
                            let n = match self.r.below(4) {
                                0 => 0,
                                _ => self.blob_len(40),
                            };
                            D::Bytes(self.r.bytes(n), true)
                        }
                        2 => {
                            let proto = self.simple_record(depth.saturating_sub(1));
                            let k = self.r.range(0, 4) as usize;
                            // same shape, fresh values
                            let items: Vec<Vec<Field>> = (0..k).map(|_| self.revalue(&proto)).collect();
                            D::Array(items, proto)
                        }
                        _ => D::Comp(self.simple_record(depth.saturating_sub(1))),
                    };
                    let tname = self.name();
                    // now and then an earlier field announces a size for the same target as well (as bitmapLength and
                    // cbCompMainBodySize both do for bitmapDataStream): the announcement read last is the one in force
                    if self.r.chance(1, 4) {
                        let extra = *self.r.pick(&[0usize, 1, 2, 8, 255]);
                        let first = self.int_holding(size(&target) + extra);
                        f.push(Field { name: self.name(), d: first, rel: Rel::SizeOf(tname.clone()) });
                        if self.r.chance(1, 2) {
                            let d = self.leaf();
                            f.push(Field { name: self.name(), d, rel: Rel::None });
                        }
                    }
                    // now and then the sized target is skippable as well: a flag ahead of the announcement may take it out
                    // (nothing is then emitted or consumed for it, whatever size was announced)
                    if self.r.chance(1, 4) {
                        let trig = self.r.below(3) as u32;
                        let val = if self.r.chance(1, 2) { trig } else { trig + 1 };
                        let flag = match self.r.below(3) {
                            0 => D::U8(val as u8),
                            1 => D::U16(val as u16, true),
                            _ => D::U32(val, true),
                        };
                        f.push(Field { name: self.name(), d: flag, rel: Rel::SkipIf(tname.clone(), trig) });
                    }
                    let sz = self.int_holding(size(&target));
                    f.push(Field { name: self.name(), d: sz, rel: Rel::SizeOf(tname.clone()) });
                    if self.r.chance(1, 3) {
                        let d = self.leaf();
                        f.push(Field { name: self.name(), d, rel: Rel::None });
                    }
                    f.push(Field { name: tname, d: target, rel: Rel::None });
                }
                9 | 10 => {
                    // flag ... skippable target; the target may itself carry a skip option (chains), and a flag
                    // may name an earlier field or itself
                    let trig = self.r.below(3) as u32;
                    let val = if self.r.chance(1, 2) { trig } else { trig + 1 };
                    let flag_name = self.name();
                    let tname = self.name();
                    let third = self.name();
                    let which = self.r.below(6);
                    let target_name = match which {
                        0 if !f.is_empty() => f[self.r.below(f.len() as u64) as usize].name.clone(), // backward
                        1 => flag_name.clone(),                                                     // self
                        _ => tname.clone(),
                    };
                    let flag = match self.r.below(3) {
                        0 => D::U8(val as u8),
                        1 => D::U16(val as u16, true),
                        _ => D::U32(val, true),
                    };
                    f.push(Field { name: flag_name, d: flag, rel: Rel::SkipIf(target_name, trig) });
                    // the target is itself a flag for a third field in half of the cases (skip chain)
                    if self.r.chance(1, 2) {
                        let t2 = self.r.below(2) as u32;
                        f.push(Field { name: tname, d: D::U8(t2 as u8), rel: Rel::SkipIf(third.clone(), t2) });
                        let d = self.leaf();
                        f.push(Field { name: third, d, rel: Rel::None });
                    } else {
                        let d = self.leaf();
                        f.push(Field { name: tname, d, rel: Rel::None });
                    }
                }
                _ => {
                    let d = self.int();
                    f.push(Field { name: self.name(), d, rel: Rel::None });
                }
            }
        }
        f
    }
    fn revalue(&mut self, proto: &[Field]) -> Vec<Field> {
        proto
            .iter()
            .map(|f| {
                let d = match &f.d {
                    D::U8(_) if matches!(f.rel, Rel::None) => D::U8(self.r.u8()),
                    D::U16(_, le) if matches!(f.rel, Rel::None) => D::U16(self.r.u16(), *le),
                    D::U32(_, le) if matches!(f.rel, Rel::None) => D::U32(self.r.u32(), *le),
                    D::Bytes(b, false) => D::Bytes(self.r.bytes(b.len()), false),
                    D::Comp(inner) => D::Comp(self.revalue(inner)),
                    other => other.clone(),
                };
                Field { name: f.name.clone(), d, rel: f.rel.clone() }
            })
            .collect()
    }
    /// a top-level message: a record, optionally ending with a non-self-delimiting tail
    pub fn message(&mut self) -> (Vec<Field>, bool) {
        let mut f = self.record(3, 8);
        let mut self_delimiting = true;
        match self.r.below(8) {
            0 => {
                let p = self.r.chance(1, 2);
                f.push(Field { name: self.name(), d: D::OptU32(self.r.u32(), p), rel: Rel::None });
                self_delimiting = false;
            }
            1 => {
                let p = self.r.chance(1, 2);
                f.push(Field { name: self.name(), d: D::OptU16(self.r.u16(), p), rel: Rel::None });
                self_delimiting = false;
            }
            2 => {
                // trailing unsized array
                let proto = self.simple_record(1);
                let k = self.r.range(0, 5) as usize;
                let items: Vec<Vec<Field>> = (0..k).map(|_| self.revalue(&proto)).collect();
                f.push(Field { name: self.name(), d: D::Array(items, proto), rel: Rel::None });
                self_delimiting = false;
            }
            3 => {
                // trailing read-to-end byte block
                let n = self.blob_len(30);
                f.push(Field { name: self.name(), d: D::Bytes(self.r.bytes(n), true), rel: Rel::None });
                self_delimiting = false;
            }
            _ => {}
        }
        (f, self_delimiting)
    }
}
