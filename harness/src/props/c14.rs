//! C14 — outbound frames are exact and completely delivered, or refused.
//! Oracle: adversarial stream (short writes per schedule, one injected fault at a byte position)
//! records every accepted byte; expected bytes come from the frame specification.

use crate::mon;
use crate::props::c13::cc_frame;
use crate::report::Report;
use crate::rng::{fnv, Rng};
use crate::transport::{AdversarialWriter, Fault};
use crate::{par_run, Cfg};
use rdp::core::tpkt;
use rdp::core::x224;
use rdp::model::link::{Link, Stream};
use serde_json::{json, Value};
use std::io::ErrorKind;

#[derive(Clone, Debug)]
pub struct Case {
    pub level: &'static str, // link | tpkt | x224
    pub lens: Vec<usize>,    // payload lengths of the successive messages written on ONE client
    pub caps: Vec<usize>,
    pub fault: Fault,
    pub fault_msg: usize, // index of the message during which the fault position is counted
    pub class: &'static str,
    pub seed: u64,
}

fn payload(seed: u64, i: usize, n: usize) -> Vec<u8> {
    // unique, position-dependent content so that dropped / duplicated / stale bytes are identifiable
    let mut v = Vec::with_capacity(n);
    let mut x = crate::rng::mix(seed ^ (i as u64) << 32);
    for k in 0..n {
        if k % 8 == 0 {
            x = crate::rng::mix(x);
        }
        v.push((x >> ((k % 8) * 8)) as u8);
    }
    v
}

fn expected_frame(level: &str, p: &[u8]) -> Option<Vec<u8>> {
    match level {
        "link" => Some(p.to_vec()),
        "tpkt" => {
            if p.len() + 4 > 65535 {
                return None;
            }
            let l = p.len() + 4;
            let mut v = vec![3, 0, (l >> 8) as u8, l as u8];
            v.extend_from_slice(p);
            Some(v)
        }
        _ => {
            if p.len() + 7 > 65535 {
                return None;
            }
            let l = p.len() + 7;
            let mut v = vec![3, 0, (l >> 8) as u8, l as u8, 2, 0xF0, 0x80];
            v.extend_from_slice(p);
            Some(v)
        }
    }
}

fn fault_json(f: &Fault) -> Value {
    match f {
        Fault::None => json!("none"),
        Fault::Error { at, kind, transient } => json!({"error_at": at, "kind": format!("{:?}", kind), "transient": transient}),
        Fault::Zero { at } => json!({"zero_at": at}),
    }
}

impl Case {
    fn to_json(&self) -> Value {
        json!({"level": self.level, "lens": self.lens, "caps": self.caps, "fault": fault_json(&self.fault), "fault_msg": self.fault_msg, "class": self.class, "seed": self.seed})
    }
}

enum Client {
    Link(Link<AdversarialWriter>),
    Tpkt(tpkt::Client<AdversarialWriter>),
    X224(x224::Client<AdversarialWriter>),
}

pub fn check_case(c: &Case, rep: &mut Report) {
    rep.eval();
    // the fault is armed only while message `fault_msg` is being written
    let inbound = if c.level == "x224" { cc_frame(0) } else { vec![] };
    let w = AdversarialWriter::new(c.caps.clone(), Fault::None, inbound);
    let probe = w.clone();
    let level = c.level;
    let mk = mon::guarded(move || -> Result<Client, String> {
        let link = Link::new(Stream::Raw(w));
        match level {
            "link" => Ok(Client::Link(link)),
            "tpkt" => Ok(Client::Tpkt(tpkt::Client::new(link))),
            _ => match x224::Client::connect(tpkt::Client::new(link), 0, false, None, false, false) {
                Ok(x) => Ok(Client::X224(x)),
                Err(e) => Err(format!("{:?}", e)),
            },
        }
    });
    let mut client = match mk {
        Ok(Ok(c)) => c,
        Ok(Err(e)) => {
            rep.selfcheck_fail(format!("could not build client at level {}: {}", level, e));
            return;
        }
        Err(p) => {
            rep.selfcheck_fail(format!("panic while building client: {}", p.msg));
            return;
        }
    };
    probe.take_accepted(); // drop the connection request the x224 level wrote
    let mut viol: Vec<(String, String)> = Vec::new();
    let lens_desc = if c.lens.len() <= 12 { format!("{:?}", c.lens) } else { format!("[{} messages, the first {:?}]", c.lens.len(), &c.lens[..6]) };
    for (i, n) in c.lens.iter().enumerate() {
        // a message is either a plain byte block or, in the structured class, a record of the library's message model
        // (sized, optional and skipped fields): its frame must carry the bytes the reference encoder gives for it
        let (p, comp): (Vec<u8>, Option<rdp::model::data::Component>) = if c.class == "structured-messages" {
            let mut r = Rng::derive(c.seed, "C14-struct", i as u64, *n as u64);
            let mut g = crate::props::c18a::Gen { r: &mut r, counter: 0 };
            let (fields, _) = g.message();
            let mut want = Vec::new();
            crate::props::c18a::encode_comp(&fields, &mut want);
            (want, Some(crate::props::c18a::build_comp(&fields, false)))
        } else {
            (payload(c.seed, i, *n), None)
        };
        let exp = expected_frame(level, &p);
        let fault_here = i == c.fault_msg && c.fault != Fault::None;
        probe.set_fault(if fault_here { c.fault } else { Fault::None });
        {
            let mut s = probe.0.lock().unwrap();
            s.fault_fired = 0;
            s.accepted.clear();
        }
        let pc = p.clone();
        let cl = &mut client;
        let res = mon::guarded(move || match (cl, comp) {
            (Client::Link(l), None) => l.write(&pc).map_err(|e| format!("{:?}", e)),
            (Client::Tpkt(t), None) => t.write(pc).map_err(|e| format!("{:?}", e)),
            (Client::X224(x), None) => x.write(pc).map_err(|e| format!("{:?}", e)),
            (Client::Link(l), Some(m)) => l.write(&m).map_err(|e| format!("{:?}", e)),
            (Client::Tpkt(t), Some(m)) => t.write(m).map_err(|e| format!("{:?}", e)),
            (Client::X224(x), Some(m)) => x.write(m).map_err(|e| format!("{:?}", e)),
        });
        let got = probe.accepted();
        let fired = probe.fault_fired();
        let what = format!("message {} of {} (payload {} bytes)", i, lens_desc, n);
        match res {
            Err(pn) => {
                rep.hist("panic");
                viol.push((format!("C14/{}/{}", level, pn.sig()), format!("{}: {} at {}:{}", what, pn.msg, pn.file, pn.line)));
                break;
            }
            Ok(Ok(())) => match &exp {
                None => {
                    rep.hist("oversize-accepted");
                    let hdr = if got.len() >= 4 { ((got[2] as usize) << 8) | got[3] as usize } else { 0 };
                    viol.push((format!("C14/{}/oversize-not-refused", level), format!("{}: does not fit a 16-bit frame length but write returned Ok; {} bytes emitted under header length {}", what, got.len(), hdr)));
                    break;
                }
                Some(e) => {
                    // an error the stream reported (anything but an interrupted call, which is to be repeated) or a write
                    // that made no progress must come back as an error, even if a second attempt then delivered everything
                    let must_report = fired > 0 && fault_here && (matches!(c.fault, Fault::Zero { .. }) || matches!(c.fault, Fault::Error { kind, .. } if kind != ErrorKind::Interrupted));
                    if must_report && &got == e {
                        rep.hist("error-swallowed");
                        viol.push((format!("C14/{}/transport-error-swallowed", level), format!("{}: the stream reported {} but write returned Ok (the frame was then delivered whole by a second attempt)", what, fault_json(&c.fault))));
                        break;
                    } else if &got == e {
                        rep.hist("ok-exact");
                    } else if must_report {
                        rep.hist("error-swallowed");
                        viol.push((format!("C14/{}/transport-error-swallowed", level), format!("{}: the stream reported {} but write returned Ok with {} of {} bytes delivered", what, fault_json(&c.fault), got.len(), e.len())));
                        break;
                    } else if got.len() < e.len() && got[..] == e[..got.len()] {
                        rep.hist("ok-incomplete");
                        viol.push((format!("C14/{}/incomplete-delivery", level), format!("{}: write returned Ok but only {} of {} bytes reached the stream (caps {:?}, fault {})", what, got.len(), e.len(), &c.caps[..c.caps.len().min(5)], fault_json(&c.fault))));
                        break;
                    } else {
                        rep.hist("ok-wrong-bytes");
                        let d = got.iter().zip(e.iter()).position(|(a, b)| a != b);
                        viol.push((format!("C14/{}/wrong-bytes", level), format!("{}: emitted {} bytes, expected {}; first difference at {:?}", what, got.len(), e.len(), d)));
                        break;
                    }
                }
            },
            Ok(Err(e)) => {
                if exp.is_none() {
                    rep.hist("oversize-refused");
                    if !got.is_empty() {
                        viol.push((format!("C14/{}/oversize-partially-sent", level), format!("{}: refused but {} bytes were emitted", what, got.len())));
                    }
                } else if fired > 0 {
                    rep.hist("fault-reported");
                } else {
                    rep.hist("spurious-error");
                    viol.push((format!("C14/{}/spurious-error", level), format!("{}: no fault injected but write returned Err({})", what, e)));
                }
                // a refusal that consumed nothing (the fault sat at the first byte of the frame) leaves the stream at a
                // frame boundary: the application may go on, and the next frame must again be exact or refused.
                // After any other error the connection is dead: stop the sequence.
                if fired > 0 && got.is_empty() && exp.is_some() {
                    rep.hist("went-on-after-a-refused-frame");
                    continue;
                }
                // the same holds for a message refused for its size before anything was emitted: the application may
                // try it again, or send something else
                if exp.is_none() && got.is_empty() {
                    rep.hist("went-on-after-a-refused-oversize-message");
                    continue;
                }
                break;
            }
        }
    }
    let mut hv = Vec::new();
    for l in &c.lens {
        hv.extend_from_slice(&(*l as u32).to_le_bytes());
    }
    for s in c.caps.iter().take(16) {
        hv.extend_from_slice(&(*s as u32).to_le_bytes());
    }
    hv.extend_from_slice(format!("{:?}{}{}", c.fault, c.fault_msg, c.level).as_bytes());
    rep.nontrivial(fnv(&hv));
    rep.set("classes", c.class.to_string());
    rep.set("cap_schedules", format!("{:?}", &c.caps[..c.caps.len().min(5)]));
    if rep.want_sample() {
        let j = c.to_json();
        rep.sample(|| j);
    }
    for (sig, detail) in viol {
        rep.violation(sig, detail, c.to_json());
    }
}

/// the client's side of an in-memory TLS session: what the client writes is fed to the reference TLS server, whose
/// plaintext output is what "reached the peer"
struct TlsSink(std::sync::Arc<std::sync::Mutex<(crate::tls::TlsServer, std::collections::VecDeque<u8>, Vec<u8>)>>);

impl std::fmt::Debug for TlsSink {
    fn fmt(&self, f: &mut std::fmt::Formatter) -> std::fmt::Result {
        write!(f, "TlsSink")
    }
}

impl std::io::Read for TlsSink {
    fn read(&mut self, buf: &mut [u8]) -> std::io::Result<usize> {
        let mut g = self.0.lock().unwrap();
        let n = buf.len().min(g.1.len());
        for b in buf.iter_mut().take(n) {
            *b = g.1.pop_front().unwrap();
        }
        Ok(n)
    }
}

impl std::io::Write for TlsSink {
    fn write(&mut self, buf: &[u8]) -> std::io::Result<usize> {
        let mut g = self.0.lock().unwrap();
        let (plain, reply) = g.0.feed(buf);
        g.2.extend_from_slice(&plain);
        g.1.extend(reply.iter());
        Ok(buf.len())
    }
    fn flush(&mut self) -> std::io::Result<()> {
        Ok(())
    }
}

fn tls_len(k: u64, r: &mut Rng) -> usize {
    // sizes either side of one, two, three and four TLS records (16384 bytes of plaintext each) once the frame header is
    // counted, the largest frame, ordinary sizes
    match k % 8 {
        0 => 16384 - 8 + r.below(16) as usize,
        1 => 2 * 16384 - 8 + r.below(16) as usize,
        2 => 3 * 16384 - 8 + r.below(16) as usize,
        3 => 65531 - r.below(12) as usize,
        4 => r.range(16385, 65531) as usize,
        5 => r.range(0, 300) as usize,
        6 => 4 * 16384 - 16 + r.below(11) as usize,
        _ => r.range(0, 20000) as usize,
    }
}

/// class 6: the same frames through the TLS arm of the link (what every real session uses after the negotiation):
/// the plaintext the TLS peer obtains must be exactly the frames written, whatever their size relative to a TLS record
pub fn check_tls_case(idx: u64, seed: u64, rep: &mut Report) {
    rep.eval();
    let mut r = Rng::derive(seed, "C14-tls", 6, idx);
    let level = if idx % 2 == 0 { "tpkt" } else { "link" };
    let tls12 = r.chance(1, 2);
    let shared = std::sync::Arc::new(std::sync::Mutex::new((crate::tls::TlsServer::new(&crate::tls::identity(0), tls12), std::collections::VecDeque::new(), Vec::new())));
    let sink = TlsSink(shared.clone());
    let n = r.range(1, 4) as usize;
    let lens: Vec<usize> = (0..n).map(|i| tls_len(idx / 2 + i as u64 * 3, &mut r)).collect();
    let replay = json!({"class": "over-tls", "idx": idx, "seed": seed, "level": level, "lens": lens, "tls12_only": tls12});
    let built = mon::guarded(move || -> Result<Client2, String> {
        let link = Link::new(Stream::Raw(sink)).start_ssl(false).map_err(|e| format!("{:?}", e))?;
        if level == "tpkt" {
            Ok(Client2::Tpkt(tpkt::Client::new(link)))
        } else {
            Ok(Client2::Link(link))
        }
    });
    let mut client = match built {
        Ok(Ok(c)) => c,
        Ok(Err(e)) => {
            rep.selfcheck_fail(format!("TLS session with the reference server could not be set up: {}", e));
            return;
        }
        Err(p) => {
            rep.selfcheck_fail(format!("panic while setting up the TLS session: {}", p.msg));
            return;
        }
    };
    shared.lock().unwrap().2.clear();
    for (i, n) in lens.iter().enumerate() {
        let p = payload(seed ^ idx, i, *n);
        let exp = expected_frame(if level == "tpkt" { "tpkt" } else { "link" }, &p).unwrap_or_default();
        let pc = p.clone();
        let cl = &mut client;
        let res = mon::guarded(move || match cl {
            Client2::Link(l) => l.write(&pc).map_err(|e| format!("{:?}", e)),
            Client2::Tpkt(t) => t.write(pc).map_err(|e| format!("{:?}", e)),
        });
        let got = std::mem::take(&mut shared.lock().unwrap().2);
        let what = format!("message {} of {:?} (payload {} bytes) over TLS{}", i, lens, n, if tls12 { " 1.2" } else { "" });
        match res {
            Err(pn) => {
                rep.violation(format!("C14/tls-{}/{}", level, pn.sig()), format!("{}: {} at {}:{}", what, pn.msg, pn.file, pn.line), replay.clone());
                break;
            }
            Ok(Ok(())) => {
                if got == exp {
                    rep.hist("tls-ok-exact");
                    rep.hist(&format!("tls-records-{}", (exp.len() + 16383) / 16384));
                } else if got.len() < exp.len() && got[..] == exp[..got.len()] {
                    rep.violation(format!("C14/tls-{}/incomplete-delivery", level), format!("{}: write returned Ok but the TLS peer obtained only {} of {} bytes", what, got.len(), exp.len()), replay.clone());
                    break;
                } else {
                    let d = got.iter().zip(exp.iter()).position(|(a, b)| a != b);
                    rep.violation(format!("C14/tls-{}/wrong-bytes", level), format!("{}: the TLS peer obtained {} bytes, expected {}; first difference at {:?}", what, got.len(), exp.len(), d), replay.clone());
                    break;
                }
            }
            Ok(Err(e)) => {
                rep.violation(format!("C14/tls-{}/spurious-error", level), format!("{}: no fault injected but write returned Err({})", what, e), replay.clone());
                break;
            }
        }
    }
    rep.nontrivial(fnv(format!("tls{:?}{}{}", lens, level, tls12).as_bytes()));
    rep.set("classes", "over-tls".to_string());
}

enum Client2 {
    Link(Link<TlsSink>),
    Tpkt(tpkt::Client<TlsSink>),
}

fn caps_for(r: &mut Rng, k: u64) -> Vec<usize> {
    match k % 8 {
        0 => vec![usize::MAX],
        1 => vec![r.range(1, 16) as usize],
        2 => (0..r.range(2, 10)).map(|_| r.range(1, 2000) as usize).collect(),
        3 => vec![1],
        4 => {
            // shrinking to 1
            let mut v = vec![4096usize, 512, 64, 8, 3, 1];
            v.extend(std::iter::repeat(1).take(4));
            v
        }
        5 => vec![r.range(1, 7) as usize, 70000],
        6 => vec![3, 1, 2],
        _ => vec![r.range(16, 1500) as usize],
    }
}

const KINDS: [ErrorKind; 6] = [ErrorKind::Other, ErrorKind::BrokenPipe, ErrorKind::ConnectionReset, ErrorKind::WouldBlock, ErrorKind::TimedOut, ErrorKind::Interrupted];

const LEVELS: [&str; 3] = ["link", "tpkt", "x224"];

fn boundary_len(idx: u64, r: &mut Rng) -> usize {
    // 0..=300, 65500..=65600, powers of two +-2, then random up to 70000
    let i = idx as usize;
    if i <= 300 {
        return i;
    }
    if i <= 401 {
        return 65500 + (i - 301);
    }
    let j = i - 402;
    if j < 17 * 5 {
        let p = 1usize << (j / 5);
        return (p + (j % 5)).saturating_sub(2).min(70000);
    }
    r.range(0, 70000) as usize
}

pub fn make_case(class: u64, idx: u64, seed: u64, quick: bool) -> Case {
    let mut r = Rng::derive(seed, "C14", class, idx);
    match class {
        0 => {
            // length sweep, no fault, short-write schedules
            let level = LEVELS[(idx % 3) as usize];
            let li = idx / 3;
            let len = if quick { boundary_len(li, &mut r) } else { (li % 70001) as usize };
            let mut caps = caps_for(&mut r, idx / 7);
            if len > 4000 && caps.iter().all(|c| *c < 8) {
                caps.push(5000);
            }
            Case { level, lens: vec![len], caps, fault: Fault::None, fault_msg: 0, class: "length-sweep", seed }
        }
        1 => {
            // fault at every byte position of small frames
            let level = LEVELS[(idx % 3) as usize];
            let k = idx / 3;
            let len = (k % 64) as usize * if r.chance(1, 4) { 8 } else { 1 };
            let frame_len = len + match level {
                "link" => 0,
                "tpkt" => 4,
                _ => 7,
            };
            let at = ((k / 64) as usize) % (frame_len + 1);
            let kind = KINDS[r.below(KINDS.len() as u64) as usize];
            let fault = if r.chance(1, 5) { Fault::Zero { at } } else { Fault::Error { at, kind, transient: kind == ErrorKind::Interrupted || r.chance(1, 3) } };
            Case { level, lens: vec![len], caps: caps_for(&mut r, idx / 11), fault, fault_msg: 0, class: "fault-at-every-position", seed }
        }
        2 => {
            // sampled fault positions in larger frames
            let level = LEVELS[(idx % 3) as usize];
            let len = r.range(513, 66000) as usize;
            let at = r.below(len as u64 + 8) as usize;
            let kind = KINDS[r.below(KINDS.len() as u64) as usize];
            let fault = if r.chance(1, 5) { Fault::Zero { at } } else { Fault::Error { at, kind, transient: kind == ErrorKind::Interrupted || r.chance(1, 3) } };
            let mut caps = caps_for(&mut r, idx / 5);
            if caps.iter().all(|c| *c < 8) {
                caps.push(3000);
            }
            Case { level, lens: vec![len], caps, fault, fault_msg: 0, class: "fault-sampled", seed }
        }
        5 => {
            // refused sizes inside a sequence on one client: the same refused size again (a retry), another refused size,
            // sizes on both sides of the limit, ordinary messages before and after
            let level = LEVELS[1 + (idx % 2) as usize];
            let limit = if level == "tpkt" { 65531usize } else { 65528 };
            let over = |r: &mut Rng| match r.below(5) {
                0 => limit + 1,
                1 => limit + 1 + r.below(8) as usize,
                2 => 65536,
                3 => 70000,
                _ => r.range(limit as u64 + 1, 70000) as usize,
            };
            let small = |r: &mut Rng| match r.below(4) {
                0 => 0,
                1 => limit,
                2 => r.range(0, 300) as usize,
                _ => limit - r.below(4) as usize,
            };
            let a = over(&mut r);
            let lens = match (idx / 2) % 6 {
                0 => vec![a, a],
                1 => vec![small(&mut r), a, a, small(&mut r)],
                2 => vec![a, over(&mut r), a],
                3 => vec![a, small(&mut r), a, a],
                4 => vec![a, a, a, small(&mut r)],
                _ => vec![small(&mut r), a, small(&mut r), a, over(&mut r), small(&mut r)],
            };
            Case { level, lens, caps: caps_for(&mut r, idx / 12), fault: Fault::None, fault_msg: 0, class: "refused-sizes-in-sequence", seed }
        }
        4 => {
            // records of the message model instead of byte blocks, several on one client
            let level = LEVELS[(idx % 3) as usize];
            let n = r.range(1, 4) as usize;
            let lens: Vec<usize> = (0..n).map(|_| r.range(0, 1 << 30) as usize).collect();
            Case { level, lens, caps: caps_for(&mut r, idx / 3), fault: Fault::None, fault_msg: 0, class: "structured-messages", seed }
        }
        _ => {
            // several messages of varying size on ONE client (stale state between messages), optional late fault
            let level = LEVELS[(idx % 3) as usize];
            // now and then more messages on one client than a 16-bit counter holds (quick: once in 20 000 cases)
            let n = if idx % 20_000 == 19_999 { 65_536 + r.range(1, 300) as usize } else { r.range(2, 6) as usize };
            let lens: Vec<usize> = (0..n)
                .map(|_| match r.below(5) {
                    0 => 0,
                    1 => r.range(0, 8) as usize,
                    2 => r.range(0, 300) as usize,
                    3 => r.range(0, 5000) as usize,
                    _ => r.range(0, 40) as usize,
                })
                .collect();
            let fault_msg = r.below(n as u64) as usize;
            let fault = if r.chance(1, 3) {
                let at = if r.chance(1, 2) { 0 } else { r.below(lens[fault_msg] as u64 + 8) as usize };
                let kind = KINDS[r.below(KINDS.len() as u64) as usize];
                Fault::Error { at, kind, transient: kind == ErrorKind::Interrupted || r.chance(1, 3) }
            } else {
                Fault::None
            };
            Case { level, lens, caps: caps_for(&mut r, idx / 3), fault, fault_msg, class: "message-sequences", seed }
        }
    }
}

pub fn run(cfg: &Cfg) -> Report {
    let seed = cfg.seed;
    let quick = cfg.quick();
    let mut total = Report::new();
    let plan: Vec<(u64, u64)> = vec![
        (0, if quick { 3 * 900 } else { 3 * 70001 }),
        (1, cfg.n(3 * 64 * 400, 3 * 64 * 20000)),
        (2, cfg.n(20_000, 3_000_000)),
        (3, cfg.n(400_000, 50_000_000)),
        (4, cfg.n(60_000, 3_000_000)),
        (5, cfg.n(1_200, 100_000)),
        (6, cfg.n(240, 40_000)),
    ];
    for (class, n) in plan {
        if !cfg.wants(class) {
            continue;
        }
        let rep = par_run(cfg, n, 64, |idx, rep| {
            mon::begin_case(14, class, idx, seed);
            if class == 6 {
                check_tls_case(idx, seed, rep);
                return;
            }
            let c = make_case(class, idx, seed, quick);
            check_case(&c, rep);
        });
        total.count(&format!("cases_class_{}", class), n);
        total.merge(rep);
    }
    total
}

pub fn replay(cfg: &Cfg, v: &Value) -> Report {
    let mut rep = Report::new();
    mon::set_quiet(false);
    if let Some(a) = v.get("death_case") {
        let a: Vec<u64> = a.as_array().unwrap().iter().map(|x| x.as_u64().unwrap()).collect();
        if a[1] == 6 {
            check_tls_case(a[2], a[3], &mut rep);
            return rep;
        }
        let c = make_case(a[1], a[2], a[3], cfg.quick());
        check_case(&c, &mut rep);
        return rep;
    }
    if v["class"] == "over-tls" {
        check_tls_case(v["idx"].as_u64().unwrap_or(0), v["seed"].as_u64().unwrap_or(1), &mut rep);
        return rep;
    }
    let level: &'static str = match v["level"].as_str().unwrap_or("") {
        "link" => "link",
        "tpkt" => "tpkt",
        _ => "x224",
    };
    let f = &v["fault"];
    let fault = if f.is_string() {
        Fault::None
    } else if let Some(z) = f.get("zero_at") {
        Fault::Zero { at: z.as_u64().unwrap() as usize }
    } else {
        let kind = match f["kind"].as_str().unwrap_or("") {
            "BrokenPipe" => ErrorKind::BrokenPipe,
            "ConnectionReset" => ErrorKind::ConnectionReset,
            "WouldBlock" => ErrorKind::WouldBlock,
            "TimedOut" => ErrorKind::TimedOut,
            "Interrupted" => ErrorKind::Interrupted,
            _ => ErrorKind::Other,
        };
        Fault::Error { at: f["error_at"].as_u64().unwrap() as usize, kind, transient: f["transient"].as_bool().unwrap_or(false) }
    };
    let c = Case {
        level,
        lens: v["lens"].as_array().unwrap().iter().map(|x| x.as_u64().unwrap() as usize).collect(),
        caps: v["caps"].as_array().unwrap().iter().map(|x| x.as_u64().unwrap_or(u64::MAX) as usize).collect(),
        fault,
        fault_msg: v["fault_msg"].as_u64().unwrap_or(0) as usize,
        class: if v["class"] == "structured-messages" { "structured-messages" } else { "replay" },
        seed: v["seed"].as_u64().unwrap_or(1),
    };
    check_case(&c, &mut rep);
    rep
}
