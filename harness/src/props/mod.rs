use crate::report::Report;
use crate::Cfg;
use serde_json::Value;

pub mod c01;
pub mod c02;
pub mod c03;
pub mod c04;
pub mod c05;
pub mod c06;
pub mod c07;
pub mod c08;
pub mod c09;
pub mod c10;
pub mod c11;
pub mod c12;
pub mod c13;
pub mod c14;
pub mod c15;
pub mod c16;
pub mod c17;
pub mod c18;
pub mod c18a;

pub fn run(cfg: &Cfg) -> Option<Report> {
    Some(match cfg.prop.as_str() {
        "C01" => c01::run(cfg),
        "C02" => c02::run(cfg),
        "C03" => c03::run(cfg),
        "C04" => c04::run(cfg),
        "C05" => c05::run(cfg),
        "C06" => c06::run(cfg),
        "C07" => c07::run(cfg),
        "C08" => c08::run(cfg),
        "C09" => c09::run(cfg),
        "C10" => c10::run(cfg),
        "C11" => c11::run(cfg),
        "C12" => c12::run(cfg),
        "C13" => c13::run(cfg),
        "C14" => c14::run(cfg),
        "C15" => c15::run(cfg),
        "C16" => c16::run(cfg),
        "C17" => c17::run(cfg),
        "C18" => c18::run(cfg),
        _ => return None,
    })
}

pub fn replay(cfg: &Cfg, case: &Value) -> Option<Report> {
    Some(match cfg.prop.as_str() {
        "C01" => c01::replay(cfg, case),
        "C02" => c02::replay(cfg, case),
        "C03" => c03::replay(cfg, case),
        "C04" => c04::replay(cfg, case),
        "C05" => c05::replay(cfg, case),
        "C06" => c06::replay(cfg, case),
        "C07" => c07::replay(cfg, case),
        "C08" => c08::replay(cfg, case),
        "C09" => c09::replay(cfg, case),
        "C10" => c10::replay(cfg, case),
        "C11" => c11::replay(cfg, case),
        "C12" => c12::replay(cfg, case),
        "C13" => c13::replay(cfg, case),
        "C14" => c14::replay(cfg, case),
        "C15" => c15::replay(cfg, case),
        "C16" => c16::replay(cfg, case),
        "C17" => c17::replay(cfg, case),
        "C18" => c18::replay(cfg, case),
        _ => return None,
    })
}
