//! C06 — hostile server bytes during an active session never crash the client.
//! Same monitors as C05; the client is first driven to each of its six activation states, then the
//! next server PDU is faulted.

use crate::client::{self, Client};
use crate::fault::{self, Mutant};
use crate::mon;
use crate::props::c05::{alloc_violation, Observed};
use crate::refs::build::B;
use crate::refs::proto::{self, Profile, Rect};
use crate::report::Report;
use crate::rng::{fnv, hex, unhex, Rng};
use crate::server::Wrap;
use crate::session::{self, Session};
use crate::{par_run, Cfg};
use rdp::core::tpkt;
use serde_json::{json, Value};
use std::io::Cursor;

pub const STATES: [&str; 6] = ["await-demand", "await-sync", "await-cooperate", "await-granted", "await-fontmap", "active"];

pub const KINDS: [&str; 25] = [
    "demand-active",
    "demand-active-descriptor-utf8",
    "demand-active-descriptor-ff",
    "demand-active-descriptor-long",
    "fp-palette",
    "fp-every-update-code",
    "synchronize",
    "control-cooperate",
    "control-granted",
    "font-map",
    "set-error-info",
    "deactivate-all",
    "unknown-data",
    "multi-pdu",
    "fp-bitmap",
    "fp-bitmap-comprhdr",
    "fp-colour-pointer",
    "fp-mixed",
    "fp-unknown",
    // PDUs a conforming server never sends but a hostile one can: client-to-server types echoed back, other known types
    "confirm-active-echo",
    "fontlist-echo",
    "input-echo",
    "server-redirect",
    "data-type2-sweep-a",
    "data-type2-sweep-b",
];

/// every pduType2 value the client's enum lists, plus neighbours
pub const TYPE2: [u8; 28] = [0x02, 0x14, 0x1B, 0x1C, 0x1F, 0x21, 0x22, 0x23, 0x24, 0x25, 0x26, 0x27, 0x28, 0x29, 0x2B, 0x2C, 0x2D, 0x2E, 0x2F, 0x30, 0x31, 0x32, 0x36, 0x37, 0x00, 0x01, 0x38, 0xFF];

/// payloads made of several share-control PDUs: every ordered pair and triple over this set
pub const MULTI: [&str; 6] = ["set-error-info", "deactivate-all", "synchronize", "demand-active", "font-map", "unknown-data"];

pub fn build_kind(p: &Profile, kind: &str, sid: u32) -> (B, Wrap) {
    match kind {
        "demand-active" => (proto::demand_active(p, sid), Wrap::Sdi),
        "demand-active-descriptor-utf8" | "demand-active-descriptor-ff" | "demand-active-descriptor-long" => {
            // free text of other lengths and contents than Windows' "RDP\0"
            let mut p2 = p.clone();
            p2.source_descriptor = match kind {
                "demand-active-descriptor-utf8" => {
                    let mut v = vec![b'a'; 31];
                    v.extend_from_slice("\u{e9}\u{4e2d}\u{1f511}xyz".as_bytes());
                    v
                }
                "demand-active-descriptor-ff" => {
                    let mut v = vec![b'b'; 30];
                    v.extend_from_slice(&[0xff, 0xfe, 0x80, 0xc3]);
                    v
                }
                _ => "\u{e9}".as_bytes().iter().cycle().take(600).cloned().collect(),
            };
            (proto::demand_active(&p2, sid), Wrap::Sdi)
        }
        "fp-palette" => {
            // fast-path palette update: updateType 2, pad, numberColors, 3 bytes per entry
            let mut d = B::new();
            d.u16le("pal.updateType", 2).u16le("pal.pad2Octets", 0).u32le("pal.numberColors", 4).bytes("pal.entries", &[1, 2, 3, 4, 5, 6, 7, 8, 9, 10, 11, 12]);
            (proto::fp_update(2, &d), Wrap::FastPath { sec: 0, long: false })
        }
        "fp-every-update-code" => {
            // one update of every code 0..15 with a small plausible body, in one PDU
            let mut b = B::new();
            for code in 0u8..16 {
                if code == 1 {
                    continue;
                }
                let mut d = B::new();
                d.u16le(&format!("u{}.a", code), code as u16).u16le(&format!("u{}.b", code), 0).u32le(&format!("u{}.n", code), 1).bytes(&format!("u{}.rest", code), &[0, 0, 0, 0]);
                b.nest(&format!("upd{}", code), &proto::fp_update(code, &d));
            }
            (b, Wrap::FastPath { sec: 0, long: true })
        }
        "synchronize" => (proto::synchronize(p, sid, p.user_id), Wrap::Sdi),
        "control-cooperate" => (proto::control(p, sid, 4, 0, 0), Wrap::Sdi),
        "control-granted" => (proto::control(p, sid, 2, p.user_id, 0x3ea), Wrap::Sdi),
        "font-map" => (proto::font_map(p, sid), Wrap::Sdi),
        "set-error-info" => (proto::set_error_info(p, sid, 5), Wrap::Sdi),
        "deactivate-all" => (proto::deactivate_all(p, sid), Wrap::Sdi),
        "unknown-data" => (proto::other_data_pdu(p, sid, 0x26, &[1, 2, 3, 4, 5, 6, 7, 8]), Wrap::Sdi),
        "multi-pdu" => {
            let mut b = B::new();
            b.nest("a", &proto::set_error_info(p, sid, 1));
            b.nest("b", &proto::synchronize(p, sid, 1));
            b.nest("c", &proto::other_data_pdu(p, sid, 0x26, &[0u8; 8]));
            (b, Wrap::Sdi)
        }
        "fp-bitmap" => {
            let rects = vec![
                Rect { left: 0, top: 0, right: 3, bottom: 1, width: 4, height: 2, bpp: 16, flags: 0, data: vec![0x11; 16] },
                Rect { left: 4, top: 0, right: 7, bottom: 1, width: 4, height: 2, bpp: 32, flags: 0x0401, data: vec![0x10, 0x22, 0x33] },
            ];
            (proto::fp_update(1, &proto::bitmap_update_body(&rects)), Wrap::FastPath { sec: 0, long: false })
        }
        "fp-bitmap-comprhdr" => {
            let rects = vec![Rect { left: 0, top: 0, right: 3, bottom: 1, width: 4, height: 2, bpp: 16, flags: 0x0001, data: vec![0xC8, 0x34, 0x12, 0xF0, 1, 0] }];
            (proto::fp_update(1, &proto::bitmap_update_body(&rects)), Wrap::FastPath { sec: 0, long: true })
        }
        "fp-colour-pointer" => {
            let mut d = B::new();
            d.u16le("cacheIndex", 1).u32le("hotSpot", 0).u16le("width", 2).u16le("height", 2).u16le("lengthAndMask", 4).u16le("lengthXorMask", 12).bytes("xor", &[9; 12]).bytes("and", &[8; 4]).u8("pad", 0);
            (proto::fp_update(9, &d), Wrap::FastPath { sec: 0, long: false })
        }
        "fp-mixed" => {
            let mut b = B::new();
            b.nest("u0", &proto::fp_update(3, &B::new()));
            b.nest("u1", &proto::fp_update(1, &proto::bitmap_update_body(&[Rect { left: 1, top: 1, right: 2, bottom: 2, width: 2, height: 2, bpp: 16, flags: 0, data: vec![7; 8] }])));
            b.nest("u2", &proto::fp_update(5, &B::new()));
            let mut pos = B::new();
            pos.u16le("x", 10).u16le("y", 10);
            b.nest("u3", &proto::fp_update(8, &pos));
            (b, Wrap::FastPath { sec: 0, long: false })
        }
        "fp-unknown" => {
            let mut d = B::new();
            d.bytes("data", &[1, 2, 3, 4, 5]);
            (proto::fp_update(0xC, &d), Wrap::FastPath { sec: 0, long: false })
        }
        "confirm-active-echo" => {
            // what the client itself sends, echoed by the server (well formed, originatorId 0x03EA)
            let caps = proto::capability_sets(&p.caps[..p.caps.len().min(4)]);
            let mut body = B::new();
            body.u32le("ca.shareId", sid).u16le("ca.originatorId", 0x03EA).u16le("ca.lengthSourceDescriptor", 4).u16le("ca.lengthCombinedCapabilities", (caps.len() + 4) as u16).bytes("ca.sourceDescriptor", b"RDP\0").u16le("ca.numberCapabilities", p.caps.len().min(4) as u16).u16le("ca.pad", 0);
            body.nest("caps", &caps);
            (proto::share_control(0x0013, p.server_channel, &body), Wrap::Sdi)
        }
        "fontlist-echo" => {
            let mut b = B::new();
            b.u16le("fl.numberFonts", 0).u16le("fl.totalNumFonts", 0).u16le("fl.listFlags", 3).u16le("fl.entrySize", 0x32);
            (proto::data_pdu(p, sid, 0x27, &b), Wrap::Sdi)
        }
        "input-echo" => {
            let mut b = B::new();
            b.u16le("in.numEvents", 1).u16le("in.pad", 0).u32le("in.time", 0).u16le("in.type", 0x8001).u16le("in.flags", 0x8000).u16le("in.x", 1).u16le("in.y", 2);
            (proto::data_pdu(p, sid, 0x1C, &b), Wrap::Sdi)
        }
        "server-redirect" => {
            let mut body = B::new();
            body.u16le("rd.flags", 0x0400).u16le("rd.length", 12).u32le("rd.sessionId", 1).u32le("rd.redirFlags", 0);
            (proto::share_control(0x001A, p.server_channel, &body), Wrap::Sdi)
        }
        k if k.starts_with("data-type2-sweep") => {
            // several data PDUs of different pduType2 in one payload (the sweep index selects the starting type)
            let start = if k.ends_with("a") { 0 } else { 14 };
            let mut b = B::new();
            for (i, t) in TYPE2.iter().skip(start).take(14).enumerate() {
                b.nest(&format!("t{}", i), &proto::other_data_pdu(p, sid, *t, &[0, 0, 1, 0, 2, 0, 3, 0, 4, 0, 0, 0]));
            }
            (b, Wrap::Sdi)
        }
        k if k.starts_with("multi:") => {
            let mut b = B::new();
            for (i, part) in k[6..].split('+').enumerate() {
                let (pb, _) = build_kind(p, part, sid);
                b.nest(&format!("m{}", i), &pb);
            }
            (b, Wrap::Sdi)
        }
        _ => {
            let mut d = B::new();
            d.bytes("data", &[9, 9, 9]);
            (proto::fp_update(0xD, &d), Wrap::FastPath { sec: 0, long: false })
        }
    }
}

#[derive(Clone)]
pub struct Plan {
    pub state: usize,
    pub kind: String,
    pub layer: &'static str,
    pub via_tls: bool,
    pub mutant: Mutant,
}

impl Plan {
    pub fn to_json(&self) -> Value {
        json!({"state": self.state, "kind": self.kind, "layer": self.layer, "tls": self.via_tls, "class": self.mutant.class, "at": self.mutant.at, "bytes": hex(&self.mutant.bytes)})
    }
    pub fn from_json(v: &Value) -> Plan {
        Plan {
            state: v["state"].as_u64().unwrap_or(0) as usize,
            kind: v["kind"].as_str().unwrap_or("").to_string(),
            layer: match v["layer"].as_str().unwrap_or("") {
                "frame" => "frame",
                "global-raw" => "global-raw",
                "global-fp" => "global-fp",
                "global-fp1" => "global-fp1",
                "global-fp2" => "global-fp2",
                "global-fp3" => "global-fp3",
                _ => "inner",
            },
            via_tls: v["tls"].as_bool().unwrap_or(false),
            mutant: Mutant { class: v["class"].as_str().unwrap_or("").to_string(), bytes: unhex(v["bytes"].as_str().unwrap_or("")), at: v["at"].as_u64().unwrap_or(0) as usize },
        }
    }
}

const SID: u32 = 0x000103ea;

/// bring a fresh session to the given state
pub fn to_state(state: usize, tls: bool) -> Result<Session, String> {
    let mut s = if tls { session::open_real(session::full_profile(), true)? } else { session::open_plain(session::full_profile(), true)? };
    let seq = ["demand-active", "synchronize", "control-cooperate", "control-granted", "font-map"];
    for k in seq.iter().take(state) {
        let (b, w) = build_kind(&s.profile, k, SID);
        s.push(k, &b, w);
        s.client.read(|_| {}).map_err(|e| client::err_kind(&e))?;
    }
    Ok(s)
}

fn wrap_kind(kind: &str) -> Wrap {
    match kind {
        "fp-bitmap-comprhdr" | "fp-every-update-code" => Wrap::FastPath { sec: 0, long: true },
        k if k.starts_with("fp-") => Wrap::FastPath { sec: 0, long: false },
        _ => Wrap::Sdi,
    }
}

pub fn run_plan(plan: &Plan) -> Result<Observed, String> {
    run_plan_ex(plan, plan.kind != "short-string")
}

pub fn run_plan_ex(plan: &Plan, aftermath: bool) -> Result<Observed, String> {
    let mut s = to_state(plan.state, plan.via_tls)?;
    let before = s.server.with(|sv| sv.out_total);
    match plan.layer {
        "inner" => {
            let mut b = B::new();
            b.v = plan.mutant.bytes.clone();
            s.push("faulted", &b, wrap_kind(&plan.kind));
        }
        "frame" => {
            let bytes = plan.mutant.bytes.clone();
            s.server.with(|sv| sv.push_bytes("faulted", &bytes, true));
        }
        _ => {}
    }
    let layer = plan.layer;
    let data = plan.mutant.bytes.clone();
    let (res, alloc) = mon::observed(|| {
        let r = match layer {
            "global-raw" | "global-fp" | "global-fp1" | "global-fp2" | "global-fp3" => match &mut s.client {
                Client::Plain(pc) => {
                    // the fast-path entry is exercised with each value of the two security flag bits of the frame header
                    let flag = match layer {
                        "global-fp1" => 1,
                        "global-fp2" => 2,
                        "global-fp3" => 3,
                        _ => 0,
                    };
                    let payload = if layer == "global-raw" { tpkt::Payload::Raw(Cursor::new(data)) } else { tpkt::Payload::FastPath(flag, Cursor::new(data)) };
                    pc.global.read(payload, &mut pc.mcs, |_| {})
                }
                _ => s.client.read(|_| {}),
            },
            _ => s.client.read(|_| {}),
        };
        match r {
            Ok(()) => "Ok".to_string(),
            Err(e) => format!("Err({})", client::err_kind(&e)),
        }
    });
    let (server_bytes, delivered) = s.server.with(|sv| (sv.out_total, sv.delivered));
    let consumed_fault = plan.layer.starts_with("global") || delivered > before;
    // aftermath: a hostile PDU may be swallowed quietly and leave state behind that only hurts later. The server goes
    // on with a complete, well-formed activation, a bitmap and an error-info PDU, and the application offers input.
    let mut res = res;
    if aftermath && res.is_ok() {
        let after = mon::guarded(|| {
            for k in ["demand-active", "synchronize", "control-cooperate", "control-granted", "font-map", "fp-bitmap", "set-error-info", "fp-mixed"].iter() {
                let (b, w) = build_kind(&s.profile, k, SID);
                s.push(k, &b, w);
                let _ = s.client.read(|_| {});
            }
            match &mut s.client {
                Client::Real(rc) => {
                    let _ = rc.try_write(rdp::core::event::RdpEvent::Key(rdp::core::event::KeyboardEvent { code: 0x1e, down: true }));
                }
                Client::Plain(pc) => {
                    let _ = pc.global.write_input_event(rdp::core::global::ts_keyboard_event(Some(0), Some(0x1e)), &mut pc.mcs);
                }
            }
        });
        if let Err(p) = after {
            res = Err(mon::PanicInfo { msg: format!("(in the well-formed traffic that followed) {}", p.msg), file: p.file, line: p.line });
        }
    }
    let n = if plan.layer.starts_with("global") { plan.mutant.bytes.len() } else { server_bytes };
    Ok(match res {
        Ok(o) => Observed { outcome: o, panic: None, alloc, server_bytes: n, consumed_fault },
        Err(p) => Observed { outcome: "panic".into(), panic: Some(p), alloc, server_bytes: n, consumed_fault },
    })
}

fn judge(plan: &Plan, o: &Observed, rep: &mut Report) {
    judge_with(plan, o, rep, plan.to_json())
}

fn judge_with(plan: &Plan, o: &Observed, rep: &mut Report, replay: Value) {
    rep.eval();
    rep.hist(&o.outcome);
    let entry = format!("{}/{}", STATES[plan.state], plan.kind);
    if let Some(p) = &o.panic {
        rep.violation(format!("C06/{}/{}", entry, p.sig()), format!("state {} fault {} ({}): {} at {}:{}", STATES[plan.state], plan.mutant.class, plan.layer, p.msg, p.file, p.line), replay.clone());
    }
    if let Some(d) = alloc_violation(&o.alloc, o.server_bytes) {
        rep.violation(format!("C06/{}/alloc-out-of-proportion", entry), format!("fault {}: {}", plan.mutant.class, d), replay.clone());
    }
    if o.alloc.max_stack_depth > crate::props::c05::STACK_LIMIT {
        rep.violation(format!("C06/{}/stack-depth-grows-with-input", entry), format!("fault {}: the stack was {} bytes deep at a transport call (limit {})", plan.mutant.class, o.alloc.max_stack_depth, crate::props::c05::STACK_LIMIT), replay.clone());
    }
    rep.max("deepest_stack_at_transport_call_bytes", o.alloc.max_stack_depth as f64);
    rep.max("largest_allocation_bytes", o.alloc.max_request as f64);
    rep.set("state_kind_pairs", entry);
}

fn all_plans(seed: u64, quick: bool) -> Vec<Plan> {
    let p = session::full_profile();
    let mut plans = Vec::new();
    // frames need a server to wrap; build one
    let d = crate::server::Duplex::new(p.clone());
    for state in 0..6 {
        for kind in KINDS.iter() {
            let (b, w) = build_kind(&p, kind, SID);
            // the unfaulted PDU in every state
            plans.push(Plan { state, kind: kind.to_string(), layer: "inner", via_tls: false, mutant: Mutant { class: "valid".into(), bytes: b.v.clone(), at: 0 } });
            let mut r = Rng::derive(seed, "C06-f", state as u64, fnv(kind.as_bytes()));
            // the full fault set in the state that parses this kind most deeply and in the active state; a light set elsewhere
            let deep = state == 5 || matches!((state, *kind), (0, "demand-active") | (0, "demand-active-descriptor-utf8") | (0, "demand-active-descriptor-ff") | (0, "demand-active-descriptor-long") | (1, "synchronize") | (2, "control-cooperate") | (3, "control-granted") | (4, "font-map"));
            let ms = fault::single_faults(&b, &mut r, !deep || quick && !deep);
            for (i, m) in ms.into_iter().enumerate() {
                if !deep && i % 4 != 0 {
                    continue;
                }
                plans.push(Plan { state, kind: kind.to_string(), layer: "inner", via_tls: false, mutant: m });
            }
            if deep {
                let frame = d.with(|s| s.wrap(&b, w));
                let mut wrap_only = B::new();
                wrap_only.v = frame.v.clone();
                wrap_only.fields = frame.fields.iter().filter(|f| f.name.starts_with("tpkt.") || f.name.starts_with("x.x224") || f.name.starts_with("x.m.sdi") || f.name.starts_with("fp.")).cloned().collect();
                for m in fault::single_faults(&wrap_only, &mut r, true) {
                    plans.push(Plan { state, kind: kind.to_string(), layer: "frame", via_tls: false, mutant: m });
                }
                // fast-path header byte: all 256 values with every update header byte value
                if kind.starts_with("fp-") && state == 5 {
                    for x in 0..=255u8 {
                        let mut v = b.v.clone();
                        v[0] = x;
                        plans.push(Plan { state, kind: kind.to_string(), layer: "inner", via_tls: false, mutant: Mutant { class: "update-header-all-values".into(), bytes: v, at: 0 } });
                    }
                }
            }
        }
    }
    // every ordered pair and triple of share-control PDUs in one payload, unfaulted, in every state
    for state in 0..6 {
        for a in MULTI.iter() {
            for b2 in MULTI.iter() {
                let k = format!("multi:{}+{}", a, b2);
                let (b, _) = build_kind(&p, &k, SID);
                plans.push(Plan { state, kind: k, layer: "inner", via_tls: false, mutant: Mutant { class: "valid".into(), bytes: b.v.clone(), at: 0 } });
                for c in MULTI.iter() {
                    let k = format!("multi:{}+{}+{}", a, b2, c);
                    let (b, _) = build_kind(&p, &k, SID);
                    plans.push(Plan { state, kind: k, layer: "inner", via_tls: false, mutant: Mutant { class: "valid".into(), bytes: b.v.clone(), at: 0 } });
                }
            }
        }
    }
    // a sample of the same plans through the real RdpClient over TLS
    let n = plans.len();
    let mut r = Rng::derive(seed, "C06-tls", 0, 0);
    for _ in 0..(if quick { 1500 } else { 20000 }) {
        let mut pl = plans[r.below(n as u64) as usize].clone();
        if pl.layer == "inner" {
            pl.via_tls = true;
            plans.push(pl);
        }
    }
    plans
}

/// pairs of boundary faults, in the active state and in the state that parses the kind
fn pair_plans(seed: u64, per: usize) -> Vec<Plan> {
    let p = session::full_profile();
    let mut plans = Vec::new();
    let mut r = Rng::derive(seed, "C06-pairs", 0, 0);
    for kind in KINDS.iter() {
        let (b, _) = build_kind(&p, kind, SID);
        let sub = fault::boundary_subset(&b);
        if sub.len() < 2 {
            continue;
        }
        for _ in 0..per {
            let (i, j) = (r.below(sub.len() as u64) as usize, r.below(sub.len() as u64) as usize);
            if let Some(m) = fault::pair_fault(&b, &sub, i.min(j), i.max(j)) {
                let state = if r.chance(1, 2) { 5 } else { match *kind { "demand-active" => 0, "synchronize" => 1, "control-cooperate" => 2, "control-granted" => 3, "font-map" => 4, _ => r.below(6) as usize } };
                plans.push(Plan { state, kind: kind.to_string(), layer: "inner", via_tls: false, mutant: m });
            }
        }
    }
    plans
}

fn random_plan(seed: u64, idx: u64) -> Plan {
    let p = session::full_profile();
    let mut r = Rng::derive(seed, "C06-rand", 2, idx);
    let kind = *r.pick(&KINDS);
    let other = *r.pick(&KINDS);
    let (b, _) = build_kind(&p, kind, SID);
    let (o2, _) = build_kind(&p, other, SID);
    let m = fault::random_fault(&b, Some(&o2), &mut r);
    Plan { state: r.below(6) as usize, kind: kind.to_string(), layer: "inner", via_tls: false, mutant: m }
}

/// entries of the short-string sweep: slow-path and fast-path (flags 0) in all six states, fast-path with flags 1, 2, 3
/// before activation and in the active state
fn short_plan(idx: u64, per_state: u64) -> Plan {
    let s = fault::short_string(idx % per_state);
    let block = idx / per_state;
    let (state, layer) = if block < 6 {
        (block as usize, "global-raw")
    } else if block < 12 {
        ((block - 6) as usize, "global-fp")
    } else {
        let b = block - 12;
        (if b % 2 == 0 { 0 } else { 5 }, ["global-fp1", "global-fp2", "global-fp3"][(b / 2) as usize % 3])
    };
    Plan { state, kind: "short-string".into(), layer, via_tls: false, mutant: Mutant { class: "short-string".into(), bytes: s, at: 0 } }
}

/// the 3-byte strings at the two entries of the active state
fn three_byte_plan(idx: u64) -> Plan {
    let two = fault::short_string_count(2);
    let three = fault::short_string_count(3) - two;
    let s = fault::short_string(two + idx % three);
    let layer = if idx / three == 0 { "global-raw" } else { "global-fp" };
    Plan { state: 5, kind: "short-string".into(), layer, via_tls: false, mutant: Mutant { class: "short-string".into(), bytes: s, at: 0 } }
}

const FLOOD: usize = 4000;
const FLOOD_KINDS: [&str; 9] = ["set-error-info", "unknown-data", "synchronize", "control-cooperate", "font-map", "fp-unknown", "fp-mixed", "demand-active", "deactivate-all"];

/// thousands of copies of a PDU the client ignores or skips in the given state, then a bitmap: everything is read with as
/// many read calls as the application cares to make; stack depth, allocation and termination are watched
fn run_flood(state: usize, kind: &str) -> Result<Observed, String> {
    run_flood_ex(state, kind, false)
}

/// `one_payload`: the copies travel as share-control PDUs inside ONE slow-path payload (one frame) instead of one frame each
fn run_flood_ex(state: usize, kind: &str, one_payload: bool) -> Result<Observed, String> {
    let mut s = to_state(state, false)?;
    let (b, w) = build_kind(&s.profile, kind, SID);
    let bytes: Vec<u8> = if one_payload && matches!(w, Wrap::Sdi) {
        let n = (60000 / b.v.len().max(1)).min(FLOOD).max(1);
        let mut all = B::new();
        for i in 0..n {
            all.nest(&format!("c{}", i), &b);
        }
        s.server.with(|sv| sv.wrap(&all, Wrap::Sdi)).v
    } else {
        let frame = s.server.with(|sv| sv.wrap(&b, w));
        let mut v = Vec::with_capacity(frame.v.len() * FLOOD);
        for _ in 0..FLOOD {
            v.extend_from_slice(&frame.v);
        }
        v
    };
    s.server.with(|sv| sv.push_bytes("flood", &bytes, true));
    let (bm, wm) = build_kind(&s.profile, "fp-bitmap", SID);
    s.push("fp-bitmap", &bm, wm);
    let (res, alloc) = mon::observed(|| {
        let mut errors = 0usize;
        for _ in 0..FLOOD + 8 {
            if s.server.with(|sv| sv.out.is_empty()) {
                break;
            }
            if s.client.read(|_| {}).is_err() {
                errors += 1;
                if errors > 16 {
                    break;
                }
            }
        }
        format!("flood-read:{}", if errors == 0 { "Ok" } else { "Err" })
    });
    let n = bytes.len();
    Ok(match res {
        Ok(o) => Observed { outcome: o, panic: None, alloc, server_bytes: n, consumed_fault: true },
        Err(p) => Observed { outcome: "panic".into(), panic: Some(p), alloc, server_bytes: n, consumed_fault: true },
    })
}

pub fn run(cfg: &Cfg) -> Report {
    crate::tls::prewarm(false);
    let seed = cfg.seed;
    let mut total = Report::new();
    if cfg.wants(0) {
        let plans = all_plans(seed, cfg.quick());
        let n = plans.len() as u64;
        let rep = par_run(cfg, n, 16, |idx, rep| {
            mon::begin_case(6, 0, idx, seed);
            let plan = &plans[idx as usize];
            match run_plan(plan) {
                Ok(o) => {
                    if o.consumed_fault {
                        rep.nontrivial(fnv(&plan.mutant.bytes) ^ (plan.state as u64) << 56 ^ fnv(plan.kind.as_bytes()));
                    }
                    rep.set("fault_classes", plan.mutant.class.split(':').next().unwrap_or("").to_string());
                    if rep.want_sample() && plan.mutant.bytes.len() < 50 {
                        let j = plan.to_json();
                        rep.sample(|| j);
                    }
                    judge(plan, &o, rep);
                }
                Err(e) => rep.selfcheck_fail(format!("could not reach state {}: {}", plan.state, e)),
            }
        });
        total.count("structured_faults", n);
        total.merge(rep);
    }
    if cfg.wants(1) {
        let plans = pair_plans(seed, cfg.n(1500, 40000) as usize);
        let n = plans.len() as u64;
        let rep = par_run(cfg, n, 16, |idx, rep| {
            mon::begin_case(6, 1, idx, seed);
            let plan = &plans[idx as usize];
            if let Ok(o) = run_plan(plan) {
                if o.consumed_fault {
                    rep.nontrivial(fnv(&plan.mutant.bytes) ^ 0x77 ^ (plan.state as u64) << 56);
                }
                judge(plan, &o, rep);
            }
        });
        total.count("fault_pairs", n);
        total.merge(rep);
    }
    if cfg.wants(2) {
        // seeded random corruption and splices of two PDUs
        let n = cfg.n(60_000, 4_000_000);
        let rep = par_run(cfg, n, 64, |idx, rep| {
            mon::begin_case(6, 2, idx, seed);
            let plan = random_plan(seed, idx);
            if let Ok(o) = run_plan(&plan) {
                if o.consumed_fault {
                    rep.nontrivial(fnv(&plan.mutant.bytes) ^ idx);
                }
                judge(&plan, &o, rep);
            }
        });
        total.count("random_corruptions", n);
        total.merge(rep);
    }
    if cfg.wants(5) {
        let n = (2 * 6 * FLOOD_KINDS.len()) as u64;
        let rep = par_run(cfg, n, 1, |idx, rep| {
            mon::begin_case(6, 5, idx, seed);
            let one_payload = idx >= (6 * FLOOD_KINDS.len()) as u64;
            let (state, kind) = ((idx % 6) as usize, FLOOD_KINDS[(idx / 6) as usize % FLOOD_KINDS.len()]);
            let plan = Plan { state, kind: kind.to_string(), layer: "frame", via_tls: false, mutant: Mutant { class: format!("flood:{}x", FLOOD), bytes: vec![], at: 0 } };
            match run_flood_ex(state, kind, one_payload) {
                Ok(o) => {
                    rep.nontrivial(idx ^ 0xF100D);
                    let mut j = plan.to_json();
                    j["flood"] = json!([state, kind, one_payload]);
                    // judge with a replay descriptor that regenerates the flood
                    let mut p2 = plan.clone();
                    p2.mutant.class = format!("flood:{}x{}", FLOOD, kind);
                    judge_with(&p2, &o, rep, j);
                }
                Err(e) => rep.selfcheck_fail(format!("could not reach state {}: {}", state, e)),
            }
        });
        total.count("flood_cases", n);
        total.merge(rep);
    }
    if cfg.wants(3) {
        // all short byte strings at the PDU parser entries, in every state: strings of up to 2 bytes at all 18 entries;
        // thorough adds the 3-byte strings at the slow-path and fast-path entries of the active state (every case needs
        // a freshly activated session, 16.8 M strings per entry)
        let per_state = fault::short_string_count(2);
        let n = per_state * (6 * 2 + 3 * 2);
        let rep = par_run(cfg, n, 4096, |idx, rep| {
            mon::begin_case(6, 3, idx, seed);
            let plan = short_plan(idx, per_state);
            if let Ok(o) = run_plan(&plan) {
                rep.nontrivial(idx);
                judge(&plan, &o, rep);
            }
        });
        total.count("short_strings_maxlen2_x18_entries", n);
        total.merge(rep);
        if !cfg.quick() {
            let three = fault::short_string_count(3) - per_state;
            let n = three * 2;
            let rep = par_run(cfg, n, 4096, |idx, rep| {
                mon::begin_case(6, 4, idx, seed);
                let plan = three_byte_plan(idx);
                if let Ok(o) = run_plan(&plan) {
                    rep.nontrivial(idx ^ 0x3333_0000_0000);
                    judge(&plan, &o, rep);
                }
            });
            total.count("short_strings_len3_active_state_x2_entries", n);
            total.merge(rep);
        }
    }
    total
}

pub fn replay(cfg: &Cfg, v: &Value) -> Report {
    let mut rep = Report::new();
    mon::set_quiet(false);
    let plan = if let Some(a) = v.get("death_case") {
        let a: Vec<u64> = a.as_array().unwrap().iter().map(|x| x.as_u64().unwrap()).collect();
        match a[1] {
            0 => all_plans(a[3], cfg.quick())[a[2] as usize].clone(),
            1 => {
                let plans = pair_plans(a[3], cfg.n(1500, 40000) as usize);
                match plans.get(a[2] as usize) {
                    Some(p) => p.clone(),
                    None => {
                        rep.eval();
                        rep.inconclusive("death case index outside the regenerated pair plans");
                        return rep;
                    }
                }
            }
            2 => random_plan(a[3], a[2]),
            5 => {
                let (state, kind) = ((a[2] % 6) as usize, FLOOD_KINDS[(a[2] / 6) as usize % FLOOD_KINDS.len()]);
                let plan = Plan { state, kind: kind.to_string(), layer: "frame", via_tls: false, mutant: Mutant { class: format!("flood:{}x{}", FLOOD, kind), bytes: vec![], at: 0 } };
                match run_flood_ex(state, kind, a[2] >= (6 * FLOOD_KINDS.len()) as u64) {
                    Ok(o) => judge_with(&plan, &o, &mut rep, json!({"flood": [state, kind]})),
                    Err(e) => rep.selfcheck_fail(e),
                }
                return rep;
            }
            4 => three_byte_plan(a[2]),
            _ => short_plan(a[2], fault::short_string_count(2)),
        }
    } else if let Some(f) = v.get("flood").and_then(|f| f.as_array()) {
        let state = f[0].as_u64().unwrap_or(5) as usize;
        let kind = f[1].as_str().unwrap_or("set-error-info").to_string();
        let plan = Plan { state, kind: kind.clone(), layer: "frame", via_tls: false, mutant: Mutant { class: format!("flood:{}x{}", FLOOD, kind), bytes: vec![], at: 0 } };
        match run_flood_ex(state, &kind, f.get(2).and_then(|x| x.as_bool()).unwrap_or(false)) {
            Ok(o) => judge_with(&plan, &o, &mut rep, v.clone()),
            Err(e) => rep.selfcheck_fail(e),
        }
        return rep;
    } else {
        Plan::from_json(v)
    };
    match run_plan(&plan) {
        Ok(o) => judge(&plan, &o, &mut rep),
        Err(e) => rep.selfcheck_fail(e),
    }
    rep
}
