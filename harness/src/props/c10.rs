//! C10 — every bitmap rectangle the server sends reaches the application exactly once.
//! Oracle: fast-path streams are built from a specification (list of updates, list of rectangles),
//! so the expected callback sequence is known by construction; the callback log of the real client
//! is compared element-wise, field by field, byte by byte.

use crate::client::Client;
use crate::mon;
use crate::refs::build::B;
use crate::refs::proto::{self, Rect};
use crate::report::Report;
use crate::rng::{fnv, hex, Rng};
use crate::server::Wrap;
use crate::session;
use crate::{par_run, Cfg};
use rdp::core::event::{BitmapEvent, RdpEvent};
use rdp::core::tpkt;
use serde_json::{json, Value};
use std::io::Cursor;

#[derive(Clone, Debug)]
pub enum Upd {
    Bitmap(Vec<Rect>),
    Other { code: u8, data: Vec<u8>, name: &'static str },
}

#[derive(Clone, Debug)]
pub struct Pdu {
    pub long: bool,
    pub sec: u8,
    pub updates: Vec<Upd>,
}

pub struct Case {
    pub path: &'static str, // rdpclient-tls | plain-stack | global-direct
    pub pdus: Vec<Pdu>,
    pub class: &'static str,
    pub gen: [u64; 3],
}

fn rect(r: &mut Rng, max_data: usize, tag: u32) -> Rect {
    let flags = *r.pick(&[0u16, 0, 0x0401, 0x0001, 0x0400, 0x0001, 0x0401]);
    let n = match r.below(10) {
        0 => 0,
        1 => 1,
        2 => 2,
        3 => 7,
        4 => 8,
        5 => 9,
        6 => r.range(0, 64) as usize,
        7 => r.range(0, 1500) as usize,
        8 => max_data,
        _ => r.range(0, max_data as u64) as usize,
    }
    .min(max_data);
    // one rectangle in six also carries bits of the flags field that mean nothing (only bit 0, compressed, and bit 10, no
    // compression header, do)
    let flags = if r.chance(1, 6) { flags | *r.pick(&[0x0002u16, 0x0100, 0x8000, 0xF0F2, 0x0800, 0x0004]) } else { flags };
    let mut data = r.bytes(n);
    // stamp so that a duplicated / swapped rectangle is identifiable
    for (i, b) in tag.to_le_bytes().iter().enumerate() {
        if i < data.len() {
            data[i] = *b;
        }
    }
    Rect { left: r.edge16(), top: r.edge16(), right: r.edge16(), bottom: r.edge16(), width: r.edge16(), height: r.edge16(), bpp: *r.pick(&[8u16, 15, 16, 24, 32, 0, 0xffff, 1]), flags, data }
}

fn colour_pointer(r: &mut Rng) -> Vec<u8> {
    let xor = r.range(0, 40) as usize;
    let and = r.range(0, 20) as usize;
    let mut b = B::new();
    b.u16le("cacheIndex", r.u16()).u32le("hotSpot", r.u32()).u16le("width", r.u16()).u16le("height", r.u16()).u16le("lengthAndMask", and as u16).u16le("lengthXorMask", xor as u16);
    b.bytes("xor", &r.bytes(xor)).bytes("and", &r.bytes(and));
    if r.chance(1, 2) {
        b.u8("pad", 0);
    }
    b.v
}

fn other_update(r: &mut Rng) -> Upd {
    match r.below(13) {
        0 => Upd::Other { code: 3, data: vec![], name: "synchronize" },
        1 => Upd::Other { code: 5, data: vec![], name: "pointer-hidden" },
        2 => Upd::Other { code: 6, data: vec![], name: "pointer-default" },
        3 => Upd::Other { code: 8, data: r.bytes(4), name: "pointer-position" },
        4 => Upd::Other { code: 9, data: colour_pointer(r), name: "colour-pointer" },
        5 => Upd::Other { code: 0xA, data: r.bytes(2), name: "cached-pointer" },
        6 => {
            let mut d = r.bytes(2);
            d.extend_from_slice(&colour_pointer(r));
            Upd::Other { code: 0xB, data: d, name: "new-pointer" }
        }
        7 => {
            let n = r.range(0, 16) as usize;
            let mut d = vec![2, 0, 0, 0];
            d.extend_from_slice(&(n as u32).to_le_bytes());
            d.extend_from_slice(&r.bytes(3 * n));
            Upd::Other { code: 2, data: d, name: "palette" }
        }
        8 => {
            let l = r.range(2, 60) as usize;
            Upd::Other { code: 0, data: r.bytes(l), name: "orders" }
        }
        9 => {
            let l = r.range(0, 60) as usize;
            Upd::Other { code: 4, data: r.bytes(l), name: "surface-commands" }
        }
        10 => {
            // colour pointer whose masks are shorter than announced (malformed pointer, must not disturb what follows)
            let mut d = colour_pointer(r);
            let k = d.len() / 2;
            d.truncate(k.max(1));
            Upd::Other { code: 9, data: d, name: "colour-pointer-truncated" }
        }
        _ => {
            let l = r.range(0, 30) as usize;
            Upd::Other { code: *r.pick(&[0x7u8, 0xC, 0xD, 0xE, 0xF]), data: r.bytes(l), name: "unknown-code" }
        }
    }
}

fn update_bytes(u: &Upd) -> B {
    match u {
        Upd::Bitmap(rects) => proto::fp_update(1, &proto::bitmap_update_body(rects)),
        Upd::Other { code, data, .. } => {
            let mut d = B::new();
            d.bytes("data", data);
            proto::fp_update(*code, &d)
        }
    }
}

fn pdu_updates(p: &Pdu) -> B {
    let mut b = B::new();
    for (i, u) in p.updates.iter().enumerate() {
        b.nest(&format!("u{}", i), &update_bytes(u));
    }
    b
}

pub fn make_case(class: u64, idx: u64, seed: u64) -> Case {
    let mut r = Rng::derive(seed, "C10", class, idx);
    let path: &'static str = match class {
        0 | 3 => {
            if r.chance(1, 3) {
                "rdpclient-tls"
            } else {
                "plain-stack"
            }
        }
        1 | 5 | 6 => "plain-stack",
        4 => *r.pick(&["plain-stack", "rdpclient-tls", "global-direct"]),
        _ => "global-direct",
    };
    let mut pdus = Vec::new();
    match class {
        0 => {
            let np = r.range(1, 20) as usize;
            let mut last_rect: Option<Rect> = None;
            for pi in 0..np {
                let mut budget: usize = if r.chance(1, 4) { 120 } else { 32000 };
                let long = budget > 120 || r.chance(1, 2);
                let nu = r.below(9) as usize;
                let mut updates = Vec::new();
                for ui in 0..nu {
                    if budget < 40 {
                        break;
                    }
                    if r.chance(1, 2) {
                        let nr = r.below(13) as usize;
                        let mut rects = Vec::new();
                        for ri in 0..nr {
                            if budget < 40 {
                                break;
                            }
                            let maxd = (budget - 34).min(if r.chance(1, 8) { 32000 } else { 300 });
                            // servers do repeat themselves: now and then the very same rectangle again (same position, size,
                            // flags and bytes), back to back within an update, across updates or across PDUs
                            let repeat = last_rect.as_ref().filter(|l| l.data.len() + 34 <= budget).cloned();
                            let rc = match repeat {
                                Some(l) if r.chance(1, 6) => l,
                                _ => rect(&mut r, maxd, (pi as u32) << 16 | (ui as u32) << 8 | ri as u32),
                            };
                            last_rect = Some(rc.clone());
                            budget -= rc.data.len() + 30;
                            rects.push(rc);
                        }
                        budget = budget.saturating_sub(8);
                        updates.push(Upd::Bitmap(rects));
                    } else {
                        let u = other_update(&mut r);
                        if let Upd::Other { data, .. } = &u {
                            if data.len() + 3 > budget {
                                continue;
                            }
                            budget -= data.len() + 3;
                        }
                        updates.push(u);
                    }
                }
                pdus.push(Pdu { long, sec: *r.pick(&[0u8, 0, 0, 1, 2, 3]), updates });
            }
        }
        1 => {
            // total-length sweep: one bitmap update with one rectangle sized so that the PDU has every total length
            let total = 2 + (idx % 32766) as usize; // 2..32767
            let long = total > 127 || r.chance(1, 2);
            let hdr = if long { 3 } else { 2 };
            // update header 3 + bitmap hdr 4 + rect 18
            let fixed = hdr + 3 + 4 + 18;
            if total >= fixed {
                let n = total - fixed;
                let mut rc = rect(&mut r, n, idx as u32);
                rc.flags = if r.chance(1, 2) { 0 } else { 0x0401 };
                rc.data = r.bytes(n);
                pdus.push(Pdu { long, sec: 0, updates: vec![Upd::Bitmap(vec![rc])] });
            } else {
                // too short for a rectangle: a PDU of non-bitmap updates of that size
                let n = total.saturating_sub(hdr + 3);
                if total >= hdr + 3 {
                    pdus.push(Pdu { long, sec: 0, updates: vec![Upd::Other { code: 0xC, data: r.bytes(n), name: "unknown-code" }] });
                } else {
                    pdus.push(Pdu { long, sec: 0, updates: vec![] });
                }
            }
            // followed by a normal PDU to see that nothing shifted
            pdus.push(Pdu { long: false, sec: 0, updates: vec![Upd::Bitmap(vec![rect(&mut r, 20, 0xAA55)])] });
        }
        2 => {
            // payload handed to global::Client::read directly: data up to the 16-bit update size
            let n = match r.below(4) {
                0 => 65535 - 22 - 4,
                1 => r.range(32000, 65000) as usize,
                _ => r.range(0, 65509) as usize,
            };
            let mut rc = rect(&mut r, n, idx as u32);
            rc.flags = *r.pick(&[0u16, 0x0401]);
            rc.data = r.bytes(n);
            let mut updates = vec![Upd::Bitmap(vec![rc])];
            if r.chance(1, 2) {
                updates.insert(0, other_update(&mut r));
            }
            updates.push(Upd::Bitmap(vec![rect(&mut r, 30, 0x77)]));
            pdus.push(Pdu { long: true, sec: 0, updates });
        }
        4 => {
            // many elements: one update of very many small rectangles, or one PDU of very many small updates (the byte size
            // stays within what the framing allows: 0x7fff for a fast-path frame, 0xffff for one update)
            let framed = path != "global-direct";
            if idx % 2 == 0 {
                let n = *r.pick(if framed { &[1023usize, 1024, 1025, 1026, 1100, 1400, 1700][..] } else { &[1024usize, 1025, 1100, 2048, 2049, 3000, 3600][..] });
                let maxd = if framed { (32000 / n).saturating_sub(18).min(6) } else { (65000 / n).saturating_sub(18).min(6) };
                let rects = (0..n)
                    .map(|ri| {
                        let mut rc = rect(&mut r, maxd, ri as u32);
                        // no compression header: the byte budget is for the element count
                        rc.flags = if rc.flags & 1 != 0 { 0x0401 } else { 0 };
                        rc
                    })
                    .collect();
                pdus.push(Pdu { long: true, sec: 0, updates: vec![Upd::Bitmap(rects)] });
            } else {
                let bitmaps = r.chance(1, 2);
                let n = if bitmaps { *r.pick(&[1024usize, 1025, 1026, 1100, 1250]) } else { *r.pick(&[1025usize, 2000, 5000, 10000]) };
                let mut updates = Vec::new();
                for ui in 0..n {
                    if bitmaps {
                        let mut rc = rect(&mut r, 0, ui as u32);
                        rc.data.clear();
                        rc.flags = if rc.flags & 1 != 0 { 0x0401 } else { 0 };
                        updates.push(Upd::Bitmap(vec![rc]));
                    } else if ui % 500 == 499 {
                        updates.push(Upd::Bitmap(vec![rect(&mut r, 4, ui as u32)]));
                    } else {
                        updates.push(Upd::Other { code: *r.pick(&[3u8, 5, 6]), data: vec![], name: "empty-update" });
                    }
                }
                pdus.push(Pdu { long: true, sec: 0, updates });
            }
            // the generator's own bound: what it built must fit the framing, or the case would test the builder
            let limit = if framed { 32760 } else { 65530 };
            loop {
                let size = pdu_updates(&pdus[0]).len();
                if size <= limit {
                    break;
                }
                let ups = &mut pdus[0].updates;
                if ups.len() > 1 {
                    ups.pop();
                } else if let Some(Upd::Bitmap(rs)) = ups.last_mut() {
                    rs.pop();
                }
            }
            pdus.push(Pdu { long: false, sec: 0, updates: vec![Upd::Bitmap(vec![rect(&mut r, 20, 0xAA55)])] });
        }
        6 => {
            // a long history on one connection: more updates the client has no use for (unassigned codes, orders, pointer
            // positions) than a 16-bit counter holds, spread over a few PDUs, bitmaps in between and at the end
            let per_pdu = 9000usize;
            let npdu = 8;
            for pi in 0..npdu {
                let mut updates = Vec::new();
                for ui in 0..per_pdu {
                    updates.push(Upd::Other { code: *r.pick(&[0x0u8, 0x8, 0xA, 0xC, 0xD, 0xF]), data: vec![], name: "unhandled-update" });
                    if ui % 3000 == 2999 {
                        updates.push(Upd::Bitmap(vec![rect(&mut r, 8, (pi as u32) << 16 | ui as u32)]));
                    }
                }
                pdus.push(Pdu { long: true, sec: 0, updates });
            }
            pdus.push(Pdu { long: false, sec: 0, updates: vec![Upd::Bitmap(vec![rect(&mut r, 20, 0xAA56)])] });
        }
        5 => {
            // interrupted reads: ordinary sequences over a transport whose read calls are interrupted now and then
            // (EINTR: no data transferred, the call is to be repeated) and that delivers in small segments
            let np = r.range(1, 8) as usize;
            for pi in 0..np {
                let nu = r.range(1, 4) as usize;
                let updates = (0..nu)
                    .map(|ui| {
                        if r.chance(1, 4) {
                            other_update(&mut r)
                        } else {
                            let nr = r.range(1, 4) as usize;
                            Upd::Bitmap(
                                (0..nr)
                                    .map(|ri| {
                                        let maxd = if r.chance(1, 6) { 3000 } else { 200 };
                                        rect(&mut r, maxd, (pi as u32) << 16 | (ui as u32) << 8 | ri as u32)
                                    })
                                    .collect(),
                            )
                        }
                    })
                    .collect();
                pdus.push(Pdu { long: r.chance(3, 4), sec: 0, updates });
            }
        }
        _ => {
            // zero-length corner: empty rectangles / empty updates followed by more
            let np = r.range(1, 4) as usize;
            for pi in 0..np {
                let mut updates = Vec::new();
                for ui in 0..r.range(1, 6) as usize {
                    match r.below(4) {
                        0 => updates.push(Upd::Other { code: *r.pick(&[3u8, 5, 6]), data: vec![], name: "empty-update" }),
                        1 => updates.push(Upd::Bitmap(vec![])),
                        _ => {
                            let nr = r.range(1, 5) as usize;
                            let rects = (0..nr)
                                .map(|ri| {
                                    let mut rc = rect(&mut r, 12, (pi as u32) << 16 | (ui as u32) << 8 | ri as u32);
                                    if r.chance(1, 2) {
                                        rc.data.clear();
                                    }
                                    rc
                                })
                                .collect();
                            updates.push(Upd::Bitmap(rects));
                        }
                    }
                }
                pdus.push(Pdu { long: r.chance(1, 2), sec: 0, updates });
            }
        }
    }
    // short form cannot carry more than 127 bytes in total
    for p in pdus.iter_mut() {
        if !p.long && pdu_updates(p).len() + 2 > 127 {
            p.long = true;
        }
    }
    Case { path, pdus, class: ["mixed-sequences", "total-length-sweep", "global-direct-large", "zero-length-corners", "many-elements", "interrupted-reads", "long-history-of-unhandled-updates"][class as usize], gen: [class, idx, seed] }
}

fn describe(c: &Case) -> Value {
    let pd: Vec<Value> = c
        .pdus
        .iter()
        .map(|p| {
            json!({"long": p.long, "sec": p.sec, "updates": p.updates.iter().map(|u| match u {
                Upd::Bitmap(r) => json!({"bitmap_rects": r.iter().map(|x| json!([x.left, x.top, x.right, x.bottom, x.width, x.height, x.bpp, x.flags, x.data.len()])).collect::<Vec<_>>()}),
                Upd::Other { code, data, name } => json!({"other": name, "code": code, "len": data.len()}),
            }).collect::<Vec<_>>()})
        })
        .collect();
    json!({"gen": c.gen, "class": c.class, "path": c.path, "pdus": pd})
}

fn same(e: &BitmapEvent, r: &Rect) -> Option<String> {
    let f: [(&str, u16, u16); 7] = [("left", e.dest_left, r.left), ("top", e.dest_top, r.top), ("right", e.dest_right, r.right), ("bottom", e.dest_bottom, r.bottom), ("width", e.width, r.width), ("height", e.height, r.height), ("bpp", e.bpp, r.bpp)];
    for (n, a, b) in f.iter() {
        if a != b {
            return Some(format!("field-mismatch:{} (got {} expected {})", n, a, b));
        }
    }
    if e.is_compress != r.compressed() {
        return Some(format!("field-mismatch:compression-flag (got {} wire flags {:#x})", e.is_compress, r.flags));
    }
    if e.data != r.data {
        return Some(format!("data-mismatch (got {} bytes {}.., expected {} bytes {}..)", e.data.len(), hex(&e.data[..e.data.len().min(8)]), r.data.len(), hex(&r.data[..r.data.len().min(8)])));
    }
    None
}

pub fn check_case(c: &Case, rep: &mut Report) {
    rep.eval();
    let desc = describe(c);
    // half of the sessions are activated by a server whose capability sets carry other (equally legitimate) values, or only
    // some of the sets, in another order: what the server says about ITSELF has no bearing on what it may send
    let varied = c.gen[1] % 2 == 1;
    let mut profile = session::full_profile();
    if varied {
        let mut vr = Rng::derive(c.gen[2], "C10-caps", c.gen[0], c.gen[1]);
        profile.caps = crate::gen::caps_varied(&mut vr);
    }
    let opened = mon::guarded(|| -> Result<session::Session, String> {
        let mut s = if c.path == "rdpclient-tls" { session::open_real(profile.clone(), false)? } else { session::open_plain(profile.clone(), false)? };
        s.activate()?;
        Ok(s)
    });
    let mut s = match opened {
        Ok(Ok(s)) => s,
        Ok(Err(e)) => {
            if varied {
                // whether the client takes this server is C03's subject; without a session there is nothing to observe
                rep.hist("session-with-varied-capabilities-not-opened");
            } else {
                rep.selfcheck_fail(format!("could not open an active session: {}", e));
            }
            return;
        }
        Err(p) => {
            rep.selfcheck_fail(format!("panic while opening a session: {}", p.msg));
            return;
        }
    };
    let mut viol: Vec<(String, String)> = Vec::new();
    let mut nrects = 0usize;
    if c.class == "interrupted-reads" {
        let mut r = Rng::derive(c.gen[2], "C10-eintr", c.gen[0], c.gen[1]);
        let (start, period, chunk) = (r.below(6) as usize, r.range(2, 7) as usize, *r.pick(&[usize::MAX, usize::MAX, 1, 2, 3, 7, 64, 1000]));
        s.server.with(|x| {
            x.interrupt_reads = Some((start, period));
            x.read_chunk = chunk;
        });
    }
    // one case in three: the server sends all its PDUs in one burst before the application reads the first one (what is
    // queued behind a PDU must not leak into it)
    let burst = c.path != "global-direct" && c.gen[1] % 3 == 0;
    if burst {
        for p in c.pdus.iter() {
            s.push("fast-path", &pdu_updates(p), Wrap::FastPath { sec: p.sec, long: p.long });
        }
        rep.hist("burst-delivery");
    }
    for (pi, p) in c.pdus.iter().enumerate() {
        let expected: Vec<&Rect> = p.updates.iter().flat_map(|u| match u {
            Upd::Bitmap(r) => r.iter().collect::<Vec<_>>(),
            _ => vec![],
        }).collect();
        nrects += expected.len();
        let ub = pdu_updates(p);
        let mut got: Vec<BitmapEvent> = Vec::new();
        let res = if c.path == "global-direct" {
            let bytes = ub.v.clone();
            mon::guarded(|| match &mut s.client {
                Client::Plain(pc) => pc
                    .global
                    .read(tpkt::Payload::FastPath(p.sec, Cursor::new(bytes)), &mut pc.mcs, |e| {
                        if let RdpEvent::Bitmap(b) = e {
                            got.push(b)
                        }
                    })
                    .map_err(|e| crate::client::err_kind(&e)),
                _ => Err("no plain client".to_string()),
            })
        } else {
            if !burst {
                s.push("fast-path", &ub, Wrap::FastPath { sec: p.sec, long: p.long });
            }
            mon::guarded(|| {
                s.client
                    .read(|e| {
                        if let RdpEvent::Bitmap(b) = e {
                            got.push(b)
                        }
                    })
                    .map_err(|e| crate::client::err_kind(&e))
            })
        };
        for u in &p.updates {
            if let Upd::Other { name, .. } = u {
                rep.set("other_update_kinds", name.to_string());
            }
        }
        match res {
            Err(pn) => {
                rep.hist("panic");
                viol.push((format!("C10/{}/{}", c.path, pn.sig()), format!("pdu {}: {} at {}:{}", pi, pn.msg, pn.file, pn.line)));
                break;
            }
            Ok(Err(e)) => {
                rep.hist("read-error");
                viol.push((format!("C10/{}/read-error:{}", c.path, e), format!("pdu {} ({} updates, {} rectangles): read returned {}", pi, p.updates.len(), expected.len(), e)));
                break;
            }
            Ok(Ok(())) => {}
        }
        if got.len() != expected.len() {
            let what = if got.len() < expected.len() { "rectangles-lost" } else { "rectangles-extra" };
            viol.push((format!("C10/{}/{}", c.path, what), format!("pdu {}: callback invoked {} times for {} rectangles", pi, got.len(), expected.len())));
            continue;
        }
        let mut all_ok = true;
        for (i, (e, r)) in got.iter().zip(expected.iter()).enumerate() {
            if let Some(d) = same(e, r) {
                all_ok = false;
                let kind = d.split(' ').next().unwrap_or("").to_string();
                // is it a permutation?
                let swapped = expected.iter().any(|x| same(e, x).is_none());
                viol.push((format!("C10/{}/{}{}", c.path, kind, if swapped { "(out-of-order)" } else { "" }), format!("pdu {} rectangle {}: {}", pi, i, d)));
                break;
            }
        }
        rep.hist(if all_ok { "pdu-exact" } else { "pdu-mismatch" });
    }
    rep.count("rectangles_checked", nrects as u64);
    rep.count("pdus", c.pdus.len() as u64);
    if c.class == "interrupted-reads" {
        rep.count("read_calls_interrupted", s.server.with(|x| x.interrupted) as u64);
    }
    if nrects > 0 {
        rep.nontrivial(fnv(desc.to_string().as_bytes()));
    }
    rep.set("paths", c.path.to_string());
    if rep.want_sample() && desc.to_string().len() < 1500 {
        let d = desc.clone();
        rep.sample(|| d);
    }
    for (sig, detail) in viol {
        rep.violation(sig, detail, json!({"gen": c.gen, "summary": desc}));
    }
}

pub fn run(cfg: &Cfg) -> Report {
    crate::tls::prewarm(false);
    let seed = cfg.seed;
    let mut total = Report::new();
    let plan: Vec<(u64, u64)> = vec![(0, cfg.n(20_000, 1_000_000)), (1, if cfg.quick() { 3000 } else { 32766 }), (2, cfg.n(600, 20_000)), (3, cfg.n(10_000, 300_000)), (4, cfg.n(160, 4_000)), (5, cfg.n(3_000, 200_000)), (6, cfg.n(2, 32))];
    for (class, n) in plan {
        if !cfg.wants(class) {
            continue;
        }
        let rep = par_run(cfg, n, 16, |idx, rep| {
            // quick tier samples the total-length sweep with a stride
            let i = if class == 1 && cfg.quick() { (idx * 11) % 32766 } else { idx };
            mon::begin_case(10, class, i, seed);
            let c = make_case(class, i, seed);
            check_case(&c, rep);
        });
        total.count(&format!("cases_class_{}", class), n);
        total.merge(rep);
    }
    total
}

pub fn replay(_cfg: &Cfg, v: &Value) -> Report {
    let mut rep = Report::new();
    mon::set_quiet(false);
    let g: Vec<u64> = if let Some(a) = v.get("death_case") {
        let a: Vec<u64> = a.as_array().unwrap().iter().map(|x| x.as_u64().unwrap()).collect();
        vec![a[1], a[2], a[3]]
    } else {
        v["gen"].as_array().unwrap().iter().map(|x| x.as_u64().unwrap()).collect()
    };
    let c = make_case(g[0], g[1], g[2]);
    check_case(&c, &mut rep);
    rep
}
