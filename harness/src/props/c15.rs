//! C15 — NTLMv2 AUTHENTICATE tokens are accepted by an independent MS-NLMP server.
//! Oracle: refs::ntlm::verify_authenticate (own MD4/RC4/HMAC, checked against MS-NLMP vectors).

use crate::client;
use crate::mon;
use crate::refs::ntlm::{self, Account};
use crate::report::Report;
use crate::rng::{fnv, hex, unhex, Rng};
use crate::{par_run, Cfg};
use rdp::nla::ntlm::Ntlm;
use rdp::nla::sspi::AuthenticationProtocol;
use serde_json::{json, Value};

#[derive(Clone, Debug)]
pub struct Case {
    pub domain: String,
    pub user: String,
    pub password: String,
    pub from_hash: bool,
    pub flags: u32,
    pub server_challenge: [u8; 8],
    pub target_name: Vec<u8>,
    pub target_info: Vec<u8>,
    pub class: &'static str,
}

impl Case {
    fn to_json(&self) -> Value {
        json!({"domain": self.domain, "user": self.user, "password": self.password, "from_hash": self.from_hash, "flags": self.flags,
               "server_challenge": hex(&self.server_challenge), "target_name": hex(&self.target_name), "target_info": hex(&self.target_info), "class": self.class})
    }
    fn from_json(v: &Value) -> Case {
        let mut sc = [0u8; 8];
        sc.copy_from_slice(&unhex(v["server_challenge"].as_str().unwrap())[..8]);
        Case {
            domain: v["domain"].as_str().unwrap().into(),
            user: v["user"].as_str().unwrap().into(),
            password: v["password"].as_str().unwrap().into(),
            from_hash: v["from_hash"].as_bool().unwrap(),
            flags: v["flags"].as_u64().unwrap() as u32,
            server_challenge: sc,
            target_name: unhex(v["target_name"].as_str().unwrap()),
            target_info: unhex(v["target_info"].as_str().unwrap()),
            class: "replay",
        }
    }
}

const BASE_FLAGS: u32 = 0xE28A8235;

fn simple_upper(s: &str) -> String {
    s.chars()
        .map(|c| {
            let mut u = c.to_uppercase();
            match (u.next(), u.next()) {
                (Some(a), None) => a,
                _ => c,
            }
        })
        .collect()
}

pub fn make_case(class: u64, idx: u64, seed: u64) -> Case {
    let mut r = Rng::derive(seed, "C15", class, idx);
    let mut flags = BASE_FLAGS;
    let mut cls = "unicode-names";
    let mut big_pair = 0usize;
    let (mut domain, mut user, mut password) = (client::unicode_string(&mut r, 40), client::unicode_string(&mut r, 40), client::unicode_string(&mut r, 64));
    match class {
        1 => {
            // OEM character set negotiated: names restricted to ASCII (what "OEM" means beyond that is not defined here)
            flags = (flags & !ntlm::F_UNICODE) | ntlm::F_OEM;
            domain = client::ascii_name(&mut r, 15);
            user = client::ascii_name(&mut r, 20);
            cls = "oem-charset";
        }
        2 => {
            flags &= !ntlm::F_VERSION;
            cls = "no-version-flag";
        }
        3 => {
            // mixed case, long names
            let n = r.range(1, 64) as usize;
            user = (0..n).map(|_| *r.pick(&['a', 'B', 'c', 'D', 'é', 'É', 'ø', 'Ж', 'ж', 'z', 'Z', '1'])).collect();
            let n = r.range(0, 64) as usize;
            domain = (0..n).map(|_| *r.pick(&['a', 'B', 'c', 'D', 'é', 'É', '.', '-', 'x'])).collect();
            cls = "mixed-case";
        }
        4 => {
            // characters whose simple and full upper-casing differ: outcome recorded as an observation only
            let n = r.range(1, 10) as usize;
            user = (0..n).map(|_| *r.pick(&['ß', 'ŉ', 'ǰ', 'ς', 'ﬁ', 'a', 'İ', 'ı'])).collect();
            cls = "special-uppercasing";
        }
        5 => {
            flags &= !ntlm::F_56;
            if r.chance(1, 2) {
                flags &= !ntlm::F_TARGET_TYPE_SERVER;
            }
            if r.chance(1, 2) {
                flags &= !ntlm::F_ALWAYS_SIGN;
            }
            // a server may echo both character-set bits of the client's offer: Unicode then takes precedence (MS-NLMP 2.2.2.5)
            if r.chance(1, 3) {
                flags |= ntlm::F_OEM;
            }
            cls = "flag-variants";
        }
        6 => {
            // very long names and target info: every field still fits its 16-bit length, the token as a whole passes 64 KiB
            let units = [1000usize, 5000, 12000, 16000, 20000, 32767];
            let (nd, nu) = (*r.pick(&units), *r.pick(&units));
            let alphabet = ['a', 'B', 'é', 'Ж', '中', '9', '-'];
            domain = (0..nd).map(|_| *r.pick(&alphabet)).collect();
            user = (0..nu).map(|_| *r.pick(&alphabet)).collect();
            big_pair = *r.pick(&[0usize, 9000, 30000, 60000]);
            if r.chance(1, 3) {
                flags = (flags & !ntlm::F_UNICODE) | ntlm::F_OEM;
                domain = (0..nd).map(|i| (b'a' + (i % 26) as u8) as char).collect();
                user = (0..nu).map(|i| (b'A' + (i % 26) as u8) as char).collect();
            }
            cls = "large-fields";
        }
        _ => {}
    }
    if r.chance(1, 8) {
        password = String::new();
    }
    if idx % 16 == 5 && class != 6 && class != 1 {
        // domains with a meaning of their own to a logon dialog: "this computer", none, the default workgroup
        domain = (*r.pick(&[".", "", "..", ".\\", "WORKGROUP", "localhost"])).to_string();
    }
    if class == 0 && idx % 8 == 3 {
        // characters a careless reader would trim are part of the password: line terminators, blanks, tabs, NUL at either end
        let edge = *r.pick(&["\n", "\r\n", "\r", " ", "\t", "\u{0}", "\n\n", " \n"]);
        password = match r.below(3) {
            0 => format!("{}{}", password, edge),
            1 => format!("{}{}", edge, password),
            _ => edge.to_string(),
        };
        cls = "password-edges";
    }
    if class == 8 {
        // password lengths: every length up to 300 UTF-16 units, then long ones; the units being one- or two-unit characters
        let units = if idx % 400 < 320 { (idx % 400) as usize } else { *r.pick(&[511usize, 512, 513, 1000, 4096, 20000]) };
        let style = (idx / 400) % 3;
        let mut pw = String::new();
        let mut left = units;
        while left > 0 {
            let c = match style {
                0 => *r.pick(&['a', 'Z', '7', '!']),
                1 => *r.pick(&['\u{e9}', '\u{416}', '\u{4e2d}', 'x']),
                _ => *r.pick(&['\u{1f511}', '\u{1f600}', 'q', '\u{e9}']),
            };
            if c.len_utf16() > left {
                pw.push('k');
                left -= 1;
            } else {
                pw.push(c);
                left -= c.len_utf16();
            }
        }
        password = pw;
        cls = "password-lengths";
    }
    // target info: random subset and order of AV pairs 1..10 with random lengths, always a timestamp
    let mut pairs: Vec<(u16, Vec<u8>)> = Vec::new();
    for id in 1u16..=10 {
        if id != 7 && r.chance(1, 2) {
            let l = match r.below(4) {
                0 => 0,
                1 => r.range(0, 300) as usize,
                _ => (r.range(0, 20) * 2) as usize,
            };
            pairs.push((id, r.bytes(l)));
        }
    }
    pairs.push((7, r.bytes(8)));
    if big_pair > 0 {
        pairs.retain(|p| p.0 != 9);
        pairs.push((9, r.bytes(big_pair)));
    }
    for i in (1..pairs.len()).rev() {
        let j = r.below(i as u64 + 1) as usize;
        pairs.swap(i, j);
    }
    let mut sc = [0u8; 8];
    sc.copy_from_slice(&r.bytes(8));
    let tn = r.range(0, 16) as usize * 2;
    Case { domain, user, password, from_hash: r.chance(1, 3), flags, server_challenge: sc, target_name: r.bytes(tn), target_info: ntlm::av_pairs(&pairs), class: cls }
}

pub fn check_case(c: &Case, rep: &mut Report) {
    rep.eval();
    let nt_hash = ntlm::nt_hash(&c.password);
    let account = Account { domain: c.domain.clone(), user: c.user.clone(), nt_hash };
    let challenge = ntlm::build_challenge(c.flags, &c.server_challenge, &c.target_name, &c.target_info);
    let (d, u, p, fh) = (c.domain.clone(), c.user.clone(), c.password.clone(), c.from_hash);
    let ch = challenge.clone();
    let round_seed = fnv(&c.server_challenge) ^ fnv(c.user.as_bytes());
    let res = mon::guarded(move || {
        let mut n = if fh { Ntlm::from_hash(d, u, &nt_hash) } else { Ntlm::new(d, u, p) };
        // one case in four: the context has already answered one or two other exchanges (a server that restarts the
        // exchange, an application that reconnects with the context it holds); the token judged is the last one
        let earlier = if round_seed % 4 == 0 { 1 + (round_seed / 4 % 2) as usize } else { 0 };
        for k in 0..earlier {
            let mut r0 = Rng::derive(round_seed, "C15-earlier", k as u64, 0);
            let mut sc0 = [0u8; 8];
            sc0.copy_from_slice(&r0.bytes(8));
            let ti0 = ntlm::av_pairs(&[(2, r0.bytes(6)), (7, r0.bytes(8))]);
            let ch0 = ntlm::build_challenge(BASE_FLAGS, &sc0, b"", &ti0);
            let _ = n.create_negotiate_message();
            let _ = n.read_challenge_message(&ch0);
        }
        // one case in five: the application asked for a NEGOTIATE, dropped it (a first attempt that never left) and asked
        // again; the server has seen the last one only
        if round_seed % 5 == 1 {
            let _ = n.create_negotiate_message();
            if round_seed % 10 == 1 {
                let _ = n.create_negotiate_message();
            }
        }
        let neg = n.create_negotiate_message().map_err(|e| client::err_kind(&e))?;
        let auth = n.read_challenge_message(&ch).map_err(|e| client::err_kind(&e))?;
        Ok::<_, String>((neg, auth))
    });
    let mut viol: Option<(String, String)> = None;
    match res {
        Err(pn) => {
            rep.hist("panic");
            viol = Some((format!("C15/{}/{}", c.class, pn.sig()), format!("{} at {}:{}", pn.msg, pn.file, pn.line)));
        }
        Ok(Err(e)) => {
            rep.hist("client-error");
            viol = Some((format!("C15/{}/client-error:{}", c.class, e), format!("the client refused a well-formed CHALLENGE: {}", e)));
        }
        Ok(Ok((neg, auth))) => {
            if let Err(e) = ntlm::parse_negotiate(&neg) {
                viol = Some((format!("C15/{}/negotiate:{}", c.class, mon::normalise(&e)), e));
            } else {
                match ntlm::verify_authenticate(&neg, &challenge, &auth, &c.server_challenge, c.flags, &c.target_info, &account) {
                    Ok(a) => {
                        rep.hist("accepted");
                        if a.temp_trailing == 0 {
                            rep.observe("temp-without-trailing-Z(4)", || json!("the client's temp ends right after the AV pair list (MS-NLMP appends Z(4)); servers verify the proof over what was sent, so this is recorded, not judged"));
                        }
                        if !a.lm_zero {
                            rep.count("lm_proof_verified", 1);
                        }
                        rep.count("mic_verified", 1);
                    }
                    Err(e) => {
                        rep.hist("rejected");
                        if c.class == "special-uppercasing" && simple_upper(&c.user) != c.user.to_uppercase() {
                            rep.observe("special-uppercasing-rejected", || json!({"user": c.user, "reason": e}));
                        } else {
                            viol = Some((format!("C15/{}/rejected:{}", c.class, mon::normalise(&e)), format!("independent MS-NLMP server rejects the AUTHENTICATE token: {}", e)));
                            if e.contains("payload starts at offset") {
                                // keep judging the rest of the token under the layout it actually has
                                if let Err(e2) = ntlm::verify_authenticate_layout(&neg, &challenge, &auth, &c.server_challenge, c.flags, &c.target_info, &account, true) {
                                    rep.violation(format!("C15/{}/rejected-beyond-layout:{}", c.class, mon::normalise(&e2)), format!("besides its layout the token fails: {}", e2), c.to_json());
                                } else {
                                    rep.count("no_version_tokens_otherwise_valid", 1);
                                }
                            }
                        }
                    }
                }
            }
        }
    }
    if c.class == "special-uppercasing" && simple_upper(&c.user) != c.user.to_uppercase() {
        rep.observe("names-where-simple-and-full-uppercasing-differ", || json!({"user": c.user, "note": "MS-NLMP does not say which upper-casing applies; the reference uses the same full mapping as Rust's to_uppercase, a Windows server may differ"}));
    }
    let j = c.to_json();
    rep.nontrivial(fnv(j.to_string().as_bytes()));
    rep.set("classes", c.class.to_string());
    if rep.want_sample() {
        let jj = j.clone();
        rep.sample(|| jj);
    }
    if let Some((sig, detail)) = viol {
        rep.violation(sig, detail, j);
    }
}

pub fn run(cfg: &Cfg) -> Report {
    let seed = cfg.seed;
    let mut total = Report::new();
    // self-check of the verifier with a reference client (a failure here is a harness failure)
    {
        let mut r = Rng::derive(seed, "C15-self", 0, 0);
        for i in 0..200 {
            let c = make_case(if i % 2 == 0 { 0 } else { 1 }, i, seed ^ 0x5e1f);
            let account = Account { domain: c.domain.clone(), user: c.user.clone(), nt_hash: ntlm::nt_hash(&c.password) };
            let neg = vec![0x4e, 0x54, 0x4c, 0x4d, 0x53, 0x53, 0x50, 0, 1, 0, 0, 0, 0x35, 0x82, 0x08, 0x60, 0, 0, 0, 0, 0, 0, 0, 0, 0, 0, 0, 0, 0, 0, 0, 0];
            let chal = ntlm::build_challenge(c.flags, &c.server_challenge, &c.target_name, &c.target_info);
            let mut cc = [0u8; 8];
            cc.copy_from_slice(&r.bytes(8));
            let mut sk = [0u8; 16];
            sk.copy_from_slice(&r.bytes(16));
            let tok = ntlm::build_authenticate(&neg, &chal, &c.server_challenge, c.flags, &c.target_info, &account, &cc, &sk);
            match ntlm::verify_authenticate(&neg, &chal, &tok, &c.server_challenge, c.flags, &c.target_info, &account) {
                Ok(a) if a.exported_session_key == sk => {}
                other => total.selfcheck_fail(format!("reference client token rejected by reference server: {:?}", other.err())),
            }
            // and a corrupted one must be rejected
            let mut bad = tok.clone();
            let k = 88 + (i as usize % (bad.len() - 88));
            bad[k] ^= 0x10;
            if ntlm::verify_authenticate(&neg, &chal, &bad, &c.server_challenge, c.flags, &c.target_info, &account).is_ok() {
                // flips inside the workstation/unused area could be harmless; none exists in this layout
                total.selfcheck_fail(format!("reference server accepted a corrupted token (byte {})", k));
            }
        }
    }
    let plan: Vec<(u64, u64)> = vec![(0, cfg.n(10_000, 1_200_000)), (1, cfg.n(3_000, 200_000)), (2, cfg.n(1_000, 100_000)), (3, cfg.n(3_000, 200_000)), (4, cfg.n(500, 20_000)), (5, cfg.n(2_500, 200_000)), (6, cfg.n(300, 20_000)), (8, cfg.n(1_200, 60_000))];
    for (class, n) in plan {
        if !cfg.wants(class) {
            continue;
        }
        let rep = par_run(cfg, n, 64, |idx, rep| {
            mon::begin_case(15, class, idx, seed);
            let c = make_case(class, idx, seed);
            check_case(&c, rep);
        });
        total.count(&format!("cases_class_{}", class), n);
        total.merge(rep);
    }
    // class 7: the token as `Connector::connect` produces it over TLS, for accounts configured by password or by NT hash
    // (the password string then being empty or unrelated), judged by the reference CredSSP server
    if cfg.wants(7) {
        crate::tls::prewarm(false);
        let n = cfg.n(400, 20_000);
        let rep = par_run(cfg, n, 4, |idx, rep| {
            mon::begin_case(15, 7, idx, seed);
            connector_case(idx, seed, rep);
        });
        total.count("cases_class_7_connector", n);
        total.merge(rep);
    }
    total
}

fn connector_case(idx: u64, seed: u64, rep: &mut Report) {
    use crate::client::ConnCfg;
    rep.eval();
    let mut r = Rng::derive(seed, "C15-connector", 7, idx);
    let real_password = client::unicode_string(&mut r, 20);
    let mut c = ConnCfg::default();
    c.domain = client::ascii_name(&mut r, 10);
    c.user = client::ascii_name(&mut r, 10);
    c.nla = true;
    // the modes that empty what is sent AFTER the authentication (restricted admin, blank credentials) and the logon flag
    // must not change whom the token authenticates
    c.restricted_admin = r.chance(1, 3);
    c.blank_creds = r.chance(1, 4);
    c.auto_logon = r.chance(1, 2);
    let by_hash = idx % 2 == 0;
    if by_hash {
        c.hash = Some(ntlm::nt_hash(&real_password).to_vec());
        c.password = if r.chance(1, 2) { String::new() } else { "not-the-password".to_string() };
    } else {
        c.password = real_password.clone();
    }
    // one Connector, one to three connections in a row (a reconnection after a lost link uses the same object): every
    // one of them faces a server of its own that knows the account, and every token is judged
    let rounds = 1 + (idx / 2) % 3;
    let rp = json!({"connector_case": [idx, seed]});
    let servers: Vec<crate::server::Duplex> = (0..rounds)
        .map(|k| {
            let mut p = crate::refs::proto::Profile::default();
            p.selected_protocol = 2;
            let d = crate::server::Duplex::new(p);
            let mut nr = Rng::derive(seed, "C15-connector-nla", 7 + k, idx);
            let mut nla = crate::gen::nla_cfg(&mut nr, &c);
            nla.account = Account { domain: c.domain.clone(), user: c.user.clone(), nt_hash: ntlm::nt_hash(&real_password) };
            d.with(|s| {
                s.tls_identity = 2;
                s.nla_cfg = nla;
            });
            d
        })
        .collect();
    let probes = servers.clone();
    let cfgc = c.clone();
    let res = mon::guarded(move || {
        let mut k = crate::client::connector(&cfgc);
        let mut out = Vec::new();
        for d in servers {
            out.push(k.connect(d).map(|_| ()).map_err(|e| client::err_kind(&e)));
        }
        out
    });
    match res {
        Err(pn) => rep.violation(format!("C15/connector/{}", pn.sig()), format!("{} at {}:{}", pn.msg, pn.file, pn.line), rp),
        Ok(_) => {
            for (k, probe) in probes.iter().enumerate() {
                let auth = probe.with(|s| s.nla_log.auth.clone());
                let nth = if k == 0 { "" } else { "-reconnection" };
                match auth {
                    Some(Ok(_)) => {
                        rep.hist(if k == 0 { "accepted" } else { "accepted-on-reconnection" });
                        if c.restricted_admin {
                            rep.hist("accepted-in-restricted-admin-mode");
                        }
                    }
                    Some(Err(e)) if e.contains("payload starts at offset") => rep.hist("no-version-layout(known)"),
                    Some(Err(e)) => rep.violation(
                        format!("C15/connector-{}{}/rejected:{}", if by_hash { "hash" } else { "password" }, nth, mon::normalise(&e)),
                        format!("connection {} of {} on one Connector configured by {}: the reference CredSSP server rejects the AUTHENTICATE token: {}", k + 1, rounds, if by_hash { "NT hash" } else { "password" }, e),
                        rp.clone(),
                    ),
                    None => rep.inconclusive("the AUTHENTICATE round was not reached"),
                }
            }
            rep.nontrivial(idx ^ 0xC15C);
        }
    }
}

pub fn replay(_cfg: &Cfg, v: &Value) -> Report {
    let mut rep = Report::new();
    mon::set_quiet(false);
    if let Some(a) = v.get("connector_case").and_then(|a| a.as_array()) {
        connector_case(a[0].as_u64().unwrap_or(0), a[1].as_u64().unwrap_or(1), &mut rep);
        return rep;
    }
    let c = if let Some(a) = v.get("death_case") {
        let a: Vec<u64> = a.as_array().unwrap().iter().map(|x| x.as_u64().unwrap()).collect();
        if a[1] == 7 {
            connector_case(a[2], a[3], &mut rep);
            return rep;
        }
        make_case(a[1], a[2], a[3])
    } else {
        Case::from_json(v)
    };
    check_case(&c, &mut rep);
    rep
}
