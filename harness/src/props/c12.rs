//! C12 — activation state machine: one finalization per demand-active, input gated.
//! Oracle: a 6-state reference automaton written from the statement; the client's hidden state is
//! never read, only its observable behaviour (PDUs emitted per step, acceptance of input attempts,
//! bitmap events delivered) is compared step by step.

use crate::mon;
use crate::refs::build::B;
use crate::refs::proto::{self, ClientMsg, Rect, ShareMsg};
use crate::report::Report;
use crate::rng::{fnv, Rng};
use crate::server::Wrap;
use crate::session::{self, Session};
use crate::{par_run, Cfg};
use rdp::core::event::{KeyboardEvent, PointerButton, PointerEvent, RdpEvent};
use serde_json::{json, Value};

pub const NSYM: u64 = 11;
pub const SYMS: [&str; 13] = [
    "demand-active",
    "synchronize",
    "control-cooperate",
    "control-granted",
    "control-other",
    "font-map",
    "set-error-info",
    "unknown-data",
    "deactivate-all",
    "fp-bitmap",
    "fp-other",
    // only in random histories:
    "multi-pdu",
    "demand-active-same-share-id",
];

#[derive(Clone, Copy, PartialEq, Eq, Debug)]
enum St {
    AwaitDemand,
    AwaitSync,
    AwaitCoop,
    AwaitGranted,
    AwaitFontMap,
    Active,
}

const FINALIZE: [&str; 5] = ["ConfirmActive", "Synchronize", "Control(4)", "Control(1)", "FontList"];

/// reference automaton: (next state, PDUs the client must emit, bitmaps it must deliver)
fn step(st: St, sym: usize, nrects: usize) -> (St, bool, usize) {
    match (st, SYMS[sym]) {
        (St::AwaitDemand, "demand-active") | (St::AwaitDemand, "demand-active-same-share-id") => (St::AwaitSync, true, 0),
        (St::AwaitSync, "synchronize") => (St::AwaitCoop, false, 0),
        (St::AwaitCoop, "control-cooperate") => (St::AwaitGranted, false, 0),
        (St::AwaitGranted, "control-granted") => (St::AwaitFontMap, false, 0),
        (St::AwaitFontMap, "font-map") => (St::Active, false, 0),
        (St::Active, "deactivate-all") => (St::AwaitDemand, false, 0),
        (St::Active, "multi-pdu") => (St::AwaitDemand, false, 0), // contains a deactivate-all in the middle
        (St::Active, "fp-bitmap") => (St::Active, false, nrects),
        (s, _) => (s, false, 0),
    }
}

pub struct History {
    pub syms: Vec<usize>,
    pub share_ids: Vec<u32>,
    pub class: &'static str,
    pub plain: bool,
    /// selects among the well-formed encodings of each symbol (0: the Windows-like ones)
    pub variant: u64,
    /// when set, every "unknown-data" symbol of the history carries this pduType2
    pub data_type: Option<u8>,
}

const DESCRIPTORS: [&[u8]; 5] = [&[0], &[], b"RDP\0", &[0x41], &[0x20; 64]];

pub const OTHER_DATA_TYPES: [u8; 24] = [0x02, 0x1B, 0x1C, 0x21, 0x22, 0x23, 0x24, 0x25, 0x26, 0x27, 0x29, 0x2B, 0x2C, 0x2D, 0x2E, 0x30, 0x31, 0x32, 0x36, 0x37, 0x00, 0x01, 0x38, 0xFF];

fn build_symbol(s: &Session, sym: usize, share_id: u32, current_share: u32, k: usize, variant: u64, data_type: Option<u8>) -> (B, Wrap, usize) {
    let p = &s.profile;
    let sid = current_share;
    let mut vr = Rng::derive(variant, "C12-variant", sym as u64, k as u64);
    let desc: &[u8] = if variant == 0 { &[0] } else { DESCRIPTORS[vr.below(DESCRIPTORS.len() as u64) as usize] };
    if variant != 0 && (SYMS[sym] == "demand-active" || SYMS[sym] == "demand-active-same-share-id") && vr.chance(2, 3) {
        let mut p2 = p.clone();
        p2.caps = crate::gen::caps_varied(&mut vr);
        return (proto::demand_active(&p2, share_id), Wrap::Sdi, 0);
    }
    match SYMS[sym] {
        "demand-active" | "demand-active-same-share-id" => (proto::demand_active(p, share_id), Wrap::Sdi, 0),
        "synchronize" => (proto::synchronize(p, sid, p.user_id), Wrap::Sdi, 0),
        "control-cooperate" => (proto::control(p, sid, 4, 0, 0), Wrap::Sdi, 0),
        "control-granted" => (proto::control(p, sid, 2, p.user_id, 0x03ea), Wrap::Sdi, 0),
        "control-other" => (proto::control(p, sid, if k % 2 == 0 { 3 } else { 1 }, 0, 0), Wrap::Sdi, 0),
        "font-map" => (proto::font_map(p, sid), Wrap::Sdi, 0),
        "set-error-info" => (proto::set_error_info(p, sid, 0x0000000C), Wrap::Sdi, 0),
        "unknown-data" => {
            // any data PDU type that has no meaning for the activation: with the Windows-like encoding two fixed ones, else
            // every type of MS-RDPBCGR 2.2.8.1.1.1.2 but synchronize, control, font map and set-error-info
            let t = match data_type {
                Some(t) => t,
                None if variant == 0 => {
                    if k % 2 == 0 {
                        0x26
                    } else {
                        0x36
                    }
                }
                None => OTHER_DATA_TYPES[vr.below(OTHER_DATA_TYPES.len() as u64) as usize],
            };
            (proto::other_data_pdu(p, sid, t, &[0u8; 12]), Wrap::Sdi, 0)
        }
        "deactivate-all" => {
            // the share id a deactivate-all carries has no bearing on its effect (with the Windows-like encoding: the current one)
            let id = if variant == 0 { sid } else { *vr.pick(&[sid, sid, 0, sid.wrapping_add(1), 0xffff_ffff, 0x0002_0001]) };
            (proto::deactivate_all_with(p, id, desc), Wrap::Sdi, 0)
        }
        "multi-pdu" => {
            // several share-control PDUs in one payload, a deactivate-all among them: whatever stands before or after it
            // (PDUs the client decodes, PDUs it has no decoder for) the deactivation takes effect
            let mut b = B::new();
            let shape = if variant == 0 { 0 } else { vr.below(5) };
            let undecodable = proto::other_data_pdu(p, sid, [0x26u8, 0x38, 0x02, 0x21][(k % 4) as usize], &[0u8; 8]);
            match shape {
                0 => {
                    b.nest("a", &proto::set_error_info(p, sid, 1));
                    b.nest("b", &proto::deactivate_all_with(p, sid, desc));
                    b.nest("c", &proto::other_data_pdu(p, sid, 0x26, &[0u8; 8]));
                }
                1 => {
                    b.nest("a", &undecodable);
                    b.nest("b", &proto::deactivate_all_with(p, sid, desc));
                }
                2 => {
                    b.nest("a", &undecodable);
                    b.nest("b", &undecodable);
                    b.nest("c", &proto::deactivate_all_with(p, sid, desc));
                    b.nest("d", &proto::set_error_info(p, sid, 2));
                }
                3 => {
                    b.nest("a", &proto::deactivate_all_with(p, sid, desc));
                    b.nest("b", &undecodable);
                }
                _ => {
                    // a PDU the client decodes, but one that no state of the handshake waits for: were it a synchronize, a
                    // client waiting for the server's synchronize would rightly take the payload's first PDU for it
                    b.nest("a", &proto::control(p, sid, 3, 0, 0));
                    b.nest("b", &undecodable);
                    b.nest("c", &proto::deactivate_all_with(p, sid, desc));
                }
            }
            (b, Wrap::Sdi, 0)
        }
        "fp-bitmap" => {
            let n = 1 + k % 3;
            let rects: Vec<Rect> = (0..n).map(|i| Rect { left: i as u16, top: 1, right: i as u16 + 1, bottom: 2, width: 2, height: 2, bpp: 16, flags: 0, data: vec![k as u8; 8] }).collect();
            (proto::fp_update(1, &proto::bitmap_update_body(&rects)), Wrap::FastPath { sec: 0, long: k % 2 == 0 }, n)
        }
        _ => {
            // fp-other: pointer hidden / synchronize
            let mut b = B::new();
            b.nest("u0", &proto::fp_update(if k % 2 == 0 { 5 } else { 3 }, &B::new()));
            (b, Wrap::FastPath { sec: 0, long: false }, 0)
        }
    }
}

fn new_events(s: &Session, from: usize) -> (Vec<ClientMsg>, usize) {
    s.server.with(|sv| {
        let ev: Vec<ClientMsg> = sv.events.iter().skip(from).map(|e| e.msg.clone()).collect();
        (ev, sv.malformed.len())
    })
}

pub fn check_history(h: &History, rep: &mut Report) {
    rep.eval();
    let desc = json!({"class": h.class, "plain": h.plain, "syms": h.syms.iter().map(|s| SYMS[*s]).collect::<Vec<_>>(), "sym_idx": h.syms, "share_ids": h.share_ids, "variant": h.variant, "data_type": h.data_type});
    let opened = mon::guarded(|| if h.plain { session::open_plain(session::full_profile(), true) } else { session::open_real(session::full_profile(), true) });
    let mut s = match opened {
        Ok(Ok(s)) => s,
        Ok(Err(e)) => {
            rep.selfcheck_fail(format!("could not open a session: {}", e));
            return;
        }
        Err(p) => {
            rep.selfcheck_fail(format!("panic while opening a session: {}", p.msg));
            return;
        }
    };
    // licence was consumed by connect; the client now awaits a demand-active
    let mut st = St::AwaitDemand;
    let mut cur_share = h.share_ids[0];
    let mut viol: Vec<(String, String)> = Vec::new();
    let mut nev = s.server.with(|sv| sv.events.len());
    let mut malformed0 = s.server.with(|sv| sv.malformed.len());
    for (k, sym) in h.syms.iter().enumerate() {
        let share = h.share_ids[k % h.share_ids.len()];
        let (b, wrap, nrects) = build_symbol(&s, *sym, share, cur_share, k, h.variant, h.data_type);
        let (next, must_finalize, must_bitmaps) = step(st, *sym, nrects);
        let tag = format!("{:?}/{}", st, SYMS[*sym]);
        s.push(SYMS[*sym], &b, wrap);
        let r = mon::guarded(|| s.read_collect());
        let (res, bitmaps) = match r {
            Ok(x) => x,
            Err(p) => {
                rep.hist("panic");
                viol.push((format!("C12/{}/{}", tag, p.sig()), format!("step {}: {} at {}:{}", k, p.msg, p.file, p.line)));
                break;
            }
        };
        rep.set("state_symbol_pairs", tag.clone());
        rep.set("observations", format!("{} -> {} emit={} {}", tag, if res.is_ok() { "Ok" } else { "Err" }, must_finalize, bitmaps.len()));
        let (ev, mal) = new_events(&s, nev);
        nev += ev.len();
        let names: Vec<String> = ev.iter().map(|m| m.name()).collect();
        if mal != malformed0 {
            viol.push((format!("C12/{}/unparseable-emission", tag), format!("step {}: the client wrote a frame the strict parser rejects", k)));
            malformed0 = mal;
        }
        if must_finalize {
            cur_share = share;
            let ok = names == FINALIZE;
            let ids_ok = ev.iter().all(|m| match m {
                ClientMsg::Share { msg, .. } => match msg {
                    ShareMsg::ConfirmActive { share_id, .. } | ShareMsg::Synchronize { share_id, .. } | ShareMsg::Control { share_id, .. } | ShareMsg::FontList { share_id } => *share_id == share,
                    _ => false,
                },
                _ => false,
            });
            if !ok {
                viol.push((format!("C12/{}/finalization-missing-or-wrong", tag), format!("step {}: demand-active while awaiting activation must be answered by {:?}; the client emitted {:?} (read returned {:?})", k, FINALIZE, names, res)));
                // the client and the reference have diverged; further steps would only repeat the finding
                break;
            } else if !ids_ok {
                viol.push((format!("C12/{}/finalization-wrong-share-id", tag), format!("step {}: finalization does not carry share id {:#x}", k, share)));
            }
        } else if !names.is_empty() {
            viol.push((format!("C12/{}/unexpected-emission", tag), format!("step {}: nothing may be emitted here, the client emitted {:?}", k, names)));
            break;
        }
        if bitmaps.len() != must_bitmaps {
            let what = if bitmaps.len() > must_bitmaps { "bitmap-delivered-outside-active-window" } else { "bitmap-not-delivered" };
            viol.push((format!("C12/{}/{}", tag, what), format!("step {}: {} bitmap events delivered, expected {}", k, bitmaps.len(), must_bitmaps)));
        }
        st = next;
        // input attempts after every step
        let allowed = st == St::Active;
        if let Some(rc) = s.client.real() {
            let x = 100 + k as u16;
            let attempts: [(&str, bool); 6] = [("write-pointer", false), ("write-key", false), ("try_write-pointer", true), ("write-key-release", false), ("write-pointer-move", false), ("try_write-key-release", true)];
            for (name, lenient) in attempts.iter() {
                let evn = match *name {
                    "write-key" => RdpEvent::Key(KeyboardEvent { code: 0x1e, down: true }),
                    "write-key-release" | "try_write-key-release" => RdpEvent::Key(KeyboardEvent { code: 0x1e, down: false }),
                    "write-pointer-move" => RdpEvent::Pointer(PointerEvent { x, y: 9, button: PointerButton::None, down: false }),
                    _ => RdpEvent::Pointer(PointerEvent { x, y: 7, button: PointerButton::Left, down: true }),
                };
                let r = mon::guarded(|| if *lenient { rc.try_write(evn) } else { rc.write(evn) });
                let r = match r {
                    Ok(r) => r.map_err(|e| crate::client::err_kind(&e)),
                    Err(p) => {
                        viol.push((format!("C12/{:?}/{}/{}", st, name, p.sig()), format!("after step {}: {}", k, p.msg)));
                        continue;
                    }
                };
                let (ev, _) = s.server.with(|sv| {
                    let ev: Vec<ClientMsg> = sv.events.iter().skip(nev).map(|e| e.msg.clone()).collect();
                    (ev, 0)
                });
                nev += ev.len();
                let inputs = ev.iter().filter(|m| matches!(m, ClientMsg::Share { msg: ShareMsg::Input { .. }, .. })).count();
                if allowed {
                    if r.is_err() || inputs != 1 || ev.len() != 1 {
                        viol.push((format!("C12/{:?}/{}/input-not-sent-in-active-window", st, name), format!("after step {} ({}): result {:?}, {} PDUs on the wire ({} input)", k, SYMS[*sym], r, ev.len(), inputs)));
                    }
                } else {
                    if !ev.is_empty() {
                        viol.push((format!("C12/{:?}/{}/input-bytes-outside-active-window", st, name), format!("after step {} ({}): input offered outside the window put {:?} on the wire", k, SYMS[*sym], ev.iter().map(|m| m.name()).collect::<Vec<_>>())));
                    }
                    if *lenient {
                        if r.is_err() {
                            viol.push((format!("C12/{:?}/{}/lenient-write-error", st, name), format!("after step {}: try_write must drop the event silently, it returned {:?}", k, r)));
                        }
                    } else if r.is_ok() {
                        viol.push((format!("C12/{:?}/{}/input-accepted-outside-active-window", st, name), format!("after step {} ({}): write returned Ok outside the active window", k, SYMS[*sym])));
                    }
                }
            }
        }
    }
    rep.nontrivial(fnv(desc.to_string().as_bytes()));
    if h.syms.iter().any(|x| *x == 0) {
        rep.count("histories_with_activation_attempt", 1);
    }
    if rep.want_sample() && h.syms.len() >= 4 {
        let d = desc.clone();
        rep.sample(|| d);
    }
    for (sig, detail) in viol {
        rep.violation(sig, detail, desc.clone());
    }
}

fn history_from_index(mut idx: u64, len: usize, seed: u64) -> History {
    let mut syms = Vec::new();
    for _ in 0..len {
        syms.push((idx % NSYM) as usize);
        idx /= NSYM;
    }
    let mut r = Rng::derive(seed, "C12-sid", len as u64, idx);
    History { syms, share_ids: vec![0x000103ea, r.u32(), 0x000103ea], class: "exhaustive", plain: false, variant: if r.chance(1, 2) { 0 } else { r.next() | 1 }, data_type: None }
}

/// every data PDU type without a role in the activation, received in each of the six states: the happy path up to
/// that state, the PDU, then the rest of the happy path, a bitmap and a deactivation
fn data_type_history(idx: u64) -> History {
    let happy = [0usize, 1, 2, 3, 5];
    let state = (idx % 6) as usize;
    let t = OTHER_DATA_TYPES[(idx / 6) as usize % OTHER_DATA_TYPES.len()];
    let mut syms: Vec<usize> = happy[..state.min(5)].to_vec();
    syms.push(7);
    // second half of the class: the PDU stands IN PLACE of the one the state waits for (the activation must then not
    // complete), first half: it is merely inserted
    let replace = (idx / 6) as usize / OTHER_DATA_TYPES.len() % 2 == 1;
    let rest = state.min(5) + if replace && state < 5 { 1 } else { 0 };
    syms.extend_from_slice(&happy[rest..]);
    syms.extend_from_slice(&[9, 7, 9, 8, 7]);
    History { syms, share_ids: vec![0x000103ea], class: "data-type-in-every-state", plain: false, variant: 0, data_type: Some(t) }
}

fn random_history(seed: u64, idx: u64) -> History {
    let mut r = Rng::derive(seed, "C12-rand", 0, idx);
    let len = r.range(7, 40) as usize;
    let mut syms = Vec::new();
    // biased toward completing activations: follow the happy path with probability 0.7
    let happy = [0usize, 1, 2, 3, 5];
    let mut pos = 0;
    while syms.len() < len {
        if r.chance(7, 10) {
            let s = if pos < 5 { happy[pos] } else { *r.pick(&[9usize, 9, 10, 6, 7, 8, 8, 11]) };
            if pos < 5 {
                pos += 1;
            } else if s == 8 || s == 11 {
                pos = 0;
            }
            syms.push(s);
        } else {
            syms.push(r.below(12) as usize);
        }
    }
    let nid = r.range(1, 3) as usize;
    let share_ids: Vec<u32> = (0..nid).map(|_| if r.chance(1, 2) { 0x000103ea } else { r.u32() }).collect();
    let variant = if r.chance(1, 3) { 0 } else { r.next() | 1 };
    History { syms, share_ids, class: "random-long", plain: false, variant, data_type: None }
}

pub fn run(cfg: &Cfg) -> Report {
    crate::tls::prewarm(false);
    let seed = cfg.seed;
    let mut total = Report::new();
    let maxlen = if cfg.quick() { 4 } else { 6 };
    if cfg.wants(0) {
        for len in 1..=maxlen {
            let n = NSYM.pow(len as u32);
            let rep = par_run(cfg, n, 16, |idx, rep| {
                mon::begin_case(12, len as u64, idx, seed);
                let h = history_from_index(idx, len, seed);
                check_history(&h, rep);
            });
            total.count(&format!("exhaustive_histories_len_{}", len), n);
            total.merge(rep);
        }
    }
    if cfg.wants(2) {
        let n = 2 * 6 * OTHER_DATA_TYPES.len() as u64;
        let rep = par_run(cfg, n, 4, |idx, rep| {
            mon::begin_case(12, 101, idx, seed);
            let h = data_type_history(idx);
            check_history(&h, rep);
        });
        total.count("data_type_histories", n);
        total.merge(rep);
    }
    if cfg.wants(1) {
        let n = cfg.n(10_000, 1_000_000);
        let rep = par_run(cfg, n, 16, |idx, rep| {
            mon::begin_case(12, 100, idx, seed);
            let h = random_history(seed, idx);
            check_history(&h, rep);
        });
        total.count("random_histories", n);
        total.merge(rep);
    }
    total
}

pub fn replay(_cfg: &Cfg, v: &Value) -> Report {
    let mut rep = Report::new();
    mon::set_quiet(false);
    let h = if let Some(a) = v.get("death_case") {
        let a: Vec<u64> = a.as_array().unwrap().iter().map(|x| x.as_u64().unwrap()).collect();
        if a[1] == 100 {
            random_history(a[3], a[2])
        } else if a[1] == 101 {
            data_type_history(a[2])
        } else {
            history_from_index(a[2], a[1] as usize, a[3])
        }
    } else {
        History {
            syms: v["sym_idx"].as_array().unwrap().iter().map(|x| x.as_u64().unwrap() as usize).collect(),
            share_ids: v["share_ids"].as_array().unwrap().iter().map(|x| x.as_u64().unwrap() as u32).collect(),
            class: "replay",
            plain: v["plain"].as_bool().unwrap_or(false),
            variant: v["variant"].as_u64().unwrap_or(0),
            data_type: v["data_type"].as_u64().map(|t| t as u8),
        }
    };
    check_history(&h, &mut rep);
    rep
}
