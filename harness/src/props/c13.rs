//! C13 — inbound deframing is exact under arbitrary fragmentation.
//! Oracle: frames are built from specifications (so the expected kind / flags / payload / end offset
//! of each are known by construction, independently of rdp::core::tpkt); the transport hands the
//! bytes out per a schedule and counts consumption, which is compared after *every* read.

use crate::mon;
use crate::report::Report;
use crate::rng::{fnv, hex, unhex, Rng};
use crate::transport::FragmentingReader;
use crate::{par_run, Cfg};
use rdp::core::tpkt;
use rdp::core::x224;
use rdp::model::link::{Link, Stream};
use serde_json::{json, Value};

#[derive(Clone, Debug)]
pub enum Frame {
    Tpkt { pad: u8, len: u16, payload: Vec<u8> },
    Fp { action: u8, long: bool, len: u16, payload: Vec<u8> },
}

impl Frame {
    pub fn tpkt(pad: u8, payload: Vec<u8>) -> Frame {
        Frame::Tpkt { pad, len: payload.len() as u16 + 4, payload }
    }
    pub fn fp(action: u8, long: bool, payload: Vec<u8>) -> Frame {
        let hdr = if long { 3 } else { 2 };
        Frame::Fp { action, long, len: (payload.len() + hdr) as u16, payload }
    }
    pub fn header_len(&self) -> usize {
        match self {
            Frame::Tpkt { .. } => 4,
            Frame::Fp { long, .. } => {
                if *long {
                    3
                } else {
                    2
                }
            }
        }
    }
    pub fn underlength(&self) -> bool {
        match self {
            Frame::Tpkt { len, .. } => (*len as usize) < 4,
            Frame::Fp { long, len, .. } => (*len as usize) < if *long { 3 } else { 2 },
        }
    }
    pub fn bytes(&self) -> Vec<u8> {
        let mut v = Vec::new();
        match self {
            Frame::Tpkt { pad, len, payload } => {
                v.push(3);
                v.push(*pad);
                v.push((len >> 8) as u8);
                v.push(*len as u8);
                v.extend_from_slice(payload);
            }
            Frame::Fp { action, long, len, payload } => {
                v.push(*action);
                if *long {
                    v.push(0x80 | (len >> 8) as u8);
                    v.push(*len as u8);
                } else {
                    v.push(*len as u8);
                }
                v.extend_from_slice(payload);
            }
        }
        v
    }
    pub fn kind(&self) -> &'static str {
        match self {
            Frame::Tpkt { .. } => "tpkt",
            Frame::Fp { long, .. } => {
                if *long {
                    "fastpath-long"
                } else {
                    "fastpath-short"
                }
            }
        }
    }
    fn to_json(&self) -> Value {
        match self {
            Frame::Tpkt { pad, len, payload } => json!({"k": "tpkt", "pad": pad, "len": len, "payload": hex(payload)}),
            Frame::Fp { action, long, len, payload } => json!({"k": "fp", "action": action, "long": long, "len": len, "payload": hex(payload)}),
        }
    }
    fn from_json(v: &Value) -> Frame {
        if v["k"] == "tpkt" {
            Frame::Tpkt { pad: v["pad"].as_u64().unwrap() as u8, len: v["len"].as_u64().unwrap() as u16, payload: unhex(v["payload"].as_str().unwrap()) }
        } else {
            Frame::Fp {
                action: v["action"].as_u64().unwrap() as u8,
                long: v["long"].as_bool().unwrap(),
                len: v["len"].as_u64().unwrap() as u16,
                payload: unhex(v["payload"].as_str().unwrap()),
            }
        }
    }
}

/// the connection-confirm a server selecting standard RDP security sends (needed to obtain an x224 client)
pub fn cc_frame(selected: u32) -> Vec<u8> {
    let mut v = vec![3, 0, 0, 19, 0x0E, 0xD0, 0, 0, 0, 0, 0, 0x02, 0x00, 0x08, 0x00];
    v.extend_from_slice(&selected.to_le_bytes());
    v
}

pub struct Case {
    pub level: &'static str,
    pub frames: Vec<Frame>,
    pub schedule: Vec<usize>,
    pub class: &'static str,
}

impl Case {
    fn to_json(&self) -> Value {
        // keep replay files bounded: payloads are stored in full only when small
        json!({"level": self.level, "class": self.class, "schedule": self.schedule,
               "frames": self.frames.iter().map(|f| f.to_json()).collect::<Vec<_>>()})
    }
}

enum Got {
    Raw(Vec<u8>),
    Fp(u8, Vec<u8>),
    Err(String),
}

pub fn check_case(c: &Case, rep: &mut Report) {
    rep.eval();
    let mut stream = Vec::new();
    let x224_level = c.level == "x224";
    if x224_level {
        stream.extend_from_slice(&cc_frame(0));
    }
    let base = stream.len();
    let mut ends = Vec::new();
    for f in &c.frames {
        stream.extend_from_slice(&f.bytes());
        ends.push(stream.len());
    }
    let total_len = stream.len();
    // the CC is delivered unfragmented so that the schedule applies to the frames under test
    let mut sched = c.schedule.clone();
    if x224_level {
        sched = c.schedule.clone();
    }
    let tls_level = c.level == "tls";
    let tr = FragmentingReader::new(if tls_level { Vec::new() } else { stream.clone() }, sched);
    // one case in three on the plain levels: read calls are interrupted now and then (EINTR: nothing transferred, the
    // call is to be repeated); derived from the case's content so that a replay meets the same transport
    let intr = [0usize, 0, 0, 0, 2, 3, 5, 0, 7][(crate::rng::fnv(format!("{:?}{}", c.schedule, total_len).as_bytes()) % 9) as usize];
    if !tls_level {
        tr.interrupt_every(intr);
    }
    let intr_probe = tr.clone();
    if c.class == "paced-delivery" && !tls_level {
        // stalls in the middle of frame bodies (and one inside a header): a frame is what it is however long it takes
        let mut pr = Rng::new(crate::rng::fnv(format!("{:?}{}", c.schedule, total_len).as_bytes()));
        let mut pauses = Vec::new();
        let mut start = 0usize;
        for (fi, e) in ends.iter().enumerate() {
            let len = e - start;
            if len > 6 && fi % 2 == 0 {
                // one long stall or several shorter ones that add up
                if pr.chance(1, 2) {
                    pauses.push((start + len / 2, c.schedule.last().cloned().unwrap_or(2400) as u64));
                } else {
                    let total = c.schedule.last().cloned().unwrap_or(2400) as u64;
                    pauses.push((start + 5, total / 2 + 50));
                    pauses.push((start + len - 1, total / 2 + 50));
                }
            } else if fi == 1 {
                pauses.push((start + 1, 300));
            }
            start = *e;
        }
        tr.set_pauses(pauses);
    }
    let probe = tr.clone();
    let frames = c.frames.clone();
    let mut viol: Vec<(String, String)> = Vec::new();
    let (record_chunk, raw_chunk) = (c.schedule.get(0).cloned().unwrap_or(usize::MAX), c.schedule.get(1).cloned().unwrap_or(usize::MAX));
    let ends_for_tls = ends.clone();

    let res = mon::guarded(move || {
        let mut out: Vec<(Got, usize)> = Vec::new();
        if tls_level {
            // the same frames through a link upgraded to TLS: the stream is cut into TLS records of `record_chunk`
            // plaintext bytes and the ciphertext is served `raw_chunk` bytes per read call
            let d = crate::server::Duplex::new(crate::refs::proto::Profile::default());
            d.with(|s| {
                s.answer = false;
                s.tls = Some(crate::tls::TlsServer::new(&crate::tls::identity(2), record_chunk % 2 == 0));
                s.record_chunk = record_chunk;
                s.read_chunk = raw_chunk;
            });
            let link = match Link::new(Stream::Raw(d.clone())).start_ssl(false) {
                Ok(l) => l,
                Err(e) => return Err(format!("TLS handshake with the reference server failed: {:?}", e)),
            };
            d.with(|s| s.push_bytes("frames", &stream, false));
            let mut t = tpkt::Client::new(link);
            for i in 0..frames.len() {
                let g = match t.read() {
                    Ok(tpkt::Payload::Raw(c)) => Got::Raw(c.into_inner()),
                    Ok(tpkt::Payload::FastPath(f, c)) => Got::Fp(f, c.into_inner()),
                    Err(e) => Got::Err(format!("{:?}", e)),
                };
                // what was consumed below TLS cannot be attributed to a frame: only the frames themselves are judged
                out.push((g, ends_for_tls[i]));
            }
            return Ok(out);
        }
        let link = Link::new(Stream::Raw(tr));
        let t = tpkt::Client::new(link);
        if x224_level {
            let mut x = match x224::Client::connect(t, 0, false, None, false, false) {
                Ok(x) => x,
                Err(e) => return Err(format!("x224 connect failed: {:?}", e)),
            };
            for _ in 0..frames.len() {
                let g = match x.read() {
                    Ok(tpkt::Payload::Raw(c)) => {
                        let p = c.position() as usize;
                        Got::Raw(c.get_ref()[p.min(c.get_ref().len())..].to_vec())
                    }
                    Ok(tpkt::Payload::FastPath(f, c)) => {
                        let p = c.position() as usize;
                        Got::Fp(f, c.get_ref()[p.min(c.get_ref().len())..].to_vec())
                    }
                    Err(e) => Got::Err(format!("{:?}", e)),
                };
                out.push((g, probe.consumed()));
            }
        } else {
            let mut t = t;
            for _ in 0..frames.len() {
                let g = match t.read() {
                    Ok(tpkt::Payload::Raw(c)) => Got::Raw(c.into_inner()),
                    Ok(tpkt::Payload::FastPath(f, c)) => Got::Fp(f, c.into_inner()),
                    Err(e) => Got::Err(format!("{:?}", e)),
                };
                out.push((g, probe.consumed()));
            }
        }
        Ok(out)
    });
    let lvl = c.level;
    match res {
        Err(p) => {
            rep.hist("panic");
            viol.push((format!("C13/{}/{}", lvl, p.sig()), format!("{} at {}:{}", p.msg, p.file, p.line)));
        }
        Ok(Err(e)) => {
            rep.selfcheck_fail(e);
            return;
        }
        Ok(Ok(out)) => {
            let mut desynced = false;
            for (i, ((got, consumed), f)) in out.iter().zip(c.frames.iter()).enumerate() {
                if desynced {
                    break;
                }
                let kind = f.kind();
                if f.underlength() {
                    match got {
                        Got::Err(_) => rep.hist("underlength-rejected"),
                        _ => {
                            rep.hist("underlength-accepted");
                            viol.push((format!("C13/{}/{}/accepted-underlength", lvl, kind), format!("frame {} declares a length below its header size and was not rejected", i)));
                        }
                    }
                    desynced = true;
                    continue;
                }
                let (exp_kind_raw, exp_flags, exp_payload): (bool, u8, &[u8]) = match f {
                    Frame::Tpkt { payload, .. } => (true, 0, payload),
                    Frame::Fp { action, payload, .. } => (false, action >> 6, payload),
                };
                // at the x224 level a slow-path payload carries the 3-byte data header
                let mut expect_err_ok = false;
                let exp_payload_x: &[u8] = if x224_level && exp_kind_raw {
                    if exp_payload.len() < 3 || exp_payload[2] != 0x80 {
                        expect_err_ok = true;
                        &[]
                    } else {
                        &exp_payload[3..]
                    }
                } else {
                    exp_payload
                };
                match got {
                    Got::Err(e) => {
                        if expect_err_ok {
                            rep.hist("x224-short-header-err");
                        } else {
                            rep.hist("rejected-valid");
                            viol.push((format!("C13/{}/{}/rejected-valid-frame", lvl, kind), format!("frame {} (payload {} bytes) returned Err({})", i, exp_payload.len(), e)));
                            desynced = true;
                            continue;
                        }
                    }
                    Got::Raw(p) => {
                        if !exp_kind_raw {
                            viol.push((format!("C13/{}/{}/kind-mismatch", lvl, kind), format!("frame {} is fast-path (first byte {:02x}) but was returned as slow-path", i, f.bytes()[0])));
                            desynced = true;
                            continue;
                        } else if !expect_err_ok && p.as_slice() != exp_payload_x {
                            viol.push((format!("C13/{}/{}/payload-mismatch", lvl, kind), format!("frame {}: payload differs (got {} bytes, expected {}; first diff at {:?})", i, p.len(), exp_payload_x.len(), p.iter().zip(exp_payload_x.iter()).position(|(a, b)| a != b))));
                        } else {
                            rep.hist("frame-exact");
                        }
                    }
                    Got::Fp(fl, p) => {
                        if exp_kind_raw {
                            viol.push((format!("C13/{}/{}/kind-mismatch", lvl, kind), format!("frame {} is slow-path but was returned as fast-path", i)));
                            desynced = true;
                            continue;
                        } else if *fl != exp_flags {
                            viol.push((format!("C13/{}/{}/flags-mismatch", lvl, kind), format!("frame {}: flags {} expected {} (first byte {:02x})", i, fl, exp_flags, f.bytes()[0])));
                        } else if p.as_slice() != exp_payload_x {
                            viol.push((format!("C13/{}/{}/payload-mismatch", lvl, kind), format!("frame {}: payload differs (got {} bytes, expected {})", i, p.len(), exp_payload_x.len())));
                        } else {
                            rep.hist("frame-exact");
                        }
                    }
                }
                if *consumed != ends[i] {
                    let what = if *consumed > ends[i] { "over-read" } else { "under-read" };
                    viol.push((format!("C13/{}/{}/{}", lvl, kind, what), format!("after frame {} (payload {} bytes) the transport shows {} bytes consumed, the frame ends at {}", i, exp_payload.len(), consumed - base.min(*consumed), ends[i] - base)));
                    desynced = true;
                }
            }
        }
    }
    let mut hv = Vec::new();
    for f in &c.frames {
        hv.extend_from_slice(&f.bytes()[..f.bytes().len().min(64)]);
        hv.extend_from_slice(&(f.bytes().len() as u32).to_le_bytes());
    }
    for s in &c.schedule {
        hv.extend_from_slice(&(*s as u32).to_le_bytes());
    }
    hv.push(x224_level as u8);
    if total_len >= 3 {
        rep.nontrivial(fnv(&hv));
    }
    rep.set("schedules", format!("{:?}", &c.schedule[..c.schedule.len().min(6)]));
    rep.set("classes", c.class.to_string());
    rep.count("read_calls_interrupted", intr_probe.interrupted());
    rep.count("milliseconds_stalled_inside_frames", intr_probe.paused_ms());
    if rep.want_sample() && total_len < 80 {
        let j = c.to_json();
        rep.sample(|| j);
    }
    for (sig, detail) in viol {
        rep.violation(sig, detail, c.to_json());
    }
}

fn stamp(i: usize) -> Vec<u8> {
    // recognisable payload with the x224 data header in front so that it is valid at both levels
    vec![2, 0xF0, 0x80, 0xC1, 0x3A, i as u8, 0x5C]
}

const SCHEDS: [&[usize]; 12] = [&[1], &[2], &[3], &[4], &[5], &[7], &[9], &[usize::MAX], &[1, 1000], &[4, 1, 2], &[2, 1, 1, 60000], &[3, 2]];

fn payload_for(r: &mut Rng, n: usize, x224_level: bool) -> Vec<u8> {
    let mut p = r.bytes(n);
    if x224_level && n >= 3 {
        p[0] = 2;
        p[1] = 0xF0;
        p[2] = 0x80;
    }
    p
}

pub fn make_case(class: u64, idx: u64, seed: u64, quick: bool) -> Case {
    let mut r = Rng::derive(seed, "C13", class, idx);
    let level: &'static str = if r.chance(1, 2) { "tpkt" } else { "x224" };
    let xl = level == "x224";
    match class {
        0 => {
            // TPKT declared length sweep
            let len = if quick { tpkt_len_quick(idx, &mut r) } else { (idx % 65536) as u16 };
            let f = if len < 4 { Frame::Tpkt { pad: r.u8(), len, payload: vec![] } } else { Frame::Tpkt { pad: if r.chance(1, 2) { 0 } else { r.u8() }, len, payload: payload_for(&mut r, len as usize - 4, xl) } };
            let mut frames = vec![Frame::tpkt(0, stamp(0)), f];
            if len >= 4 {
                frames.push(Frame::fp(0, false, stamp(1)));
                frames.push(Frame::tpkt(0, stamp(2)));
            }
            let s = sched_for(&mut r, len as usize);
            Case { level, frames, schedule: s, class: "tpkt-length-sweep" }
        }
        1 => {
            // fast-path short form: every length 0..127, every action byte
            let len = (idx % 128) as u16;
            let mut action = ((idx / 128) % 256) as u8;
            if action == 3 {
                action = 0x83;
            }
            let f = if len < 2 { Frame::Fp { action, long: false, len, payload: vec![] } } else { Frame::Fp { action, long: false, len, payload: r.bytes(len as usize - 2) } };
            let mut frames = vec![f];
            if len >= 2 {
                frames.push(Frame::tpkt(0, stamp(1)));
                frames.push(Frame::fp(0x40, true, stamp(2)));
            }
            let s = sched_for(&mut r, len as usize);
            Case { level, frames, schedule: s, class: "fastpath-short-sweep" }
        }
        2 => {
            // fast-path long form: every length 0..32767
            let len = if quick { fp_len_quick(idx, &mut r) } else { (idx % 32768) as u16 };
            let mut action = r.u8();
            if action == 3 {
                action = 0xC0;
            }
            let f = if len < 3 { Frame::Fp { action, long: true, len, payload: vec![] } } else { Frame::Fp { action, long: true, len, payload: r.bytes(len as usize - 3) } };
            let mut frames = vec![Frame::fp(0, false, stamp(0)), f];
            if len >= 3 {
                frames.push(Frame::tpkt(0, stamp(1)));
            }
            let s = sched_for(&mut r, len as usize);
            Case { level, frames, schedule: s, class: "fastpath-long-sweep" }
        }
        3 => {
            // header splits: a chunk boundary at every offset of the first headers
            let k = (idx % 12) as usize + 1;
            let frames = vec![
                Frame::tpkt(0, payload_for(&mut r, 3 + (idx as usize / 12) % 9, xl)),
                Frame::fp(r.u8() & 0xFC, true, r.bytes((idx as usize / 7) % 11)),
                Frame::fp(0x80, false, r.bytes((idx as usize / 5) % 6)),
                Frame::tpkt(0, stamp(3)),
            ];
            let mut schedule = vec![k];
            for _ in 0..6 {
                schedule.push(r.range(1, 5) as usize);
            }
            Case { level, frames, schedule, class: "header-splits" }
        }
        7 => {
            // paced delivery: a handful of frames of both kinds; the last schedule entry is the stall in milliseconds
            let stall = if quick { [600usize, 1200, 2400, 3300][(idx % 4) as usize] } else { [2400usize, 5500, 11000, 31000][(idx % 4) as usize] };
            let frames = vec![
                Frame::tpkt(0, payload_for(&mut r, 40 + (idx as usize % 7), xl)),
                Frame::fp(0x80, false, r.bytes(9)),
                Frame::fp(0x40, true, r.bytes(300)),
                Frame::tpkt(0, stamp(7)),
            ];
            Case { level, frames, schedule: vec![r.range(1, 64) as usize, 17, stall], class: "paced-delivery" }
        }
        5 => {
            // long runs of tiny frames on one client (state carried from frame to frame), then stamped frames
            // ... and now and then more frames than a 16-bit counter holds
            let n = if idx % 60 == 59 { 65_536 + r.range(1, 600) as usize } else { *r.pick(&[33usize, 34, 40, 64, 65, 100, 129, 257, 300, 1000]) };
            let plen = if xl { 3 + (idx % 3) as usize } else { (idx % 3) as usize };
            let mut frames = Vec::new();
            let kinds = idx / 3 % 4; // 0: tpkt only, 1: fast-path short, 2: fast-path long, 3: mixed
            for i in 0..n {
                let k = if kinds == 3 { r.below(3) } else { kinds };
                frames.push(match k {
                    0 => Frame::tpkt(0, payload_for(&mut r, plen, xl)),
                    1 => Frame::fp(if i % 2 == 0 { 0 } else { 0x40 }, false, r.bytes(if xl { plen - 3 } else { plen })),
                    _ => Frame::fp(0x80, true, r.bytes(if xl { plen - 3 } else { plen })),
                });
            }
            frames.push(Frame::tpkt(0, stamp(1)));
            frames.push(Frame::fp(0, false, stamp(2)));
            let schedule: Vec<usize> = match r.below(3) {
                0 => vec![1],
                1 => vec![3],
                _ => (0..r.range(1, 8)).map(|_| r.range(1, 40) as usize).collect(),
            };
            Case { level, frames, schedule, class: "long-runs-of-tiny-frames" }
        }
        6 => {
            // over TLS: frames that straddle TLS records (one byte per record up to one record per stream), bodies
            // larger than a record, and the ciphertext itself arriving in pieces
            let n = r.range(1, 8) as usize;
            let mut frames = Vec::new();
            for i in 0..n {
                let plen = match r.below(6) {
                    0 => r.range(16380, 16400) as usize,
                    1 => r.range(16384, 32000) as usize,
                    2 => r.range(0, 8) as usize,
                    3 => r.range(1400, 1600) as usize,
                    _ => r.range(0, 300) as usize,
                };
                frames.push(match r.below(3) {
                    0 => Frame::tpkt(0, r.bytes(plen)),
                    1 => Frame::fp(0, false, r.bytes(plen.min(120))),
                    _ => Frame::fp(0x80, true, r.bytes(plen)),
                });
                let _ = i;
            }
            frames.push(Frame::tpkt(0, stamp(1)));
            let record_chunk = *r.pick(&[1usize, 2, 3, 4, 5, 7, 100, 1500, 16384, usize::MAX]);
            let raw_chunk = *r.pick(&[1usize, 5, 29, 1000, usize::MAX, usize::MAX]);
            // one byte per record over a large frame is slow: keep those streams small
            if record_chunk < 8 || raw_chunk < 8 {
                for f in frames.iter_mut() {
                    if let Frame::Tpkt { payload, len, .. } = f {
                        payload.truncate(600);
                        *len = payload.len() as u16 + 4;
                    }
                    if let Frame::Fp { payload, len, long, .. } = f {
                        payload.truncate(if *long { 600 } else { 120 });
                        *len = (payload.len() + if *long { 3 } else { 2 }) as u16;
                    }
                }
            }
            Case { level: "tls", frames, schedule: vec![record_chunk, raw_chunk], class: "tls-records" }
        }
        _ => {
            // random sequences of 1..50 frames, random schedule
            let n = r.range(1, 50) as usize;
            let mut frames = Vec::new();
            for i in 0..n {
                let plen = match r.below(8) {
                    0 => 0,
                    1 => r.range(0, 4) as usize,
                    2 => r.range(120, 135) as usize,
                    3 => r.range(1400, 1600) as usize,
                    4 => r.range(0, 6000) as usize,
                    _ => r.range(0, 64) as usize,
                };
                let f = match r.below(3) {
                    0 => Frame::tpkt(if r.chance(1, 4) { r.u8() } else { 0 }, payload_for(&mut r, plen, xl)),
                    1 => {
                        let mut a = r.u8();
                        if a == 3 {
                            a = 7;
                        }
                        Frame::fp(a, false, r.bytes(plen.min(125)))
                    }
                    _ => {
                        let mut a = if r.chance(1, 2) { *r.pick(&[0u8, 0x40, 0x80, 0xC0]) } else { r.u8() };
                        if a == 3 {
                            a = 0xFF;
                        }
                        Frame::fp(a, true, r.bytes(plen))
                    }
                };
                let _ = i;
                frames.push(f);
            }
            let schedule: Vec<usize> = match r.below(4) {
                0 => vec![1],
                1 => (0..r.range(1, 12)).map(|_| r.range(1, 9) as usize).collect(),
                2 => (0..r.range(1, 12)).map(|_| r.range(1, 3000) as usize).collect(),
                _ => SCHEDS[r.below(SCHEDS.len() as u64) as usize].to_vec(),
            };
            Case { level, frames, schedule, class: "random-sequences" }
        }
    }
}

fn sched_for(r: &mut Rng, len: usize) -> Vec<usize> {
    // a 1-byte dribble over a 64 KiB frame is 65k read calls: keep it for a share of the cases only
    let mut s = SCHEDS[r.below(SCHEDS.len() as u64) as usize].to_vec();
    if len > 8192 && s.iter().all(|k| *k < 16) && !r.chance(1, 8) {
        s = vec![r.range(1, 9) as usize, 1, 1, 1, r.range(100, 5000) as usize];
    }
    s
}

/// boundary lengths: small values, and every power of two / multiple of 0x1000 with offsets -1..=8
/// (header sizes 2, 3, 4 and 7 shift where a body of a round size falls)
fn boundary_lens(max: u32) -> Vec<u16> {
    let mut v: Vec<u32> = (0..12).collect();
    v.extend_from_slice(&[127, 128, 129, 255, 256, 257, 1499, 1500, 1501, 1502, 1503, 1504, 1505, 1507]);
    let mut bases: Vec<u32> = (4..=16).map(|k| 1u32 << k).collect();
    bases.extend((1..16).map(|k| k * 0x1000));
    for b in bases {
        for d in -1i64..=8 {
            let x = b as i64 + d;
            if x >= 0 {
                v.push(x as u32);
            }
        }
    }
    v.extend_from_slice(&[max - 2, max - 1, max]);
    v.retain(|x| *x <= max);
    v.sort();
    v.dedup();
    v.into_iter().map(|x| x as u16).collect()
}

fn tpkt_len_quick(idx: u64, r: &mut Rng) -> u16 {
    let b = boundary_lens(65535);
    if (idx as usize) < b.len() * 3 {
        b[idx as usize % b.len()]
    } else {
        r.u16()
    }
}

fn fp_len_quick(idx: u64, r: &mut Rng) -> u16 {
    let b = boundary_lens(32767);
    if (idx as usize) < b.len() * 3 {
        b[idx as usize % b.len()]
    } else {
        r.u16() & 0x7fff
    }
}

pub fn run(cfg: &Cfg) -> Report {
    crate::tls::prewarm(false);
    let seed = cfg.seed;
    let quick = cfg.quick();
    let mut total = Report::new();
    let plan: Vec<(u64, u64)> = vec![
        (0, if quick { 3 * boundary_lens(65535).len() as u64 + 1200 } else { 65536 * 2 }),
        (1, 128 * 256),
        (2, if quick { 3 * boundary_lens(32767).len() as u64 + 1200 } else { 32768 * 2 }),
        (3, cfg.n(12 * 200, 12 * 5000)),
        (4, cfg.n(40_000, 3_000_000)),
        (5, cfg.n(240, 12_000)),
        (6, cfg.n(1_500, 100_000)),
        (7, 16),
    ];
    for (class, n) in plan {
        if !cfg.wants(class) {
            continue;
        }
        let rep = par_run(cfg, n, if class == 7 { 1 } else { 64 }, |idx, rep| {
            mon::begin_case(13, class, idx, seed);
            let c = make_case(class, idx, seed, quick);
            check_case(&c, rep);
        });
        total.count(&format!("cases_class_{}", class), n);
        total.merge(rep);
    }
    total
}

pub fn replay(cfg: &Cfg, v: &Value) -> Report {
    let mut rep = Report::new();
    mon::set_quiet(false);
    if let Some(a) = v.get("death_case") {
        let a: Vec<u64> = a.as_array().unwrap().iter().map(|x| x.as_u64().unwrap()).collect();
        let c = make_case(a[1], a[2], a[3], cfg.quick());
        check_case(&c, &mut rep);
        return rep;
    }
    let c = Case {
        level: if v["level"] == "x224" { "x224" } else if v["level"] == "tls" { "tls" } else { "tpkt" },
        class: "replay",
        schedule: v["schedule"].as_array().unwrap().iter().map(|x| x.as_u64().unwrap_or(u64::MAX) as usize).collect(),
        frames: v["frames"].as_array().unwrap().iter().map(Frame::from_json).collect(),
    };
    check_case(&c, &mut rep);
    rep
}
