//! C11 — user input is transmitted exactly once, in order, with exact values.
//! Oracle: submission log vs the input PDUs decoded by the reference server (one-to-one, in order,
//! field by field); refused kinds must put nothing on the wire.

use crate::client::err_kind;
use crate::mon;
use crate::refs::build::B;
use crate::refs::proto::{self, ClientMsg, Rect, ShareMsg};
use crate::report::Report;
use crate::rng::{fnv, Rng};
use crate::server::Wrap;
use crate::session;
use crate::{par_run, Cfg};
use rdp::core::event::{BitmapEvent, KeyboardEvent, PointerButton, PointerEvent, RdpEvent};
use rdp::core::global::{ts_keyboard_event, ts_pointer_event};
use serde_json::{json, Value};

#[derive(Clone, Debug)]
pub enum Op {
    Pointer { x: u16, y: u16, button: u8, down: bool },
    Key { code: u16, down: bool },
    /// an event kind that cannot be sent
    Refused,
    /// server traffic followed by a client read
    ServerFastPath,
    ServerSlowPath,
    /// the server deactivates the session and activates it again (deactivate-all, then a complete activation)
    Reactivate,
}

pub struct Case {
    pub ops: Vec<Op>,
    pub class: &'static str,
    pub gen: [u64; 3],
    pub user_id: u16,
    pub share_id: u32,
}

fn button(b: u8) -> PointerButton {
    match b {
        1 => PointerButton::Left,
        2 => PointerButton::Right,
        3 => PointerButton::Middle,
        _ => PointerButton::None,
    }
}

pub fn make_case(class: u64, idx: u64, seed: u64) -> Case {
    let mut r = Rng::derive(seed, "C11", class, idx);
    let mut ops = Vec::new();
    match class {
        0 => {
            // sweeps: every x, every y, every scancode in one slice of 4096 values per case
            let base = (idx % 16) * 4096;
            let which = (idx / 16) % 3;
            for v in base..base + 4096 {
                let v = v as u16;
                ops.push(match which {
                    0 => Op::Pointer { x: v, y: r.u16(), button: r.below(4) as u8, down: r.chance(1, 2) },
                    1 => Op::Pointer { x: r.u16(), y: v, button: r.below(4) as u8, down: r.chance(1, 2) },
                    _ => Op::Key { code: v, down: r.chance(1, 2) },
                });
            }
        }
        2 => {
            // every keyboard layout the client can be configured for x every scancode 0..0x1ff, pressed and released
            for code in 0u16..0x200 {
                ops.push(Op::Key { code, down: true });
                ops.push(Op::Key { code, down: false });
            }
        }
        _ => {
            // now and then more submissions in one session than a 16-bit counter holds
            let n = if idx % 1000 == 999 { 65_536 + r.range(1, 500) as usize } else { r.range(1, 200) as usize };
            let mut last = (r.u16(), r.u16());
            for _ in 0..n {
                ops.push(match r.below(12) {
                    0 | 1 | 2 => {
                        // repeat the previous coordinates often (click then move at the same place, repeated moves)
                        if !r.chance(1, 2) {
                            last = (r.edge16(), r.edge16());
                        }
                        Op::Pointer { x: last.0, y: last.1, button: r.below(4) as u8, down: r.chance(1, 2) }
                    }
                    3 | 4 => Op::Pointer { x: last.0, y: last.1, button: 0, down: false },
                    5 | 6 | 7 => Op::Key { code: if r.chance(1, 3) { 0xE000 | r.below(256) as u16 } else { r.edge16() }, down: r.chance(1, 2) },
                    8 => Op::Refused,
                    9 | 10 => Op::ServerFastPath,
                    _ => {
                        if r.chance(1, 4) {
                            Op::Reactivate
                        } else {
                            Op::ServerSlowPath
                        }
                    }
                });
            }
        }
    }
    Case { ops, class: ["value-sweeps", "random-sequences", "layouts-x-scancodes"][class as usize], gen: [class, idx, seed], user_id: crate::gen::user_id(&mut r), share_id: crate::gen::share_id(&mut r) }
}

pub fn check_case(c: &Case, rep: &mut Report) {
    rep.eval();
    let mut profile = session::full_profile();
    profile.user_id = c.user_id;
    profile.share_id = c.share_id;
    // two cases in three run against a server whose capability sets carry other (equally legitimate) values
    let varied = c.gen[1] % 3 != 0;
    if varied {
        let mut vr = Rng::derive(c.gen[2], "C11-caps", c.gen[0], c.gen[1]);
        profile.caps = crate::gen::caps_varied(&mut vr);
    }
    // one case in four runs without TLS, on a transport that takes only a few bytes per write call once the session
    // is active (the submissions then go to the layer below RdpClient, whose button mapping is reproduced here)
    let short_writes = c.gen[1] % 4 == 1;
    // a third kind of plain session: the application polls a silent server now and then (a read that finds nothing
    // fails with WouldBlock / TimedOut at a frame boundary and consumes nothing); input goes on as before
    let polling = c.gen[1] % 8 == 2;
    let plain = short_writes || c.gen[1] % 4 == 3 || polling;
    // the keyboard layout the client is configured for: all of them in turn in the layouts class, else drawn per case
    let layout = if c.class == "layouts-x-scancodes" { crate::client::LAYOUTS[(c.gen[1] % 19) as usize] } else { crate::client::LAYOUTS[(fnv(format!("{:?}", c.gen).as_bytes()) % 19) as usize] };
    rep.set("keyboard_layouts", format!("{:#x}", layout));
    let opened = mon::guarded(|| -> Result<session::Session, String> {
        let mut s = if plain { session::open_plain_layout(profile.clone(), false, layout)? } else { session::open_real_layout(profile.clone(), false, layout)? };
        s.activate()?;
        Ok(s)
    });
    let mut s = match opened {
        Ok(Ok(s)) => s,
        Ok(Err(e)) => {
            if varied {
                // whether the client takes this server is C03's subject; without a session there is nothing to observe
                rep.hist("session-with-varied-capabilities-not-opened");
            } else {
                rep.selfcheck_fail(format!("could not open an active session: {}", e));
            }
            return;
        }
        Err(p) => {
            rep.selfcheck_fail(format!("panic while opening a session: {}", p.msg));
            return;
        }
    };
    // one case in four: the transport takes only a few bytes per write call from now on
    // another case in four runs without TLS on a transport that refuses ONE write call (nothing consumed, an error
    // the application survives): that event must put nothing on the wire, now or later, and the others go out exactly
    let refusal = c.gen[1] % 4 == 3;
    let mut refuse_at_op = usize::MAX;
    if refusal {
        let n_inputs = c.ops.iter().filter(|o| matches!(o, Op::Pointer { .. } | Op::Key { .. })).count();
        if n_inputs > 0 {
            refuse_at_op = (c.gen[1] / 4) as usize % n_inputs;
        }
    }
    let mut input_no = 0usize;
    if short_writes {
        let chunk = [1usize, 16, 47, 5][(c.gen[1] / 4 % 4) as usize];
        s.server.with(|sv| sv.write_chunk = chunk);
        rep.hist("short-write-transport");
    }
    if polling {
        let kind = if c.gen[1] / 8 % 2 == 0 { std::io::ErrorKind::WouldBlock } else { std::io::ErrorKind::TimedOut };
        s.server.with(|sv| sv.empty_read_error = Some(kind));
        rep.hist("polling-a-silent-server");
    }
    let mut nev = s.server.with(|sv| sv.events.len());
    let mut viol: Vec<(String, String)> = Vec::new();
    let mut sent = 0u64;
    for (i, op) in c.ops.iter().enumerate() {
        let ev = match op {
            Op::Pointer { x, y, button: b, down } => Some(RdpEvent::Pointer(PointerEvent { x: *x, y: *y, button: button(*b), down: *down })),
            Op::Key { code, down } => Some(RdpEvent::Key(KeyboardEvent { code: *code, down: *down })),
            Op::Refused => Some(RdpEvent::Bitmap(BitmapEvent { dest_left: 0, dest_top: 0, dest_right: 1, dest_bottom: 1, width: 2, height: 2, bpp: 32, is_compress: false, data: vec![0; 16] })),
            Op::ServerFastPath => {
                let rc = Rect { left: 0, top: 0, right: 1, bottom: 1, width: 2, height: 2, bpp: 16, flags: 0, data: vec![i as u8; 8] };
                s.push("fp", &proto::fp_update(1, &proto::bitmap_update_body(&[rc])), Wrap::FastPath { sec: 0, long: false });
                let _ = s.read_collect();
                None
            }
            Op::Reactivate => {
                // a complete deactivation-reactivation sequence; the client answers it (confirm-active, finalization): those
                // frames are the activation's, not input
                s.server.with(|sv| {
                    let p = sv.profile.clone();
                    let cur = sv.next_share_id;
                    sv.send("deactivate-all", &proto::deactivate_all(&p, cur), Wrap::Sdi);
                    sv.send_demand_active(cur);
                });
                let mut ok = true;
                for step in 0..6 {
                    ok &= matches!(mon::guarded(|| s.client.read(|_| {}).is_ok()), Ok(true));
                    // between the deactivation and the end of the new activation the application keeps submitting (a GUI
                    // does not know): such an event is refused or dropped, puts nothing on the wire - and must not come
                    // back later inside somebody else's PDU
                    if ok && (step == 0 || (step == 3 && i % 2 == 0)) {
                        let before = s.server.with(|sv| (sv.events.len(), sv.malformed.len()));
                        let ev = RdpEvent::Pointer(PointerEvent { x: 0x7A7A, y: 0x7B7B, button: PointerButton::None, down: false });
                        let _ = match &mut s.client {
                            crate::client::Client::Real(rc) => mon::guarded(|| if i % 3 == 0 { rc.write(ev).is_ok() } else { rc.try_write(ev).is_ok() }),
                            crate::client::Client::Plain(p) => mon::guarded(|| p.global.write_input_event(ts_pointer_event(Some(0x0800), Some(0x7A7A), Some(0x7B7B)), &mut p.mcs).is_ok()),
                        };
                        let after = s.server.with(|sv| (sv.events.iter().skip(before.0).filter(|e| matches!(&e.msg, ClientMsg::Share { msg: ShareMsg::Input { .. }, .. })).count(), sv.malformed.len()));
                        if after.0 > 0 || after.1 > before.1 {
                            viol.push(("C11/input-written-while-inactive".into(), format!("op {}: an event submitted between deactivation and re-activation reached the wire", i)));
                        }
                    }
                }
                if !ok {
                    viol.push(("C11/reactivation-failed".into(), format!("op {}: the client did not come through a deactivation-reactivation sequence", i)));
                    break;
                }
                rep.hist("reactivated");
                nev = s.server.with(|sv| sv.events.len());
                continue;
            }
            Op::ServerSlowPath => {
                let p = s.profile.clone();
                // well-formed slow-path traffic that must leave an active session active
                // ... and share-control PDUs the client has no use for (server redirection, an unassigned type): reading them
                // may fail, the session stays what it was
                let b: B = match i % 9 {
                    7 | 8 => {
                        let mut body = B::new();
                        body.bytes("body", &[0u8; 12][..(i / 9) % 13]);
                        proto::share_control(if i % 9 == 7 { 0x001A } else { 0x0015 }, p.server_channel, &body)
                    }
                    0 => proto::set_error_info(&p, c.share_id, [3u32, 0, 0, 5][(i / 9) % 4]),
                    1 => proto::synchronize(&p, c.share_id, p.user_id),
                    2 => proto::demand_active(&p, c.share_id),
                    3 => proto::control(&p, c.share_id, 4, 0, 0),
                    4 => proto::font_map(&p, c.share_id),
                    5 => proto::other_data_pdu(&p, c.share_id, [0x26u8, 0x27, 0x02, 0x1B, 0x36][(i / 7) % 5], &[0u8; 12]),
                    _ => proto::control(&p, c.share_id, 2, p.user_id, 0x03ea),
                };
                s.push_slow("slow", &b);
                let _ = s.read_collect();
                None
            }
        };
        let ev = match ev {
            Some(e) => e,
            None => {
                // server traffic must not make the client write anything
                let extra = s.server.with(|sv| sv.events.len()) - nev;
                if extra != 0 {
                    viol.push(("C11/unsolicited-write-on-server-traffic".into(), format!("op {}: the client wrote {} frames while only reading", i, extra)));
                    nev += extra;
                }
                continue;
            }
        };
        if polling && i % 5 == 2 && s.server.with(|sv| sv.out.is_empty()) {
            // nothing is queued: this read fails without consuming anything; it must not change what happens to input
            let _ = mon::guarded(|| s.client.read(|_| {}).is_ok());
        }
        let is_input = matches!(op, Op::Pointer { .. } | Op::Key { .. });
        let refused_here = refusal && is_input && input_no == refuse_at_op;
        if is_input {
            input_no += 1;
        }
        if short_writes && is_input && i % 4 == 1 {
            // a signal arrives after part of the frame was taken: the next write call is interrupted (nothing transferred, to
            // be repeated); the frame still arrives once and whole
            s.server.with(|sv| sv.fail_write_once = Some((1 + i % 3, std::io::ErrorKind::Interrupted)));
        }
        if refused_here {
            let kind = [std::io::ErrorKind::WouldBlock, std::io::ErrorKind::TimedOut, std::io::ErrorKind::Other][(c.gen[1] / 16 % 3) as usize];
            s.server.with(|sv| sv.fail_write_once = Some((0, kind)));
        }
        let res = match &mut s.client {
            // an event kind that cannot be sent must be refused with an error by both entry points (the lenient one only
            // turns "not in the active window" into Ok)
            crate::client::Client::Real(rc) if matches!(op, Op::Refused) && i % 2 == 1 => mon::guarded(|| rc.try_write(ev).map_err(|e| err_kind(&e))),
            crate::client::Client::Real(rc) => mon::guarded(|| rc.write(ev).map_err(|e| err_kind(&e))),
            crate::client::Client::Plain(p) => {
                let pdu = match op {
                    Op::Pointer { x, y, button: b, down } => {
                        let base: u16 = match b {
                            1 => 0x1000,
                            2 => 0x2000,
                            3 => 0x4000,
                            _ => 0x0800,
                        };
                        // an argument that is 0 may just as well be left out (absent = 0)
                        let z = |v: u16| if v == 0 && i % 2 == 0 { None } else { Some(v) };
                        ts_pointer_event(z(base | if *down { 0x8000 } else { 0 }), z(*x), z(*y))
                    }
                    Op::Key { code, down } => {
                        let z = |v: u16| if v == 0 && i % 2 == 0 { None } else { Some(v) };
                        ts_keyboard_event(z(if *down { 0 } else { 0x8000 }), z(*code))
                    }
                    _ => continue,
                };
                mon::guarded(|| p.global.write_input_event(pdu, &mut p.mcs).map_err(|e| err_kind(&e)))
            }
        };
        let res = match res {
            Ok(r) => r,
            Err(p) => {
                viol.push((format!("C11/{}", p.sig()), format!("op {} {:?}: {}", i, op, p.msg)));
                break;
            }
        };
        let (newev, malformed): (Vec<ClientMsg>, usize) = s.server.with(|sv| (sv.events.iter().skip(nev).map(|e| e.msg.clone()).collect(), sv.malformed.len()));
        nev += newev.len();
        if malformed != 0 {
            viol.push(("C11/unparseable-frame".into(), format!("op {} {:?}: the client wrote a frame the strict parser rejects", i, op)));
            break;
        }
        if let Op::Refused = op {
            if res.is_ok() {
                viol.push(("C11/refused-kind-accepted".into(), format!("op {}: submitting a bitmap event as input returned Ok", i)));
            }
            if !newev.is_empty() {
                viol.push(("C11/refused-kind-put-bytes-on-the-wire".into(), format!("op {}: {} frames written for an event kind that cannot be sent", i, newev.len())));
            }
            continue;
        }
        if refused_here {
            // the transport refused this event: the write must report it and nothing of the event may ever be transmitted
            rep.hist("transport-refused-one-event");
            if res.is_ok() {
                viol.push(("C11/refused-by-transport-but-reported-ok".into(), format!("op {} {:?}: the transport refused the write, write returned Ok", i, op)));
            }
            if !newev.is_empty() {
                viol.push(("C11/refused-by-transport-yet-on-the-wire".into(), format!("op {} {:?}: {} frames reached the server", i, op, newev.len())));
            }
            continue;
        }
        sent += 1;
        if let Err(e) = &res {
            viol.push((format!("C11/write-error:{}", e), format!("op {} {:?}: write returned {} in an active session", i, op, e)));
            break;
        }
        if newev.len() != 1 {
            viol.push((format!("C11/{}-frames-for-one-event", if newev.is_empty() { "no".to_string() } else { newev.len().to_string() }), format!("op {} {:?}: exactly one input PDU must be written, saw {:?}", i, op, newev.iter().map(|m| m.name()).collect::<Vec<_>>())));
            continue;
        }
        match &newev[0] {
            ClientMsg::Share { initiator, channel, pdu_source, msg: ShareMsg::Input { share_id, events } } => {
                if *initiator != c.user_id || *channel != 1003 || *pdu_source != c.user_id || *share_id != c.share_id {
                    viol.push(("C11/wrong-identifiers".into(), format!("op {}: input PDU initiator {} channel {} source {} share {:#x}; negotiated user {} share {:#x}", i, initiator, channel, pdu_source, share_id, c.user_id, c.share_id)));
                }
                if events.len() != 1 {
                    viol.push(("C11/events-per-pdu".into(), format!("op {} {:?}: PDU carries {} events", i, op, events.len())));
                    continue;
                }
                let e = &events[0];
                match op {
                    Op::Pointer { x, y, button: b, down } => {
                        let base: u16 = match b {
                            1 => 0x1000,
                            2 => 0x2000,
                            3 => 0x4000,
                            _ => 0x0800,
                        };
                        let want = base | if *down { 0x8000 } else { 0 };
                        // the press state is encoded by the DOWN bit whatever the button, a plain move included
                        let flags_ok = e.a == want;
                        if e.kind != 0x8001 {
                            viol.push(("C11/pointer/message-type".into(), format!("op {} {:?}: messageType {:#x}", i, op, e.kind)));
                        } else if !flags_ok {
                            viol.push(("C11/pointer/flags".into(), format!("op {} {:?}: pointerFlags {:#06x}, expected {:#06x}", i, op, e.a, want)));
                        } else if e.b != *x || e.c != *y {
                            viol.push(("C11/pointer/coordinates".into(), format!("op {} {:?}: ({}, {}) on the wire", i, op, e.b, e.c)));
                        } else {
                            rep.hist("pointer-exact");
                        }
                    }
                    Op::Key { code, down } => {
                        let want = if *down { 0 } else { 0x8000 };
                        if e.kind != 0x0004 {
                            viol.push(("C11/key/message-type".into(), format!("op {} {:?}: messageType {:#x}", i, op, e.kind)));
                        } else if e.a != want {
                            viol.push(("C11/key/flags".into(), format!("op {} {:?}: keyboardFlags {:#06x}, expected {:#06x}", i, op, e.a, want)));
                        } else if e.b != *code {
                            viol.push(("C11/key/scancode".into(), format!("op {} {:?}: scancode {:#06x} on the wire", i, op, e.b)));
                        } else {
                            rep.hist("key-exact");
                        }
                    }
                    _ => {}
                }
            }
            other => viol.push(("C11/not-an-input-pdu".into(), format!("op {} {:?}: wrote {}", i, op, other.name()))),
        }
        if viol.len() > 6 {
            break;
        }
    }
    rep.count("events_submitted", sent);
    let desc = json!({"gen": c.gen, "class": c.class, "user_id": c.user_id, "share_id": c.share_id, "ops": c.ops.len(), "first_ops": format!("{:?}", &c.ops[..c.ops.len().min(6)])});
    rep.nontrivial(fnv(desc.to_string().as_bytes()));
    if rep.want_sample() {
        let d = desc.clone();
        rep.sample(|| d);
    }
    for (sig, detail) in viol {
        rep.violation(sig, detail, desc.clone());
    }
}

pub fn run(cfg: &Cfg) -> Report {
    crate::tls::prewarm(false);
    let seed = cfg.seed;
    let mut total = Report::new();
    // class 0: 3 sweeps x 16 slices of 4096 values = every x, every y, every scancode (both tiers; thorough repeats with other seeds)
    let plan: Vec<(u64, u64)> = vec![(0, if cfg.quick() { 48 } else { 48 * 48 }), (1, cfg.n(3_000, 600_000)), (2, if cfg.quick() { 19 } else { 19 * 4 })];
    for (class, n) in plan {
        if !cfg.wants(class) {
            continue;
        }
        let rep = par_run(cfg, n, 1, |idx, rep| {
            mon::begin_case(11, class, idx, seed);
            let c = make_case(class, idx, seed);
            check_case(&c, rep);
        });
        total.count(&format!("cases_class_{}", class), n);
        total.merge(rep);
    }
    total.count("full_u16_sweeps_of_x_y_scancode", 1);
    total
}

pub fn replay(_cfg: &Cfg, v: &Value) -> Report {
    let mut rep = Report::new();
    mon::set_quiet(false);
    let g: Vec<u64> = if let Some(a) = v.get("death_case") {
        let a: Vec<u64> = a.as_array().unwrap().iter().map(|x| x.as_u64().unwrap()).collect();
        vec![a[1], a[2], a[3]]
    } else {
        v["gen"].as_array().unwrap().iter().map(|x| x.as_u64().unwrap()).collect()
    };
    let c = make_case(g[0], g[1], g[2]);
    check_case(&c, &mut rep);
    rep
}
