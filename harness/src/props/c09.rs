//! C09 — decompressed bitmaps are pixel-exact.
//! Oracle: conformant randomised/enumerating reference encoders (refs::rle); the real decompressor
//! must return exactly the encoded image, top-down BGRA, 5-6-5 widened by exact rounding.

use crate::mon;
use crate::refs::rle as refrle;
use crate::refs::rle::Chooser;
use crate::report::Report;
use crate::rng::{fnv, hex, unhex, Rng};
use crate::{par_run, Cfg};
use rdp::core::event::BitmapEvent;
use serde_json::{json, Value};

pub struct Enc {
    pub codec: &'static str,
    pub w: usize,
    pub h: usize,
    pub bpp: u16,
    pub compress: bool,
    pub data: Vec<u8>,
    /// expected output, top-down BGRA
    pub expect: Vec<u8>,
}

fn decompress(e: &Enc) -> Result<Result<Vec<u8>, String>, mon::PanicInfo> {
    let ev = BitmapEvent {
        dest_left: 0,
        dest_top: 0,
        dest_right: (e.w as u16).wrapping_sub(1),
        dest_bottom: (e.h as u16).wrapping_sub(1),
        width: e.w as u16,
        height: e.h as u16,
        bpp: e.bpp,
        is_compress: e.compress,
        data: e.data.clone(),
    };
    mon::guarded(move || ev.decompress().map_err(|err| format!("{:?}", err)))
}

pub fn check_enc(e: &Enc, class: &str, rep: &mut Report) {
    rep.eval();
    let mut viol: Option<(String, String)> = None;
    match decompress(e) {
        Err(p) => {
            rep.hist("panic");
            viol = Some((format!("C09/{}/{}", e.codec, p.sig()), format!("{} at {}:{}", p.msg, p.file, p.line)));
        }
        Ok(Err(msg)) => {
            rep.hist("err");
            viol = Some((format!("C09/{}/rejected-conformant-encoding", e.codec), format!("decompress returned Err({}) for a conformant {}x{} encoding", msg, e.w, e.h)));
        }
        Ok(Ok(v)) => {
            if v == e.expect {
                rep.hist("exact");
            } else {
                rep.hist("mismatch");
                let first = v.iter().zip(e.expect.iter()).position(|(a, b)| a != b);
                let d = match first {
                    Some(i) => format!(
                        "first difference at byte {} (pixel x={} y={} channel {}): got {:02x} expected {:02x}",
                        i,
                        (i / 4) % e.w.max(1),
                        (i / 4) / e.w.max(1),
                        i % 4,
                        v[i],
                        e.expect[i]
                    ),
                    None => format!("length {} vs expected {}", v.len(), e.expect.len()),
                };
                viol = Some((format!("C09/{}/pixel-mismatch", e.codec), format!("{}x{} {}: {}", e.w, e.h, class, d)));
            }
        }
    }
    let mut hv = vec![e.bpp as u8, e.compress as u8, e.w as u8, (e.w >> 8) as u8, e.h as u8];
    hv.extend_from_slice(&e.data);
    rep.nontrivial(fnv(&hv));
    if rep.want_sample() && e.data.len() < 120 && e.w * e.h >= 4 {
        let s = json!({"class": class, "codec": e.codec, "w": e.w, "h": e.h, "bpp": e.bpp, "compress": e.compress, "data": hex(&e.data)});
        rep.sample(|| s);
    }
    if let Some((sig, detail)) = viol {
        let r = json!({"class": class, "codec": e.codec, "w": e.w, "h": e.h, "bpp": e.bpp, "compress": e.compress,
                        "data": hex(&e.data), "expect": hex(&e.expect)});
        rep.violation(sig, detail, r);
    }
}

// ------------------------------------------------------------------------------------------ images

pub fn image16(r: &mut Rng, w: usize, h: usize) -> (Vec<u16>, &'static str) {
    let n = w * h;
    let c: Vec<u16> = (0..4)
        .map(|_| match r.below(4) {
            0 => 0,
            1 => 0xffff,
            _ => r.u16(),
        })
        .collect();
    let style = r.below(9);
    let mut img = vec![0u16; n];
    let name = match style {
        0 => {
            for p in img.iter_mut() {
                *p = c[0];
            }
            "solid"
        }
        1 => {
            for y in 0..h {
                for x in 0..w {
                    img[y * w + x] = c[y % 2];
                }
            }
            "hstripes"
        }
        2 => {
            for y in 0..h {
                for x in 0..w {
                    img[y * w + x] = c[(x / (1 + (c[3] as usize % 3))) % 3];
                }
            }
            "vstripes(rows repeat)"
        }
        3 => {
            for y in 0..h {
                for x in 0..w {
                    img[y * w + x] = c[(x + y) % 2];
                }
            }
            "checker"
        }
        4 => {
            // rows repeat except sparse xor-with-fg pixels: long fg/bg images and runs
            let fg = c[1];
            let base: Vec<u16> = (0..w).map(|_| c[r.below(2) as usize * 2]).collect();
            let mut cur = base;
            // stream order is bottom-up, so build from the bottom row
            for y in (0..h).rev() {
                for x in 0..w {
                    img[y * w + x] = cur[x];
                }
                for x in 0..w {
                    if r.chance(1, 5) {
                        cur[x] ^= fg;
                    }
                }
            }
            "xor-sparse"
        }
        5 => {
            for p in img.iter_mut() {
                *p = r.u16();
            }
            "noise"
        }
        6 => {
            for p in img.iter_mut() {
                *p = c[r.below(2) as usize];
            }
            "two-colour noise"
        }
        7 => {
            // long horizontal runs of few colours
            let mut i = 0;
            while i < n {
                let l = r.range(1, (w * 2).max(2) as u64) as usize;
                let col = c[r.below(4) as usize];
                for k in i..(i + l).min(n) {
                    img[k] = col;
                }
                i += l;
            }
            "runs"
        }
        _ => {
            // bottom row arbitrary, every other row = row below xor fg on whole runs (fg runs)
            let fg = c[2] | 1;
            let mut cur: Vec<u16> = (0..w).map(|_| c[r.below(3) as usize]).collect();
            for y in (0..h).rev() {
                for x in 0..w {
                    img[y * w + x] = cur[x];
                }
                let mut x = 0;
                while x < w {
                    let l = r.range(1, w as u64) as usize;
                    if r.chance(1, 2) {
                        for k in x..(x + l).min(w) {
                            cur[k] ^= fg;
                        }
                    }
                    x += l;
                }
            }
            "xor-runs"
        }
    };
    (img, name)
}

pub fn image32(r: &mut Rng, w: usize, h: usize) -> (Vec<u8>, &'static str) {
    let n = w * h;
    let mut img = vec![0u8; n * 4];
    let style = r.below(7);
    let name = match style {
        0 => {
            let c = r.bytes(4);
            for i in 0..n {
                img[i * 4..i * 4 + 4].copy_from_slice(&c);
            }
            "solid"
        }
        1 => {
            // vertical ramp: constant delta per row => long runs of equal deltas
            let base = r.bytes(4);
            let step = [r.u8() % 7, r.u8() % 5, r.u8(), 0];
            for y in 0..h {
                for x in 0..w {
                    for c in 0..4 {
                        img[(y * w + x) * 4 + c] = base[c].wrapping_add(step[c].wrapping_mul(y as u8));
                    }
                }
            }
            "vramp"
        }
        2 => {
            let base = r.bytes(4);
            for y in 0..h {
                for x in 0..w {
                    for c in 0..4 {
                        img[(y * w + x) * 4 + c] = base[c].wrapping_add((x as u8).wrapping_mul(c as u8 + 1));
                    }
                }
            }
            "hramp"
        }
        3 => {
            for b in img.iter_mut() {
                *b = r.u8();
            }
            "noise"
        }
        4 => {
            let pal = r.bytes(3);
            for b in img.iter_mut() {
                *b = pal[r.below(3) as usize];
            }
            "palette noise"
        }
        5 => {
            // runs
            let mut i = 0;
            while i < n {
                let l = r.range(1, (w * 2).max(2) as u64) as usize;
                let c = r.bytes(4);
                for k in i..(i + l).min(n) {
                    img[k * 4..k * 4 + 4].copy_from_slice(&c);
                }
                i += l;
            }
            "runs"
        }
        _ => {
            // extreme deltas: alternate 0x00 / 0xff / 0x80 rows
            let vals = [0x00u8, 0xff, 0x80, 0x7f, 0x01];
            for y in 0..h {
                for x in 0..w {
                    for c in 0..4 {
                        img[(y * w + x) * 4 + c] = vals[(y + c + if r.chance(1, 9) { 1 } else { 0 }) % 5];
                    }
                }
            }
            "extreme-deltas"
        }
    };
    (img, name)
}

fn note_trace(rep: &mut Report, tr: &refrle::EncodeTrace) {
    for k in &tr.kinds {
        rep.count(&format!("order_{}", k.name()), 1);
    }
    for f in &tr.forms {
        rep.count(&format!("form_{}", f), 1);
    }
}

fn rle16_case(img: &[u16], w: usize, h: usize, ch: &mut dyn Chooser, max_len: usize, class: &str, rep: &mut Report) {
    let (data, tr) = refrle::encode_rle16(img, w, h, ch, max_len);
    // self-check of the oracle: reference decode of the reference encoding must give the image back
    match refrle::decode_rle16(&data, w, h) {
        Ok(back) if back == img => {}
        other => {
            rep.selfcheck_fail(format!("rle16 reference round trip failed for {}x{} ({:?})", w, h, other.err()));
            return;
        }
    }
    note_trace(rep, &tr);
    let e = Enc { codec: "rle16", w, h, bpp: 16, compress: true, data, expect: refrle::expand565_image(img) };
    check_enc(&e, class, rep);
}

fn planar_case(img: &[u8], w: usize, h: usize, ch: &mut dyn Chooser, class: &str, rep: &mut Report) {
    let mut st = Vec::new();
    let data = refrle::encode_planar(img, w, h, ch, &mut st);
    match refrle::decode_planar(&data, w, h) {
        Ok(back) if back == img => {}
        other => {
            rep.selfcheck_fail(format!("planar reference round trip failed for {}x{} ({:?})", w, h, other.err()));
            return;
        }
    }
    for s in st {
        rep.count(&format!("planar_{}", s), 1);
    }
    let e = Enc { codec: "planar32", w, h, bpp: 32, compress: true, data, expect: img.to_vec() };
    check_enc(&e, class, rep);
}

const TINY_GEOMS: [(usize, usize); 14] = [(1, 1), (1, 2), (1, 3), (1, 4), (1, 5), (1, 6), (2, 1), (2, 2), (2, 3), (3, 1), (3, 2), (4, 1), (5, 1), (6, 1)];

fn tiny_image(idx: u64) -> Option<(usize, usize, Vec<u16>)> {
    // enumerate (geometry, image over 3-colour palette)
    let mut k = idx;
    for (w, h) in TINY_GEOMS.iter() {
        let n = 3u64.pow((w * h) as u32);
        if k < n {
            let pal = [0x0000u16, 0xffff, 0x1234];
            let mut img = Vec::new();
            let mut v = k;
            for _ in 0..w * h {
                img.push(pal[(v % 3) as usize]);
                v /= 3;
            }
            return Some((*w, *h, img));
        }
        k -= n;
    }
    None
}

fn tiny_total() -> u64 {
    TINY_GEOMS.iter().map(|(w, h)| 3u64.pow((w * h) as u32)).sum()
}

/// The very first 16 bpp conversions of the process, made by sixteen threads at the same moment (a worker pool painting
/// the rectangles of one update, two sessions in one process): whatever the decoder sets up on first use must be ready
/// for every one of them. Runs before anything else in the process has decoded a bitmap.
fn concurrent_first_use(rep: &mut Report) {
    use rdp::core::event::BitmapEvent;
    use std::sync::{Arc, Barrier};
    let n = 16usize;
    let barrier = Arc::new(Barrier::new(n));
    let handles: Vec<_> = (0..n)
        .map(|t| {
            let b = barrier.clone();
            std::thread::spawn(move || {
                let colours: Vec<u16> = vec![0xffff, 0xf800, 0x07e0, 0x001f, 0x8410, 0xfffe, 0x0000, (t as u16).wrapping_mul(4097) | 0x8000];
                let data: Vec<u8> = colours.iter().flat_map(|c| c.to_le_bytes().to_vec()).collect();
                let ev = BitmapEvent { dest_left: 0, dest_top: 0, dest_right: 7, dest_bottom: 0, width: 8, height: 1, bpp: 16, is_compress: false, data };
                b.wait();
                (colours, ev.decompress().map_err(|e| format!("{:?}", e)))
            })
        })
        .collect();
    for (t, h) in handles.into_iter().enumerate() {
        rep.eval();
        match h.join() {
            Err(_) => rep.violation("C09/concurrent-first-use/panic".into(), format!("thread {} of 16 decoding at the same moment panicked", t), json!({"class": "concurrent-first-use"})),
            Ok((_, Err(e))) => rep.violation("C09/concurrent-first-use/rejected".into(), format!("thread {}: {}", t, e), json!({"class": "concurrent-first-use"})),
            Ok((colours, Ok(got))) => {
                let want: Vec<u8> = refrle::expand565_image(&colours);
                if got != want {
                    let pos = got.iter().zip(want.iter()).position(|(a, b)| a != b).unwrap_or(0);
                    rep.violation(
                        "C09/concurrent-first-use/pixel-mismatch".into(),
                        format!("thread {} of 16 making the first conversions of the process at the same moment: byte {} is {:02x}, expected {:02x} (pixel {:#06x})", t, pos, got.get(pos).cloned().unwrap_or(0), want.get(pos).cloned().unwrap_or(0), colours[(pos / 4).min(7)]),
                        json!({"class": "concurrent-first-use"}),
                    );
                } else {
                    rep.hist("concurrent-first-use-exact");
                }
                rep.nontrivial(0xC09_F1 ^ t as u64);
            }
        }
    }
}

pub fn run(cfg: &Cfg) -> Report {
    let seed = cfg.seed;
    let mut total = Report::new();
    if cfg.only_class.is_none() {
        let mut rep = Report::new();
        concurrent_first_use(&mut rep);
        total.merge(rep);
    }

    // class 0: all 65536 colour values, exhaustively, through a 256x256 colour image and raw 16 bpp
    {
        let mut rep = Report::new();
        let img: Vec<u16> = (0..65536u32).map(|v| v as u16).collect();
        let mut only_cimg = FixedChooser { script: vec![] };
        // colour-image-only encoding: build by hand (mega-mega colour image per scanline)
        let mut data = Vec::new();
        for y in (0..256).rev() {
            data.push(0xF4);
            data.push(0x00);
            data.push(0x01);
            for x in 0..256 {
                let v = img[y * 256 + x];
                data.push(v as u8);
                data.push((v >> 8) as u8);
            }
        }
        let _ = &mut only_cimg;
        let e = Enc { codec: "rle16", w: 256, h: 256, bpp: 16, compress: true, data, expect: refrle::expand565_image(&img) };
        check_enc(&e, "all-65536-colours", &mut rep);
        let e2 = Enc { codec: "raw16", w: 256, h: 256, bpp: 16, compress: false, data: refrle::raw16(&img, 256, 256), expect: refrle::expand565_image(&img) };
        check_enc(&e2, "all-65536-colours-raw", &mut rep);
        // independent cross-check of the rounding formula: round(v*255/31) in floating point
        for v in 0..32u32 {
            let want = ((v as f64) * 255.0 / 31.0).round() as u8;
            if refrle::expand565((v as u16) << 11)[2] != want || refrle::expand565(v as u16)[0] != want {
                rep.selfcheck_fail(format!("expand565 5-bit {}", v));
            }
        }
        for v in 0..64u32 {
            let want = ((v as f64) * 255.0 / 63.0).round() as u8;
            if refrle::expand565((v as u16) << 5)[1] != want {
                rep.selfcheck_fail(format!("expand565 6-bit {}", v));
            }
        }
        rep.count("colour_values_checked", 65536);
        total.merge(rep);
    }

    // class 1: tiny images exhaustively, all encodings up to a cap
    let cap = cfg.n(300, 2000);
    let nt = tiny_total();
    let rep = par_run(cfg, nt, 8, |idx, rep| {
        mon::begin_case(9, 1, idx, seed);
        let (w, h, img) = tiny_image(idx).unwrap();
        let mut en = refrle::Enumerator::new();
        let mut n = 0;
        loop {
            rle16_case(&img, w, h, &mut en, 6, "tiny-exhaustive-rle16", rep);
            n += 1;
            if n >= cap {
                rep.count("tiny_images_encoding_cap_hit", 1);
                break;
            }
            if !en.advance() {
                rep.count("tiny_images_all_encodings_enumerated", 1);
                break;
            }
        }
        rep.count("tiny_images", 1);
    });
    total.merge(rep);

    // class 2: random and structured 16 bpp images, several random encodings each
    let maxdim = if cfg.quick() { 64 } else { 256 };
    let nimg = cfg.n(40_000, 400_000);
    let nenc = if cfg.quick() { 8 } else { 50 };
    let rep = par_run(cfg, nimg, 16, |idx, rep| {
        mon::begin_case(9, 2, idx, seed);
        let mut r = Rng::derive(seed, "C09-img16", 2, idx);
        let (w, h) = dims(&mut r, maxdim);
        let (img, style) = image16(&mut r, w, h);
        rep.set("image_styles_16", style.to_string());
        for k in 0..nenc {
            let mut er = Rng::derive(seed, "C09-enc16", idx, k);
            let max_len = *er.pick(&[3usize, 8, 40, 300, 70000]);
            rle16_case(&img, w, h, &mut er, max_len, style, rep);
        }
    });
    total.merge(rep);

    // class 3: planar: tiny exhaustive-ish + random
    let rep = par_run(cfg, cfg.n(25_000, 200_000), 16, |idx, rep| {
        mon::begin_case(9, 3, idx, seed);
        let mut r = Rng::derive(seed, "C09-img32", 3, idx);
        let (w, h) = if idx % 4 == 0 { (r.range(1, 4) as usize, r.range(1, 3) as usize) } else { dims(&mut r, maxdim.min(128)) };
        let (img, style) = image32(&mut r, w, h);
        rep.set("image_styles_32", style.to_string());
        if w * h <= 6 && idx % 8 == 0 {
            // enumerate every segmentation of a tiny image (cap)
            let mut en = refrle::Enumerator::new();
            let mut n = 0;
            loop {
                planar_case(&img, w, h, &mut en, "tiny-enumerated-planar", rep);
                n += 1;
                if n >= cap || !en.advance() {
                    break;
                }
            }
        } else {
            for k in 0..nenc {
                let mut er = Rng::derive(seed, "C09-enc32", idx, k);
                planar_case(&img, w, h, &mut er, style, rep);
            }
        }
    });
    total.merge(rep);

    // class 4: uncompressed (16 bpp only with even widths: rows are then a whole number of dwords,
    // so the specification's row padding rule does not come into play)
    let rep = par_run(cfg, cfg.n(20_000, 100_000), 16, |idx, rep| {
        mon::begin_case(9, 4, idx, seed);
        let mut r = Rng::derive(seed, "C09-raw", 4, idx);
        let (mut w, h) = dims(&mut r, maxdim);
        if idx % 2 == 0 {
            if w % 2 == 1 {
                w += 1;
            }
            let (img, style) = image16(&mut r, w, h);
            let e = Enc { codec: "raw16", w, h, bpp: 16, compress: false, data: refrle::raw16(&img, w, h), expect: refrle::expand565_image(&img) };
            check_enc(&e, style, rep);
        } else {
            let (img, style) = image32(&mut r, w, h);
            let e = Enc { codec: "raw32", w, h, bpp: 32, compress: false, data: refrle::raw32(&img, w, h), expect: img.clone() };
            check_enc(&e, style, rep);
        }
    });
    total.merge(rep);
    total
}

struct FixedChooser {
    script: Vec<usize>,
}
impl Chooser for FixedChooser {
    fn choose(&mut self, _n: usize) -> usize {
        self.script.pop().unwrap_or(0)
    }
}

fn dims(r: &mut Rng, maxdim: usize) -> (usize, usize) {
    match r.below(6) {
        0 => (r.range(1, 8) as usize, r.range(1, 8) as usize),
        1 => (*r.pick(&[47usize, 48, 49, 63, 64]).min(&maxdim), r.range(1, 6) as usize),
        2 => (r.range(1, maxdim as u64) as usize, r.range(1, 4) as usize),
        3 => (r.range(1, 4) as usize, r.range(1, maxdim as u64) as usize),
        _ => (r.range(1, maxdim as u64) as usize, r.range(1, maxdim as u64) as usize),
    }
}

pub fn replay(_cfg: &Cfg, v: &Value) -> Report {
    let mut rep = Report::new();
    if v["class"] == "concurrent-first-use" {
        concurrent_first_use(&mut rep);
        return rep;
    }
    mon::set_quiet(false);
    let codec: &'static str = match v["codec"].as_str().unwrap_or("") {
        "rle16" => "rle16",
        "planar32" => "planar32",
        "raw16" => "raw16",
        _ => "raw32",
    };
    let e = Enc {
        codec,
        w: v["w"].as_u64().unwrap() as usize,
        h: v["h"].as_u64().unwrap() as usize,
        bpp: v["bpp"].as_u64().unwrap() as u16,
        compress: v["compress"].as_bool().unwrap(),
        data: unhex(v["data"].as_str().unwrap()),
        expect: unhex(v["expect"].as_str().unwrap()),
    };
    check_enc(&e, "replay", &mut rep);
    rep
}
