//! C18 — encoders and decoders are mutually inverse and agree with reference codecs.
//! (a) message model via the shape generator (c18a), (b) PER primitives, (c) BER/DER value shapes,
//! (d) GCC conference blocks — each against refs::{per, ber, proto}.

use crate::mon;
use crate::props::c18a::{self, Gen, Leaf};
use crate::refs::ber::{self, Asn};
use crate::refs::bytes::Cur;
use crate::refs::cssp;
use crate::refs::per as rper;
use crate::refs::proto;
use crate::report::Report;
use crate::rng::{fnv, hex, Rng};
use crate::{par_run, Cfg};
use rdp::core::gcc;
use rdp::core::per;
use rdp::model::data::{to_vec, Message};
use rdp::nla::asn1::{from_ber, from_der, to_der, ASN1Type, Enumerate, ImplicitTag, Integer, OctetString, Sequence};
use rdp::nla::cssp as lcssp;
use serde_json::{json, Value};
use std::io::Cursor;

fn v(rep: &mut Report, sig: &str, detail: String, replay: Value) {
    rep.violation(format!("C18/{}", sig), detail, replay);
}

// ------------------------------------------------------------------------------------------ (a)

pub fn check_shape(seed: u64, idx: u64, rep: &mut Report) {
    rep.eval();
    let mut r = Rng::derive(seed, "C18a", 0, idx);
    let mut g = Gen { r: &mut r, counter: 0 };
    let (fields, sd) = g.message();
    let rp = json!({"part": "model", "gen": [0, idx, seed], "shape": format!("{:?}", fields).chars().take(1500).collect::<String>()});
    let mut want = Vec::new();
    c18a::encode_comp(&fields, &mut want);
    let mut want_leaves = Vec::new();
    for f in fields.iter().zip(c18a::emitted(&fields).iter()).filter(|(_, e)| **e).map(|(f, _)| f) {
        c18a::leaves(&f.d, &mut want_leaves);
    }
    let f2 = fields.clone();
    let res = mon::guarded(move || {
        let written = c18a::build_comp(&f2, false);
        let len = written.length();
        let bytes = to_vec(&written);
        let mut input = bytes.clone();
        if sd {
            input.extend_from_slice(&[0xA5, 0x5A, 0xC3, 0x3C, 0x99]);
        }
        let mut empty = c18a::build_comp(&f2, true);
        let mut cur = Cursor::new(input);
        let rd = empty.read(&mut cur).map_err(|e| crate::client::err_kind(&e));
        let consumed = cur.position() as usize;
        let mut got = Vec::new();
        c18a::collect(&empty, &c18a::D::Comp(f2.clone()), &mut got);
        (len, bytes, rd, consumed, got)
    });
    match res {
        Err(p) => v(rep, &format!("model/{}", p.sig()), format!("{} at {}:{}", p.msg, p.file, p.line), rp),
        Ok((len, bytes, rd, consumed, got)) => {
            let mut ok = true;
            if len as usize != bytes.len() {
                ok = false;
                v(rep, "model/length-differs-from-bytes-written", format!("length() = {} but {} bytes were written", len, bytes.len()), rp.clone());
            }
            if bytes != want {
                ok = false;
                v(rep, "model/encoding-differs-from-reference", format!("wrote {} bytes, the reference encoding of the same description has {} (first difference at {:?})", bytes.len(), want.len(), bytes.iter().zip(want.iter()).position(|(a, b)| a != b)), rp.clone());
            }
            match rd {
                Err(e) => {
                    ok = false;
                    v(rep, &format!("model/read-back-failed:{}", e), format!("reading the {} written bytes into an empty message of the same shape returned {}", bytes.len(), e), rp.clone());
                }
                Ok(()) => {
                    if consumed != bytes.len() {
                        ok = false;
                        v(rep, "model/consumed-differs-from-written", format!("read consumed {} bytes, {} were written (sentinel appended: {})", consumed, bytes.len(), sd), rp.clone());
                    }
                    if got != want_leaves {
                        ok = false;
                        let pos = got.iter().zip(want_leaves.iter()).position(|(a, b)| a != b);
                        let bad = got.iter().find(|l| matches!(l, Leaf::Bad(_)));
                        v(rep, "model/field-differs-after-read-back", format!("leaf {:?} differs: got {:?}, expected {:?} ({:?})", pos, pos.map(|p| &got[p]), pos.map(|p| &want_leaves[p]), bad), rp.clone());
                    }
                }
            }
            rep.hist(if ok { "model-roundtrip-exact" } else { "model-mismatch" });
        }
    }
    rep.nontrivial(fnv(&want) ^ idx);
    if rep.want_sample() && want.len() < 60 && want.len() > 8 {
        let s = json!({"part": "model", "bytes": hex(&want), "shape": format!("{:?}", fields).chars().take(400).collect::<String>()});
        rep.sample(|| s);
    }
}

// ------------------------------------------------------------------------------------------ (b) PER

fn lib_write<F: FnOnce(&mut Cursor<Vec<u8>>) -> rdp::model::error::RdpResult<()>>(f: F) -> Result<Vec<u8>, String> {
    let mut c = Cursor::new(Vec::new());
    f(&mut c).map_err(|e| crate::client::err_kind(&e))?;
    Ok(c.into_inner())
}

pub fn check_per_length(n: u16, rep: &mut Report) {
    rep.eval();
    let rp = json!({"part": "per.length", "n": n});
    let mut want = Vec::new();
    rper::w_length(&mut want, n as usize);
    let r = mon::guarded(|| {
        let t = per::write_length(n).map_err(|e| crate::client::err_kind(&e))?;
        let b = to_vec(&t);
        let back = per::read_length(&mut Cursor::new(b.clone())).map_err(|e| crate::client::err_kind(&e))?;
        let from_ref = per::read_length(&mut Cursor::new(want.clone())).map_err(|e| crate::client::err_kind(&e))?;
        Ok::<_, String>((b, back, from_ref))
    });
    match r {
        Err(p) => v(rep, &format!("per.length/{}", p.sig()), p.msg.clone(), rp),
        Ok(Err(e)) => v(rep, &format!("per.length/error:{}", e), format!("length {}: {}", n, e), rp),
        Ok(Ok((b, back, from_ref))) => {
            if b != want {
                v(rep, "per.length/encoding-differs", format!("write_length({}) = {} , reference {}", n, hex(&b), hex(&want)), rp.clone());
            }
            if back != n || from_ref != n {
                v(rep, "per.length/decode-differs", format!("read_length gives {} / {} for {}", back, from_ref, n), rp);
            }
        }
    }
    rep.nontrivial(0x1000_0000 | n as u64);
}

pub fn check_per_integer(x: u32, rep: &mut Report) -> bool {
    let mut want = Vec::new();
    rper::w_integer(&mut want, x);
    let r = mon::guarded(|| {
        let b = lib_write(|c| per::write_integer(x, c))?;
        let back = per::read_integer(&mut Cursor::new(b.clone())).map_err(|e| crate::client::err_kind(&e))?;
        let from_ref = per::read_integer(&mut Cursor::new(want.clone())).map_err(|e| crate::client::err_kind(&e))?;
        Ok::<_, String>((b, back, from_ref))
    });
    let rp = json!({"part": "per.integer", "x": x});
    match r {
        Err(p) => {
            v(rep, &format!("per.integer/{}", p.sig()), p.msg.clone(), rp);
            false
        }
        Ok(Err(e)) => {
            v(rep, &format!("per.integer/error:{}", e), format!("integer {}: {}", x, e), rp);
            false
        }
        Ok(Ok((b, back, from_ref))) => {
            let mut ok = true;
            if b != want {
                ok = false;
                v(rep, "per.integer/encoding-differs", format!("write_integer({}) = {}, the reference (minimal octets) gives {}", x, hex(&b), hex(&want)), rp.clone());
            }
            if back != x || from_ref != x {
                ok = false;
                v(rep, "per.integer/decode-differs", format!("read_integer gives {} (own encoding) / {} (reference encoding) for {}", back, from_ref, x), rp.clone());
            }
            let mut c = Cur::new(&b);
            match rper::r_integer(&mut c) {
                Ok(y) if y == x && c.done() => {}
                other => {
                    ok = false;
                    v(rep, "per.integer/reference-cannot-decode", format!("reference decoder on the library's encoding of {}: {:?}", x, other), rp);
                }
            }
            ok
        }
    }
}

pub fn check_per_integer16(value: u16, min: u16, rep: &mut Report) -> bool {
    let rp = json!({"part": "per.integer16", "value": value, "min": min});
    let mut want = Vec::new();
    rper::w_integer16(&mut want, value, min);
    let r = mon::guarded(|| {
        let b = lib_write(|c| per::write_integer_16(value, min, c))?;
        let back = per::read_integer_16(min, &mut Cursor::new(b.clone())).map_err(|e| crate::client::err_kind(&e))?;
        Ok::<_, String>((b, back))
    });
    match r {
        Err(p) => {
            v(rep, &format!("per.integer16/{}", p.sig()), format!("value {} min {}: {}", value, min, p.msg), rp);
            false
        }
        Ok(Err(e)) => {
            v(rep, &format!("per.integer16/error:{}", e), format!("value {} min {}: {}", value, min, e), rp);
            false
        }
        Ok(Ok((b, back))) => {
            if b != want || back != value {
                v(rep, "per.integer16/differs", format!("value {} min {}: wrote {}, read back {}", value, min, hex(&b), back), rp);
                return false;
            }
            true
        }
    }
}

pub fn check_per_misc(idx: u64, seed: u64, rep: &mut Report) {
    rep.eval();
    let mut r = Rng::derive(seed, "C18per", 1, idx);
    // object identifiers
    let oid: [u8; 6] = [(idx % 16) as u8, ((idx / 16) % 16) as u8, r.edge16() as u8, r.u8(), *r.pick(&[0u8, 1, 0x7f, 0x80, 0xff, 5]), r.u8()];
    let rp = json!({"part": "per.oid", "oid": oid});
    let mut want = Vec::new();
    rper::w_oid(&mut want, &oid);
    let r1 = mon::guarded(|| {
        let b = lib_write(|c| per::write_object_identifier(&oid, c))?;
        let same = per::read_object_identifier(&oid, &mut Cursor::new(b.clone())).map_err(|e| crate::client::err_kind(&e))?;
        let mut other = oid;
        let k = 2 + (idx as usize % 4);
        other[k] ^= 0x01;
        let diff = per::read_object_identifier(&other, &mut Cursor::new(b.clone())).map_err(|e| crate::client::err_kind(&e))?;
        Ok::<_, String>((b, same, diff, k))
    });
    match r1 {
        Err(p) => v(rep, &format!("per.oid/{}", p.sig()), p.msg.clone(), rp),
        Ok(Err(e)) => v(rep, &format!("per.oid/error:{}", e), e, rp),
        Ok(Ok((b, same, diff, k))) => {
            if b != want {
                v(rep, "per.oid/encoding-differs", format!("{:?}: {} vs reference {}", oid, hex(&b), hex(&want)), rp.clone());
            }
            if !same {
                v(rep, "per.oid/does-not-decode-what-it-encodes", format!("read_object_identifier does not recognise its own encoding of {:?}", oid), rp.clone());
            }
            if diff {
                v(rep, "per.oid/accepts-a-different-identifier", format!("encoding of {:?} is accepted as an identifier differing in arc {}", oid, k), rp);
            }
        }
    }
    // octet strings: every length boundary, minimum 0..8
    let min = (idx % 9) as usize;
    let len = min + match idx % 5 {
        _ if idx % 11 == 0 => 0,
        0 => (idx / 45 % 301) as usize,
        1 => 0x7f - (idx as usize % 3),
        2 => 0x80 + (idx as usize % 3),
        _ => r.range(0, 300) as usize,
    };
    let data = r.bytes(len);
    let rp = json!({"part": "per.octets", "len": len, "min": min});
    let mut want = Vec::new();
    rper::w_octets(&mut want, &data, min);
    let d2 = data.clone();
    let r2 = mon::guarded(|| {
        let b = lib_write(|c| per::write_octet_stream(&d2, min, c))?;
        let mut ok = per::read_octet_stream(&d2, min, &mut Cursor::new(b.clone())).is_ok();
        // ... also when something follows it in the stream: exactly its own bytes are consumed
        let mut followed = b.clone();
        followed.extend_from_slice(&[0xA5, 0x5A, 0x07]);
        let mut cur = Cursor::new(followed);
        ok &= per::read_octet_stream(&d2, min, &mut cur).is_ok() && cur.position() as usize == b.len();
        let mut alt = d2.clone();
        let mut rejects_other = true;
        if !alt.is_empty() {
            let k = alt.len() / 2;
            alt[k] ^= 0x40;
            rejects_other = per::read_octet_stream(&alt, min, &mut Cursor::new(b.clone())).is_err();
        }
        Ok::<_, String>((b, ok, rejects_other))
    });
    match r2 {
        Err(p) => v(rep, &format!("per.octets/{}", p.sig()), p.msg.clone(), rp),
        Ok(Err(e)) => v(rep, &format!("per.octets/error:{}", e), e, rp),
        Ok(Ok((b, ok, rej))) => {
            if b != want {
                v(rep, "per.octets/encoding-differs", format!("len {} min {}: header {} vs reference {}", len, min, hex(&b[..b.len().min(3)]), hex(&want[..want.len().min(3)])), rp.clone());
            }
            if !ok {
                v(rep, "per.octets/does-not-decode-what-it-encodes", format!("len {} min {}", len, min), rp.clone());
            }
            if !rej {
                v(rep, "per.octets/accepts-different-content", format!("len {} min {}", len, min), rp);
            }
        }
    }
    // numeric strings
    let nmin = (idx % 3) as usize;
    let nlen = nmin + (idx / 3 % 20) as usize;
    let digits: Vec<u8> = (0..nlen).map(|_| b'0' + r.below(10) as u8).collect();
    let rp = json!({"part": "per.numeric", "digits": String::from_utf8_lossy(&digits), "min": nmin});
    let mut want = Vec::new();
    rper::w_numeric(&mut want, &digits, nmin);
    let dg = digits.clone();
    let r3 = mon::guarded(|| {
        let b = lib_write(|c| per::write_numeric_string(&dg, nmin, c))?;
        let mut cur = Cursor::new(want.clone());
        let back = per::read_numeric_string(nmin, &mut cur).map_err(|e| crate::client::err_kind(&e));
        Ok::<_, String>((b, back, cur.position() as usize))
    });
    match r3 {
        Err(p) => v(rep, &format!("per.numeric/{}", p.sig()), p.msg.clone(), rp),
        Ok(Err(e)) => v(rep, &format!("per.numeric/error:{}", e), e, rp),
        Ok(Ok((b, back, consumed))) => {
            if b != want {
                v(rep, "per.numeric/encoding-differs", format!("{:?} min {}: {} vs reference {}", String::from_utf8_lossy(&digits), nmin, hex(&b), hex(&want)), rp.clone());
            }
            match back {
                Ok(d) => {
                    if d != digits || consumed != want.len() {
                        v(rep, "per.numeric/decode-differs", format!("reference encoding of {:?} (min {}, {} bytes) read back as {:?}, {} bytes consumed", String::from_utf8_lossy(&digits), nmin, want.len(), String::from_utf8_lossy(&d), consumed), rp);
                    }
                }
                Err(e) => v(rep, &format!("per.numeric/decode-error:{}", e), format!("reference encoding of {:?} (min {}) is rejected", String::from_utf8_lossy(&digits), nmin), rp),
            }
        }
    }
    // single-octet primitives, all 256 values
    let b = (idx % 256) as u8;
    let r4 = mon::guarded(|| {
        let c1 = lib_write(|c| per::write_choice(b, c))? == vec![b] && per::read_choice(&mut Cursor::new(vec![b])).map(|x| x == b).unwrap_or(false);
        let c2 = lib_write(|c| per::write_selection(b, c))? == vec![b] && per::read_selection(&mut Cursor::new(vec![b])).map(|x| x == b).unwrap_or(false);
        let c3 = lib_write(|c| per::write_number_of_set(b, c))? == vec![b] && per::read_number_of_set(&mut Cursor::new(vec![b])).map(|x| x == b).unwrap_or(false);
        let c4 = per::write_enumerates(b).map(|x| x == b).unwrap_or(false) && per::read_enumerates(&mut Cursor::new(vec![b])).map(|x| x == b).unwrap_or(false);
        let n = (b % 9) as usize;
        let c5 = lib_write(|c| per::write_padding(n, c))? == vec![0u8; n];
        Ok::<_, String>(c1 && c2 && c3 && c4 && c5)
    });
    match r4 {
        Ok(Ok(true)) => {}
        other => v(rep, "per.single-octet/differs", format!("value {}: {:?}", b, other.map_err(|p| p.msg)), json!({"part": "per.single", "b": b})),
    }
    rep.nontrivial(0x2000_0000_0000 | idx);
}

// ------------------------------------------------------------------------------------------ (c) ASN.1

const INTS: [u32; 17] = [0, 1, 0x7f, 0x80, 0xff, 0x100, 0x7fff, 0x8000, 0xffff, 0x10000, 0x7fffff, 0x800000, 0xffffff, 0x1000000, 0x7fffffff, 0x80000000, 0xffffffff];
const OLENS: [usize; 12] = [0, 1, 2, 126, 127, 128, 129, 255, 256, 257, 65535, 65536];

fn domain_params(v: &[u32; 8]) -> Sequence {
    sequence![
        "maxChannelIds" => v[0],
        "maxUserIds" => v[1],
        "maxTokenIds" => v[2],
        "numPriorities" => v[3],
        "minThoughput" => v[4],
        "maxHeight" => v[5],
        "maxMCSPDUsize" => v[6],
        "protocolVersion" => v[7]
    ]
}

fn dp_asn(v: &[u32; 8]) -> Asn {
    Asn::Seq(v.iter().map(|x| Asn::Int(*x as u64)).collect())
}

fn seq_u32s(s: &Sequence, names: &[&str]) -> Vec<Option<u32>> {
    names
        .iter()
        .map(|n| match s[*n].visit() {
            ASN1Type::U32(x) => Some(x),
            _ => None,
        })
        .collect()
}

const DPN: [&str; 8] = ["maxChannelIds", "maxUserIds", "maxTokenIds", "numPriorities", "minThoughput", "maxHeight", "maxMCSPDUsize", "protocolVersion"];

pub fn check_asn1(idx: u64, seed: u64, rep: &mut Report) {
    rep.eval();
    let mut r = Rng::derive(seed, "C18asn", 2, idx);
    let pick_int = |r: &mut Rng| if r.chance(2, 3) { *r.pick(&INTS) } else { r.u32() };
    let mut dp = [0u32; 8];
    for x in dp.iter_mut() {
        *x = pick_int(&mut r);
    }
    let olen = if r.chance(1, 2) { *r.pick(&OLENS[..10]) } else if r.chance(1, 20) { *r.pick(&OLENS) } else { r.range(0, 400) as usize };
    let ud = r.bytes(olen);
    let result: i64 = *r.pick(&[0i64, 1, 2, 14, 127, 128, 255, 256, -1, -128, -129, 65535]);
    let cid = pick_int(&mut r);
    let rp = json!({"part": "asn1", "gen": [2, idx, seed], "dp": dp, "olen": olen, "result": result, "cid": cid});
    // Connect-Response shape
    let want = ber::der(&Asn::App(102, vec![Asn::Enum(result), Asn::Int(cid as u64), dp_asn(&dp), Asn::Octets(ud.clone())]));
    // a BER variant with non-minimal length forms
    let mut k = idx;
    let ber_variant = ber::der_form(&Asn::App(102, vec![Asn::Enum(result), Asn::Int(cid as u64), dp_asn(&dp), Asn::Octets(ud.clone())]), &mut |_n| {
        k = k.wrapping_mul(6364136223846793005).wrapping_add(1);
        ((k >> 33) % 4) as u8
    });
    let (udc, dpc) = (ud.clone(), dp);
    let (w2, b2) = (want.clone(), ber_variant.clone());
    let res = mon::guarded(move || {
        let msg = ImplicitTag::new(yasna_tag_app(102), sequence![
            "result" => result as Enumerate,
            "calledConnectId" => cid as Integer,
            "domainParameters" => domain_params(&dpc),
            "userData" => udc.clone() as OctetString
        ]);
        let enc = to_der(&msg);
        let mut out = Vec::new();
        for (label, bytes, use_ber) in [("der", &w2, false), ("ber", &b2, true), ("der-via-ber-reader", &w2, true)].iter() {
            let mut empty = ImplicitTag::new(yasna_tag_app(102), sequence![
                "result" => 0 as Enumerate,
                "calledConnectId" => 0 as Integer,
                "domainParameters" => domain_params(&[0; 8]),
                "userData" => Vec::new() as OctetString
            ]);
            let rd = if *use_ber { from_ber(&mut empty, bytes) } else { from_der(&mut empty, bytes) };
            let vals = match rd {
                Err(e) => Err(crate::client::err_kind(&e)),
                Ok(()) => {
                    let s = &empty.inner;
                    let res = match s["result"].visit() {
                        ASN1Type::Enumerate(x) => Some(x),
                        _ => None,
                    };
                    let c = match s["calledConnectId"].visit() {
                        ASN1Type::U32(x) => Some(x),
                        _ => None,
                    };
                    let d = match s["domainParameters"].visit() {
                        ASN1Type::Sequence(q) => seq_u32s(q, &DPN),
                        _ => vec![],
                    };
                    let u = match s["userData"].visit() {
                        ASN1Type::OctetString(o) => Some(o.clone()),
                        _ => None,
                    };
                    Ok((res, c, d, u))
                }
            };
            out.push((*label, vals));
        }
        (enc, out)
    });
    match res {
        Err(p) => v(rep, &format!("asn1/{}", p.sig()), format!("{} at {}:{}", p.msg, p.file, p.line), rp.clone()),
        Ok((enc, outs)) => {
            if enc != want {
                v(rep, "asn1/connect-response/encoding-differs", format!("library DER ({} bytes) differs from the reference ({} bytes) at {:?}", enc.len(), want.len(), enc.iter().zip(want.iter()).position(|(a, b)| a != b)), rp.clone());
            }
            for (label, vals) in outs {
                match vals {
                    Err(e) => v(rep, &format!("asn1/connect-response/{}-rejected:{}", label, e), format!("the library's reader rejects the reference {} encoding: {}", label, e), rp.clone()),
                    Ok((res, c, d, u)) => {
                        let exp_d: Vec<Option<u32>> = dp.iter().map(|x| Some(*x)).collect();
                        if res != Some(result) || c != Some(cid) || d != exp_d || u.as_ref() != Some(&ud) {
                            v(rep, &format!("asn1/connect-response/{}-decodes-differently", label), format!("result {:?} (expected {}), connect id {:?} (expected {}), parameters equal: {}, user data equal: {}", res, result, c, cid, d == exp_d, u.as_ref() == Some(&ud)), rp.clone());
                        }
                    }
                }
            }
        }
    }
    // Connect-Initial shape (encode only; the library never reads it) + reference strict decode of the library's bytes
    let cl = r.range(0, 3) as usize;
    let called = r.bytes(cl);
    let flag = r.chance(1, 2);
    let (ud3, called2) = (ud.clone(), called.clone());
    let enc = mon::guarded(move || {
        to_der(&ImplicitTag::new(yasna_tag_app(101), sequence![
            "callingDomainSelector" => vec![1 as u8] as OctetString,
            "calledDomainSelector" => called2 as OctetString,
            "upwardFlag" => flag,
            "targetParameters" => domain_params(&dpc_copy(&dp)),
            "minimumParameters" => domain_params(&[1, 1, 1, 1, 0, 1, 0x420, 2]),
            "maximumParameters" => domain_params(&[0xffff, 0xfc17, 0xffff, 1, 0, 1, 0xffff, 2]),
            "userData" => ud3 as OctetString
        ]))
    });
    let want_ci = ber::der(&Asn::App(
        101,
        vec![Asn::Octets(vec![1]), Asn::Octets(called), Asn::Bool(flag), dp_asn(&dp), dp_asn(&[1, 1, 1, 1, 0, 1, 0x420, 2]), dp_asn(&[0xffff, 0xfc17, 0xffff, 1, 0, 1, 0xffff, 2]), Asn::Octets(ud.clone())],
    ));
    match enc {
        Ok(e) if e == want_ci => {}
        Ok(e) => v(rep, "asn1/connect-initial/encoding-differs", format!("{} vs {} bytes", e.len(), want_ci.len()), rp.clone()),
        Err(p) => v(rep, &format!("asn1/connect-initial/{}", p.sig()), p.msg.clone(), rp.clone()),
    }
    // TSRequest forms through the public CredSSP helpers
    let nl = *r.pick(&[0usize, 1, 40, 127, 128, 300, 1200]);
    let nego = r.bytes(nl);
    let pl = *r.pick(&[0usize, 16, 127, 128, 290, 600]);
    let pka = r.bytes(pl);
    let (n2, p2) = (nego.clone(), pka.clone());
    let ts = mon::guarded(move || {
        let a = lcssp::create_ts_request(n2.clone());
        let b = lcssp::create_ts_authenticate(n2.clone(), p2.clone());
        let ver = 2 + (n2.len() as u64 % 5);
        let srv_chal = cssp::build(&cssp::TsRequest { version: ver, nego_tokens: vec![n2.clone()], ..Default::default() });
        let c = lcssp::read_ts_server_challenge(&srv_chal).map_err(|e| crate::client::err_kind(&e));
        let srv_val = cssp::build(&cssp::TsRequest { version: ver, pub_key_auth: Some(p2.clone()), ..Default::default() });
        let d = lcssp::read_ts_validate(&srv_val).map_err(|e| crate::client::err_kind(&e));
        (a, b, c, d)
    });
    match ts {
        Err(p) => v(rep, &format!("asn1/tsrequest/{}", p.sig()), p.msg.clone(), rp.clone()),
        Ok((a, b, c, d)) => {
            let wa = cssp::build(&cssp::TsRequest { version: 2, nego_tokens: vec![nego.clone()], ..Default::default() });
            let wb = cssp::build(&cssp::TsRequest { version: 2, nego_tokens: vec![nego.clone()], pub_key_auth: Some(pka.clone()), ..Default::default() });
            if a != wa || b != wb {
                v(rep, "asn1/tsrequest/encoding-differs", format!("negotiate form equal: {}, authenticate form equal: {}", a == wa, b == wb), rp.clone());
            }
            for (name, raw) in [("negotiate", &a), ("authenticate", &b)].iter() {
                if let Err(e) = cssp::parse(raw, true) {
                    v(rep, &format!("asn1/tsrequest/{}-not-strict-der", name), e, rp.clone());
                }
            }
            if c.as_ref().ok() != Some(&nego) {
                v(rep, "asn1/tsrequest/challenge-decodes-differently", format!("{:?}", c.as_ref().map(|x| x.len())), rp.clone());
            }
            if d.as_ref().ok() != Some(&pka) {
                v(rep, "asn1/tsrequest/validate-decodes-differently", format!("{:?}", d.as_ref().map(|x| x.len())), rp.clone());
            }
        }
    }
    // SEQUENCE OF with 0..4 elements (octet strings, integers) through the generic model: as many elements come back as
    // were encoded, each with its content, and the library's encoding is the reference DER
    {
        use crate::refs::ber::{der, Asn};
        use rdp::nla::asn1::SequenceOf;
        let k = (idx % 5) as usize;
        let octets = idx / 5 % 2 == 0;
        let items: Vec<Vec<u8>> = (0..k).map(|_| { let l = *r.pick(&[0usize, 1, 5, 127, 128, 300]); r.bytes(l) }).collect();
        let ints: Vec<u32> = (0..k).map(|_| *r.pick(&[0u32, 1, 127, 128, 255, 256, 0x7fff, 0x8000, 0xffffff, 0x7fffffff])).collect();
        let want = if octets { der(&Asn::Seq(items.iter().map(|i| Asn::Octets(i.clone())).collect())) } else { der(&Asn::Seq(ints.iter().map(|i| Asn::Int(*i as u64)).collect())) };
        let (it2, in2, w2) = (items.clone(), ints.clone(), want.clone());
        let res = mon::guarded(move || {
            let mut out = SequenceOf::new();
            for i in 0..k {
                if octets {
                    out.inner.push(Box::new(it2[i].clone()));
                } else {
                    out.inner.push(Box::new(in2[i] as Integer));
                }
            }
            let enc = to_der(&out);
            let mut back = if octets { SequenceOf::reader(|| Box::new(OctetString::new())) } else { SequenceOf::reader(|| Box::new(0 as Integer)) };
            let dec = from_der(&mut back, &w2).map_err(|e| crate::client::err_kind(&e));
            let got: Vec<(Option<Vec<u8>>, Option<u32>)> = back
                .inner
                .iter()
                .map(|e| match e.visit() {
                    ASN1Type::OctetString(o) => (Some(o.clone()), None),
                    ASN1Type::U32(i) => (None, Some(i)),
                    _ => (None, None),
                })
                .collect();
            (enc, dec, got)
        });
        let rp2 = json!({"part": "asn1", "gen": [2, idx, seed], "sequence_of": k, "octets": octets});
        match res {
            Err(p) => v(rep, &format!("asn1/sequence-of/{}", p.sig()), p.msg.clone(), rp2),
            Ok((enc, dec, got)) => {
                if enc != want {
                    v(rep, "asn1/sequence-of/encoding-differs", format!("{} elements: library {} bytes, reference {} bytes", k, enc.len(), want.len()), rp2.clone());
                }
                let expect: Vec<(Option<Vec<u8>>, Option<u32>)> = if octets { items.iter().map(|i| (Some(i.clone()), None)).collect() } else { ints.iter().map(|i| (None, Some(*i))).collect() };
                if dec.is_err() || got != expect {
                    v(rep, "asn1/sequence-of/decodes-differently", format!("{} elements encoded, reader returned {:?} and holds {} elements (equal: {})", k, dec, got.len(), got == expect), rp2);
                }
            }
        }
    }
    rep.nontrivial(0x3000_0000_0000 | idx);
}

fn dpc_copy(d: &[u32; 8]) -> [u32; 8] {
    *d
}

fn yasna_tag_app(n: u64) -> yasna::Tag {
    yasna::Tag::application(n)
}

// ------------------------------------------------------------------------------------------ (d) GCC

fn ref_conference_create_request(user_data: &[u8]) -> Vec<u8> {
    let mut inner = vec![0x00, 0x08];
    rper::w_numeric(&mut inner, b"1", 1);
    inner.push(0);
    inner.push(1);
    inner.push(0xc0);
    rper::w_octets(&mut inner, b"Duca", 4);
    rper::w_octets(&mut inner, user_data, 0);
    let mut out = vec![0u8];
    rper::w_oid(&mut out, &proto::T124_OID);
    rper::w_length(&mut out, inner.len());
    out.extend_from_slice(&inner);
    out
}

pub fn check_gcc(idx: u64, seed: u64, rep: &mut Report) {
    rep.eval();
    let mut r = Rng::derive(seed, "C18gcc", 3, idx);
    // request: user data of every length 0..1000
    let n = (idx % 1001) as usize;
    let ud = r.bytes(n);
    let rp = json!({"part": "gcc.request", "len": n});
    let want = ref_conference_create_request(&ud);
    let u2 = ud.clone();
    match mon::guarded(move || gcc::write_conference_create_request(&u2).map_err(|e| crate::client::err_kind(&e))) {
        Err(p) => v(rep, &format!("gcc.request/{}", p.sig()), p.msg.clone(), rp),
        Ok(Err(e)) => v(rep, &format!("gcc.request/error:{}", e), e, rp),
        Ok(Ok(b)) => {
            if b != want {
                v(rep, "gcc.request/encoding-differs", format!("user data of {} bytes: header {} vs reference {}", n, hex(&b[..b.len().min(24)]), hex(&want[..want.len().min(24)])), rp);
            }
        }
    }
    // client core data: the clientName field is 16 UTF-16 code units, at most 15 of the name (never half of a surrogate
    // pair) and zeros from there on, whatever the name is made of; the block keeps its size
    {
        let mut nr = Rng::derive(seed, "C18gcc-name", 3, idx);
        let count = nr.below(20) as usize;
        let name: String = (0..count)
            .map(|_| match nr.below(4) {
                0 => (b'a' + nr.below(26) as u8) as char,
                1 => *nr.pick(&['é', 'Ж', '中', '\u{ffff}', '\u{d7ff}', '\u{e000}']),
                _ => *nr.pick(&['🔑', '𐌰', '\u{10000}', '\u{10ffff}', '😀']),
            })
            .collect();
        let mut units: Vec<u16> = name.encode_utf16().take(15).collect();
        if let Some(l) = units.last() {
            if (0xD800..0xDC00).contains(l) {
                units.pop();
            }
        }
        units.resize(16, 0);
        let want: Vec<u8> = units.iter().flat_map(|u| u.to_le_bytes().to_vec()).collect();
        let rp = json!({"part": "gcc.core", "gen": [3, idx, seed], "name": name});
        let nm = name.clone();
        match mon::guarded(move || {
            let c = gcc::client_core_data(Some(gcc::ClientData { width: 800, height: 600, layout: gcc::KeyboardLayout::US, server_selected_protocol: 1, rdp_version: gcc::Version::RdpVersion5plus, name: nm }));
            rdp::model::data::to_vec(&c)
        }) {
            Err(p) => v(rep, &format!("gcc.core/{}", p.sig()), p.msg.clone(), rp),
            Ok(b) => {
                rep.hist(&format!("gcc.core-name-units-{}", name.encode_utf16().count().min(17)));
                if b.len() != 212 {
                    v(rep, "gcc.core/size-differs", format!("client core data of {} bytes for a name of {} characters, 212 expected", b.len(), name.chars().count()), rp);
                } else if b[20..52] != want[..] {
                    v(rep, "gcc.core/clientName-differs", format!("name {:?} ({} code units): field {} vs reference {}", name, name.encode_utf16().count(), hex(&b[20..52]), hex(&want)), rp);
                }
            }
        }
    }
    // response: every response the reference encoder can produce from the profile generator
    let sel = *r.pick(&[0u32, 1, 2]);
    let mut p = crate::gen::profile(&mut r, sel);
    let nch = (idx % 8) as usize;
    p.net_channels = (0..nch).map(|i| 1004 + i as u16).collect();
    let blocks = proto::gcc_blocks(&p);
    let ccr = proto::conference_create_response(&p, &blocks);
    let rp = json!({"part": "gcc.response", "gen": [3, idx, seed], "channels": nch, "version": p.version, "bytes": hex(&ccr.v)});
    let bytes = ccr.v.clone();
    match mon::guarded(move || gcc::read_conference_create_response(&mut Cursor::new(bytes)).map_err(|e| crate::client::err_kind(&e))) {
        Err(pn) => v(rep, &format!("gcc.response/{}", pn.sig()), format!("{} at {}:{}", pn.msg, pn.file, pn.line), rp),
        Ok(Err(e)) => v(rep, &format!("gcc.response/rejected:{}", e), format!("a conforming conference-create-response ({} channels, {} extra blocks, order {:?}) is rejected: {}", nch, p.extra_blocks.len(), p.block_order, e), rp),
        Ok(Ok(sd)) => {
            if sd.channel_ids != p.net_channels {
                v(rep, "gcc.response/channel-ids-differ", format!("decoded {:?}, sent {:?}", sd.channel_ids, p.net_channels), rp.clone());
            }
            let want_v = match p.version {
                0x00080001 => Some(gcc::Version::RdpVersion),
                0x00080004 => Some(gcc::Version::RdpVersion5plus),
                _ => None,
            };
            if let Some(w) = want_v {
                if sd.rdp_version != w {
                    v(rep, "gcc.response/version-decodes-crosswise", format!("rdpVersion {:#010x} decodes to the other known version", p.version), rp);
                }
            }
        }
    }
    rep.nontrivial(0x4000_0000_0000 | idx);
}

// ------------------------------------------------------------------------------------------ run

pub fn run(cfg: &Cfg) -> Report {
    let seed = cfg.seed;
    let mut total = Report::new();
    if cfg.wants(0) {
        let n = cfg.n(100_000, 10_000_000);
        let rep = par_run(cfg, n, 256, |idx, rep| {
            mon::begin_case(18, 0, idx, seed);
            check_shape(seed, idx, rep);
        });
        total.count("model_shapes", n);
        total.merge(rep);
    }
    if cfg.wants(1) {
        // PER: every length 0..0x7fff
        let rep = par_run(cfg, 0x8000, 512, |idx, rep| {
            mon::begin_case(18, 1, idx, seed);
            check_per_length(idx as u16, rep);
        });
        total.count("per_lengths_exhaustive", 0x8000);
        total.merge(rep);
        // PER integers: all of u16 + boundaries + samples (quick); all 2^32 (thorough)
        let blocks: u64 = if cfg.quick() { 0x10000 / 4096 + 256 } else { (1u64 << 32) / 4096 };
        let quick = cfg.quick();
        let rep = par_run(cfg, blocks, 8, |blk, rep| {
            mon::begin_case(18, 2, blk, seed);
            let mut ok = 0u64;
            let mut bad = 0u64;
            for k in 0..4096u64 {
                let x: u32 = if quick {
                    if blk < 16 {
                        (blk * 4096 + k) as u32
                    } else {
                        let mut r = Rng::derive(seed, "C18int", blk, k);
                        if k < 64 {
                            [0xffffu32, 0x10000, 0x10001, 0xfffe, 0xff, 0x100, 0xfe, 0x7fffffff, 0x80000000, 0xffffffff, 0xfffffffe, 0x00ffffff, 0x01000000][k as usize % 13]
                        } else {
                            r.u32()
                        }
                    }
                } else {
                    (blk * 4096 + k) as u32
                };
                if bad < 3 {
                    if check_per_integer(x, rep) {
                        ok += 1
                    } else {
                        bad += 1
                    }
                }
            }
            rep.evaluations += 4096;
            rep.count("per_integers_checked", ok + bad);
            rep.nontrivial(0x5000_0000_0000 | blk);
        });
        total.count("per_integer_blocks_of_4096", blocks);
        if !cfg.quick() {
            total.count("per_integer_all_u32_exhaustive", 1);
        }
        total.merge(rep);
        // integer16 (value, minimum) pairs with value >= minimum
        let blocks: u64 = if cfg.quick() { 300 } else { 1 << 15 };
        let rep = par_run(cfg, blocks, 4, |blk, rep| {
            mon::begin_case(18, 3, blk, seed);
            let mut r = Rng::derive(seed, "C18i16", blk, 0);
            let mut n = 0u64;
            if quick {
                for _ in 0..4096 {
                    let min = r.edge16();
                    let value = if r.chance(1, 3) { min } else { r.range(min as u64, 65535) as u16 };
                    check_per_integer16(value, min, rep);
                    n += 1;
                }
            } else {
                // all pairs: block = two minimum values, every value >= minimum
                for min in [blk * 2, blk * 2 + 1].iter() {
                    let min = *min as u16;
                    let mut bad = 0;
                    for value in min as u32..=65535 {
                        if bad < 2 && !check_per_integer16(value as u16, min, rep) {
                            bad += 1;
                        }
                        n += 1;
                    }
                }
            }
            rep.evaluations += n;
            rep.count("per_integer16_pairs", n);
            rep.nontrivial(0x6000_0000_0000 | blk);
        });
        total.merge(rep);
        let n = cfg.n(256 * 40, 256 * 4000);
        let rep = par_run(cfg, n, 256, |idx, rep| {
            mon::begin_case(18, 4, idx, seed);
            check_per_misc(idx, seed, rep);
        });
        total.merge(rep);
    }
    if cfg.wants(2) {
        let n = cfg.n(20_000, 1_000_000);
        let rep = par_run(cfg, n, 64, |idx, rep| {
            mon::begin_case(18, 5, idx, seed);
            check_asn1(idx, seed, rep);
        });
        total.count("asn1_cases", n);
        total.merge(rep);
    }
    if cfg.wants(3) {
        let n = cfg.n(1001 * 8, 1001 * 400);
        let rep = par_run(cfg, n, 64, |idx, rep| {
            mon::begin_case(18, 6, idx, seed);
            check_gcc(idx, seed, rep);
        });
        total.count("gcc_cases", n);
        total.merge(rep);
    }
    total
}

pub fn replay(_cfg: &Cfg, v: &Value) -> Report {
    let mut rep = Report::new();
    mon::set_quiet(false);
    let part = v["part"].as_str().unwrap_or("");
    let gen = |v: &Value| -> Vec<u64> { v["gen"].as_array().map(|a| a.iter().map(|x| x.as_u64().unwrap()).collect()).unwrap_or_default() };
    match part {
        "model" => {
            let g = gen(v);
            check_shape(g[2], g[1], &mut rep)
        }
        "per.length" => check_per_length(v["n"].as_u64().unwrap() as u16, &mut rep),
        "per.integer" => {
            check_per_integer(v["x"].as_u64().unwrap() as u32, &mut rep);
            rep.eval();
        }
        "per.integer16" => {
            check_per_integer16(v["value"].as_u64().unwrap() as u16, v["min"].as_u64().unwrap() as u16, &mut rep);
            rep.eval();
        }
        "asn1" => {
            let g = gen(v);
            check_asn1(g[1], g[2], &mut rep)
        }
        "gcc.response" | "gcc.core" => {
            let g = gen(v);
            check_gcc(g[1], g[2], &mut rep)
        }
        "gcc.request" => check_gcc(v["len"].as_u64().unwrap(), 1, &mut rep),
        _ => {
            // per.oid / per.octets / per.numeric / death cases: re-run the miscellaneous sweep around the index
            for i in 0..2304 {
                check_per_misc(i, 1, &mut rep);
            }
        }
    }
    rep
}
