// Compiled inside `mod gui` (see gui_main.rs): the private functions of /repo/src/bin/mstsc-rs.rs
// (fast_bitmap_transfer, transmute_vec, launch_rdp_thread, wait_for_fd) are reachable through `super::`.

use rdpverif::mon;
use rdpverif::refs::rle as refrle;
use rdpverif::report::Report;
use rdpverif::rng::{fnv, hex, unhex, Rng};
use rdpverif::{par_run, Cfg};
use serde_json::{json, Value};

pub fn main() {
    rdpverif::cli(&run, &replay);
}

fn run(cfg: &Cfg) -> Option<Report> {
    match cfg.prop.as_str() {
        "C19" => Some(c19::run(cfg)),
        "C20" => Some(c20::run(cfg)),
        _ => None,
    }
}

fn replay(cfg: &Cfg, v: &Value) -> Option<Report> {
    match cfg.prop.as_str() {
        "C19" => Some(c19::replay(cfg, v)),
        "C20" => Some(c20::replay(cfg, v)),
        _ => None,
    }
}

pub mod c19 {
    //! C19 — painting a bitmap into the window buffer is memory-safe and exact.
    //! Oracles: sanitizer (the build mode), differential reference blit on a uniquely patterned
    //! buffer, and a geometric safety oracle that knows which index ranges each row touches.
    use super::*;
    use rdp::core::event::BitmapEvent;

    #[derive(Clone, Debug)]
    pub struct Case {
        pub win_w: usize,
        pub win_h: usize,
        pub left: u16,
        pub top: u16,
        pub right: u16,
        pub bottom: u16,
        pub img_w: u16,
        pub img_h: u16,
        pub bpp: u16,
        pub compress: bool,
        pub data: Vec<u8>,
        pub class: &'static str,
    }

    impl Case {
        pub fn to_json(&self) -> Value {
            json!({"win": [self.win_w, self.win_h], "rect": [self.left, self.top, self.right, self.bottom], "img": [self.img_w, self.img_h], "bpp": self.bpp,
                   "compress": self.compress, "data": hex(&self.data[..self.data.len().min(8192)]), "data_len": self.data.len(), "class": self.class})
        }
        pub fn from_json(v: &Value) -> Case {
            let a = |k: &str, i: usize| v[k][i].as_u64().unwrap_or(0);
            Case {
                win_w: a("win", 0) as usize,
                win_h: a("win", 1) as usize,
                left: a("rect", 0) as u16,
                top: a("rect", 1) as u16,
                right: a("rect", 2) as u16,
                bottom: a("rect", 3) as u16,
                img_w: a("img", 0) as u16,
                img_h: a("img", 1) as u16,
                bpp: v["bpp"].as_u64().unwrap_or(32) as u16,
                compress: v["compress"].as_bool().unwrap_or(false),
                data: unhex(v["data"].as_str().unwrap_or("")),
                class: "replay",
            }
        }
        fn event(&self) -> BitmapEvent {
            BitmapEvent { dest_left: self.left, dest_top: self.top, dest_right: self.right, dest_bottom: self.bottom, width: self.img_w, height: self.img_h, bpp: self.bpp, is_compress: self.compress, data: self.data.clone() }
        }
    }

    /// image data of the requested kind for a w x h image; `len_mode`: 0 exact, 1 short, 2 long, 3 empty
    pub fn image_data(r: &mut Rng, w: usize, h: usize, bpp: u16, compress: bool, len_mode: u64) -> Vec<u8> {
        let mut d = if w == 0 || h == 0 {
            Vec::new()
        } else if bpp == 32 && !compress {
            r.bytes(w * h * 4)
        } else if bpp == 32 {
            let img = r.bytes(w * h * 4);
            let mut st = Vec::new();
            refrle::encode_planar(&img, w, h, r, &mut st)
        } else if !compress {
            r.bytes(w * h * 2)
        } else {
            let pal = [r.u16(), r.u16(), 0, 0xffff];
            let img: Vec<u16> = (0..w * h).map(|_| *r.pick(&pal)).collect();
            refrle::encode_rle16(&img, w, h, r, 64).0
        };
        match len_mode {
            1 => {
                let k = d.len() / 2;
                d.truncate(k);
            }
            2 => d.extend_from_slice(&r.bytes(5)),
            3 => d.clear(),
            _ => {}
        }
        d
    }

    pub enum Verdict {
        Fine,
        Violation(String, String),
    }

    /// Run one case on the real fast_bitmap_transfer. The window buffer holds a unique value per
    /// cell and is allocated with capacity == len (so that a sanitizer's red zone is adjacent).
    pub fn check(c: &Case, rep: &mut Report) -> Verdict {
        rep.eval();
        let n = c.win_w * c.win_h;
        let pattern = |i: usize| 0xA500_0000u32 | (i as u32 & 0x00ff_ffff);
        let mut buffer: Vec<u32> = Vec::with_capacity(n);
        for i in 0..n {
            buffer.push(pattern(i));
        }
        // the image the blit will see, obtained from the same decompressor (its own correctness is C08/C09's subject)
        let src: Option<Vec<u32>> = match c.event().decompress() {
            Ok(v) => Some(v.chunks(4).filter(|x| x.len() == 4).map(|x| u32::from_le_bytes([x[0], x[1], x[2], x[3]])).collect()),
            Err(_) => None,
        };
        let ev = c.event();
        let w = c.win_w;
        let res = mon::guarded(|| super::super::fast_bitmap_transfer(&mut buffer, w, ev).map_err(|e| format!("{:?}", e).chars().take(60).collect::<String>()));
        let mode = format!("bpp{}/{}", c.bpp, if c.compress { "rle" } else { "raw" });
        let res = match res {
            Err(p) => {
                rep.hist("panic");
                return Verdict::Violation(format!("C19/{}/{}", mode, p.sig()), format!("{} at {}:{}", p.msg, p.file, p.line));
            }
            Ok(r) => r,
        };
        if buffer.len() != n {
            return Verdict::Violation(format!("C19/{}/buffer-length-changed", mode), format!("window buffer has {} elements after the call, {} before", buffer.len(), n));
        }
        // geometry
        let (l, t, rt, b) = (c.left as i64, c.top as i64, c.right as i64, c.bottom as i64);
        let rows = b - t + 1;
        let count = rt - l + 1;
        let bw = c.img_w as i64;
        let inside = l <= rt && t <= b && rt < c.win_w as i64 && b < c.win_h as i64;
        let src_len = src.as_ref().map(|s| s.len() as i64).unwrap_or(-1);
        let image_covers = src.is_some() && bw >= count && (c.img_h as i64) >= rows && src_len >= bw * c.img_h as i64;
        match res {
            Err(_) => {
                rep.hist("err");
                if inside && image_covers {
                    return Verdict::Violation(format!("C19/{}/refused-a-paintable-rectangle", mode), format!("rectangle ({},{})-({},{}) lies inside the {}x{} window and the {}x{} image covers it, yet the call failed", l, t, rt, b, c.win_w, c.win_h, c.img_w, c.img_h));
                }
                // partial painting before an error is not constrained, but nothing may be written that no row could have written
                Verdict::Fine
            }
            Ok(()) => {
                rep.hist("ok");
                // Ok => every row's ranges must lie inside both buffers
                if rows > 0 && count > 0 {
                    for i in 0..rows {
                        let dest_i = (i + t) * c.win_w as i64 + l;
                        let src_i = i * bw;
                        if dest_i < 0 || dest_i + count > n as i64 || src_i + count > src_len {
                            return Verdict::Violation(
                                format!("C19/{}/returned-ok-for-an-out-of-range-row", mode),
                                format!("window {}x{} ({} cells), rectangle ({},{})-({},{}), image {}x{} ({} pixels): row {} touches dest [{}, {}) and src [{}, {}) yet the call returned Ok", c.win_w, c.win_h, n, l, t, rt, b, c.img_w, c.img_h, src_len, i, dest_i, dest_i + count, src_i, src_i + count),
                            );
                        }
                    }
                }
                // reference blit
                let mut expect: Vec<u32> = (0..n).map(pattern).collect();
                if let Some(s) = &src {
                    if rows > 0 && count > 0 {
                        for i in 0..rows {
                            for k in 0..count {
                                let d = ((i + t) * c.win_w as i64 + l + k) as usize;
                                let si = (i * bw + k) as usize;
                                if d < n && si < s.len() {
                                    expect[d] = s[si];
                                }
                            }
                        }
                    }
                }
                if buffer != expect {
                    let pos = buffer.iter().zip(expect.iter()).position(|(a, b)| a != b).unwrap_or(0);
                    let what = if inside { "wrong-pixels-inside-window" } else { "unexpected-writes" };
                    return Verdict::Violation(
                        format!("C19/{}/{}", mode, what),
                        format!("window {}x{}, rectangle ({},{})-({},{}), image {}x{}: cell {} (x={}, y={}) holds {:#010x}, the reference blit gives {:#010x}", c.win_w, c.win_h, l, t, rt, b, c.img_w, c.img_h, pos, pos % c.win_w.max(1), pos / c.win_w.max(1), buffer[pos], expect[pos]),
                    );
                }
                if inside && image_covers {
                    rep.hist("painted-exactly");
                }
                Verdict::Fine
            }
        }
    }

    const MODES: [(u16, bool); 4] = [(32, false), (32, true), (16, false), (16, true)];

    pub fn make_case(class: u64, idx: u64, seed: u64) -> Case {
        let mut r = Rng::derive(seed, "C19", class, idx);
        match class {
            0 => {
                // small windows (1..8)^2, rectangles over {0..9}^4 (all orderings), image sizes and modes drawn per case
                let mut k = idx;
                let win_w = 1 + (k % 8) as usize;
                k /= 8;
                let win_h = 1 + (k % 8) as usize;
                k /= 8;
                let left = (k % 10) as u16;
                k /= 10;
                let top = (k % 10) as u16;
                k /= 10;
                let right = (k % 10) as u16;
                k /= 10;
                let bottom = (k % 10) as u16;
                let (bpp, compress) = MODES[r.below(4) as usize];
                // image sizes 0..9; biased towards the size that exactly covers the rectangle
                let (iw, ih) = match r.below(4) {
                    0 => ((right as i32 - left as i32 + 1).max(0) as u16, (bottom as i32 - top as i32 + 1).max(0) as u16),
                    1 => ((right as i32 - left as i32 + 1).max(0) as u16 + r.below(3) as u16, (bottom as i32 - top as i32 + 1).max(0) as u16 + r.below(2) as u16),
                    _ => (r.below(10) as u16, r.below(10) as u16),
                };
                let len_mode = if r.chance(3, 4) { 0 } else { r.range(1, 3) };
                let data = image_data(&mut r, iw as usize, ih as usize, bpp, compress, len_mode);
                Case { win_w, win_h, left, top, right, bottom, img_w: iw, img_h: ih, bpp, compress, data, class: "small-exhaustive-geometry" }
            }
            2 => {
                // paintable: rectangle inside the window, image at least as large (exactness is required here)
                let win_w = r.range(1, 48) as usize;
                let win_h = r.range(1, 32) as usize;
                let left = r.below(win_w as u64) as u16;
                let top = r.below(win_h as u64) as u16;
                let right = r.range(left as u64, win_w as u64 - 1) as u16;
                let bottom = r.range(top as u64, win_h as u64 - 1) as u16;
                let cw = right - left + 1;
                let ch = bottom - top + 1;
                let iw = cw + *r.pick(&[0u16, 0, 1, 2, 3, 7]);
                let ih = ch + *r.pick(&[0u16, 0, 0, 1, 2]);
                let (bpp, compress) = MODES[r.below(4) as usize];
                let data = image_data(&mut r, iw as usize, ih as usize, bpp, compress, 0);
                Case { win_w, win_h, left, top, right, bottom, img_w: iw, img_h: ih, bpp, compress, data, class: "paintable" }
            }
            _ => {
                // larger windows, rectangles in and out of range, extreme coordinates
                let win_w = *r.pick(&[16usize, 33, 64, 100, 640, 800, 1024, 1366]);
                let win_h = *r.pick(&[8usize, 17, 48, 100, 480, 600, 768]);
                let coord = |r: &mut Rng, m: usize| -> u16 {
                    match r.below(8) {
                        0 => 0,
                        1 => (m - 1) as u16,
                        2 => m as u16,
                        3 => 65535,
                        4 => (m + 1) as u16,
                        _ => r.below(m as u64) as u16,
                    }
                };
                let left = coord(&mut r, win_w);
                let top = coord(&mut r, win_h);
                let (right, bottom) = match r.below(6) {
                    0 => (coord(&mut r, win_w), coord(&mut r, win_h)),
                    1 => ((win_w - 1) as u16, top.saturating_add(r.below(3) as u16)),
                    _ => (left.saturating_add(r.below(70) as u16), top.saturating_add(r.below(40) as u16)),
                };
                let cw = (right as i32 - left as i32 + 1).max(0) as u16;
                let chh = (bottom as i32 - top as i32 + 1).max(0) as u16;
                let (iw, ih) = match r.below(5) {
                    0 => (cw, chh),
                    1 => (cw.saturating_add(3) & !3, chh),
                    2 => (cw.saturating_add(r.below(5) as u16), chh.saturating_add(r.below(3) as u16)),
                    3 => (cw.saturating_sub(1), chh),
                    _ => (r.below(80) as u16, r.below(50) as u16),
                };
                let (iw, ih) = (iw.min(1400), ih.min(100));
                let (bpp, compress) = MODES[r.below(4) as usize];
                let len_mode = if r.chance(5, 6) { 0 } else { r.range(1, 3) };
                let data = image_data(&mut r, iw as usize, ih as usize, bpp, compress, len_mode);
                Case { win_w, win_h, left, top, right, bottom, img_w: iw, img_h: ih, bpp, compress, data, class: "large-random-geometry" }
            }
        }
    }

    pub fn run(cfg: &Cfg) -> Report {
        let seed = cfg.seed;
        let mut total = Report::new();
        let n0: u64 = 64 * 10_000;
        let stride: u64 = if cfg.quick() { 3 } else { 1 };
        let passes: u64 = if cfg.quick() { 1 } else { 3 };
        if cfg.wants(0) {
            for pass in 0..passes {
                let rep = par_run(cfg, n0 / stride, 256, |k, rep| {
                    let idx = (k * stride + (seed + pass) % stride) % n0;
                    mon::begin_case(19, 0, idx, seed + pass);
                    let c = make_case(0, idx, seed + pass);
                    judge(&c, rep);
                });
                total.merge(rep);
            }
            total.count("small_geometry_cases", n0 / stride * passes);
        }
        if cfg.wants(1) {
            let n = cfg.n(30_000, 600_000);
            let rep = par_run(cfg, n, 64, |idx, rep| {
                mon::begin_case(19, 1, idx, seed);
                let c = make_case(1, idx, seed);
                judge(&c, rep);
            });
            total.count("large_geometry_cases", n);
            total.merge(rep);
        }
        if cfg.wants(2) {
            let n = cfg.n(60_000, 2_000_000);
            let rep = par_run(cfg, n, 64, |idx, rep| {
                mon::begin_case(19, 2, idx, seed);
                let c = make_case(2, idx, seed);
                judge(&c, rep);
            });
            total.count("paintable_cases", n);
            total.merge(rep);
        }
        total.observe("transmute_vec-layout", || json!("fast_bitmap_transfer turns the Vec<u8> returned by decompress into a Vec<u32> by pointer cast (transmute_vec); with the system allocator this neither reads nor writes outside the two buffers and is not judged here (Miri stops at the mismatching deallocation layout)"));
        total
    }

    fn judge(c: &Case, rep: &mut Report) {
        let v = check(c, rep);
        let rows = c.bottom as i64 - c.top as i64 + 1;
        let cols = c.right as i64 - c.left as i64 + 1;
        if rows > 0 && cols > 0 {
            let mut h = vec![c.win_w as u8, c.win_h as u8, c.bpp as u8, c.compress as u8];
            for x in [c.left, c.top, c.right, c.bottom, c.img_w, c.img_h].iter() {
                h.extend_from_slice(&x.to_le_bytes());
            }
            h.extend_from_slice(&(c.data.len() as u32).to_le_bytes());
            rep.nontrivial(fnv(&h));
        }
        rep.set("classes", c.class.to_string());
        if rep.want_sample() && c.data.len() < 64 && rows > 0 {
            let j = c.to_json();
            rep.sample(|| j);
        }
        if let Verdict::Violation(sig, detail) = v {
            rep.violation(sig, detail, c.to_json());
        }
    }

    pub fn replay(_cfg: &Cfg, v: &Value) -> Report {
        let mut rep = Report::new();
        mon::set_quiet(false);
        let c = if let Some(a) = v.get("death_case") {
            let a: Vec<u64> = a.as_array().unwrap().iter().map(|x| x.as_u64().unwrap()).collect();
            make_case(a[1], a[2], a[3])
        } else {
            Case::from_json(v)
        };
        judge(&c, &mut rep);
        rep
    }
}

pub mod c20 {
    use super::*;
    pub fn run(_cfg: &Cfg) -> Report {
        Report::new()
    }
    pub fn replay(_cfg: &Cfg, _v: &Value) -> Report {
        Report::new()
    }
}
