// Compiled inside `mod gui` (see gui_main.rs): the private functions of /repo/src/bin/mstsc-rs.rs
// (fast_bitmap_transfer, transmute_vec, launch_rdp_thread, wait_for_fd) are reachable through `super::`.

use rdpverif::mon;
use rdpverif::refs::rle as refrle;
use rdpverif::report::Report;
use rdpverif::rng::{fnv, hex, unhex, Rng};
use rdpverif::{par_run, Cfg};
use serde_json::{json, Value};

pub fn main() {
    rdpverif::cli(&run, &replay);
}

fn run(cfg: &Cfg) -> Option<Report> {
    match cfg.prop.as_str() {
        "C19" => Some(c19::run(cfg)),
        "C20" => Some(c20::run(cfg)),
        _ => None,
    }
}

fn replay(cfg: &Cfg, v: &Value) -> Option<Report> {
    match cfg.prop.as_str() {
        "C19" => Some(c19::replay(cfg, v)),
        "C20" => Some(c20::replay(cfg, v)),
        _ => None,
    }
}

pub mod c19 {
    //! C19 — painting a bitmap into the window buffer is memory-safe and exact.
    //! Oracles: sanitizer (the build mode), differential reference blit on a uniquely patterned
    //! buffer, and a geometric safety oracle that knows which index ranges each row touches.
    use super::*;
    use rdp::core::event::BitmapEvent;

    #[derive(Clone, Debug)]
    pub struct Case {
        pub win_w: usize,
        pub win_h: usize,
        pub left: u16,
        pub top: u16,
        pub right: u16,
        pub bottom: u16,
        pub img_w: u16,
        pub img_h: u16,
        pub bpp: u16,
        pub compress: bool,
        pub data: Vec<u8>,
        /// the data is a conformant encoding of exactly img_w x img_h pixels (made by the reference encoders)
        pub conformant: bool,
        pub class: &'static str,
    }

    impl Case {
        pub fn to_json(&self) -> Value {
            json!({"win": [self.win_w, self.win_h], "rect": [self.left, self.top, self.right, self.bottom], "img": [self.img_w, self.img_h], "bpp": self.bpp,
                   "compress": self.compress, "data": hex(&self.data[..self.data.len().min(8192)]), "data_len": self.data.len(), "conformant": self.conformant, "class": self.class})
        }
        pub fn from_json(v: &Value) -> Case {
            let a = |k: &str, i: usize| v[k][i].as_u64().unwrap_or(0);
            Case {
                win_w: a("win", 0) as usize,
                win_h: a("win", 1) as usize,
                left: a("rect", 0) as u16,
                top: a("rect", 1) as u16,
                right: a("rect", 2) as u16,
                bottom: a("rect", 3) as u16,
                img_w: a("img", 0) as u16,
                img_h: a("img", 1) as u16,
                bpp: v["bpp"].as_u64().unwrap_or(32) as u16,
                compress: v["compress"].as_bool().unwrap_or(false),
                data: unhex(v["data"].as_str().unwrap_or("")),
                conformant: v["conformant"].as_bool().unwrap_or(false) && v["data_len"].as_u64().unwrap_or(0) <= 8192,
                class: "replay",
            }
        }
        fn event(&self) -> BitmapEvent {
            BitmapEvent { dest_left: self.left, dest_top: self.top, dest_right: self.right, dest_bottom: self.bottom, width: self.img_w, height: self.img_h, bpp: self.bpp, is_compress: self.compress, data: self.data.clone() }
        }
    }

    /// image data of the requested kind for a w x h image; `len_mode`: 0 exact, 1 short, 2 long, 3 empty, 5 long by whole lines,
    /// 4 hostile (for the compressed kinds: C08's streams with runs placed at line and buffer edges)
    pub fn image_data(r: &mut Rng, w: usize, h: usize, bpp: u16, compress: bool, len_mode: u64) -> Vec<u8> {
        if len_mode == 4 && compress && w > 0 && h > 0 {
            return if bpp == 32 { rdpverif::props::c08::hostile_planar(r, w, h) } else { rdpverif::props::c08::hostile_rle16(r, w, h) };
        }
        let mut d = if w == 0 || h == 0 {
            Vec::new()
        } else if bpp == 32 && !compress {
            r.bytes(w * h * 4)
        } else if bpp == 32 {
            // half of the pictures come from C09's structured families (flat stretches longer than any one-byte run,
            // gradients, two-colour patterns), so that every order of the codec occurs in what is painted
            let img = if r.chance(1, 2) { rdpverif::props::c09::image32(r, w, h).0 } else { r.bytes(w * h * 4) };
            let mut st = Vec::new();
            refrle::encode_planar(&img, w, h, r, &mut st)
        } else if !compress {
            r.bytes(w * h * 2)
        } else {
            let img: Vec<u16> = if r.chance(1, 2) {
                rdpverif::props::c09::image16(r, w, h).0
            } else {
                let pal = [r.u16(), r.u16(), 0, 0xffff];
                (0..w * h).map(|_| *r.pick(&pal)).collect()
            };
            let max_len = if r.chance(1, 2) { 64 } else { 4000 };
            refrle::encode_rle16(&img, w, h, r, max_len).0
        };
        match len_mode {
            1 => {
                let k = d.len() / 2;
                d.truncate(k);
            }
            2 => d.extend_from_slice(&r.bytes(5)),
            3 => d.clear(),
            5 => {
                // surplus of one or more whole scan lines, sometimes plus a few bytes
                let line = w * (bpp as usize / 8).max(1);
                let n = line * r.range(1, 3) as usize + if r.chance(1, 2) { 0 } else { r.range(1, 7) as usize };
                let extra = r.bytes(n);
                d.extend_from_slice(&extra);
            }
            _ => {}
        }
        d
    }

    /// the picture a conformant bitmap carries, by the independent decoders of C09; None when the data is not a
    /// conformant encoding of a w x h picture (short, surplus bytes, hostile streams)
    pub fn reference_image(c: &Case) -> Option<Vec<u32>> {
        let (w, h) = (c.img_w as usize, c.img_h as usize);
        if w == 0 || h == 0 || (!c.conformant && c.compress) {
            return None;
        }
        let px = |b: &[u8]| -> Vec<u32> { b.chunks(4).map(|x| u32::from_le_bytes([x[0], x[1], x[2], x[3]])).collect() };
        match (c.bpp, c.compress) {
            // uncompressed: the picture is the first w*h pixels of the stream (rows bottom-up); bytes after it are not
            // part of it, whatever their number (what the client under test and every other RDP client does)
            (32, false) => {
                if c.data.len() < w * h * 4 {
                    return None;
                }
                let mut out = Vec::with_capacity(w * h * 4);
                for y in (0..h).rev() {
                    out.extend_from_slice(&c.data[y * w * 4..(y + 1) * w * 4]);
                }
                Some(px(&out))
            }
            (32, true) => refrle::decode_planar(&c.data, w, h).ok().filter(|v| v.len() == w * h * 4).map(|v| px(&v)),
            (16, false) => {
                if c.data.len() < w * h * 2 {
                    return None;
                }
                let mut img: Vec<u16> = Vec::with_capacity(w * h);
                for y in (0..h).rev() {
                    for x in 0..w {
                        let o = (y * w + x) * 2;
                        img.push(u16::from_le_bytes([c.data[o], c.data[o + 1]]));
                    }
                }
                Some(px(&refrle::expand565_image(&img)))
            }
            (16, true) => refrle::decode_rle16(&c.data, w, h).ok().filter(|v| v.len() == w * h).map(|v| px(&refrle::expand565_image(&v))),
            _ => None,
        }
    }

    pub enum Verdict {
        Fine,
        Violation(String, String),
    }

    /// Run one case on the real fast_bitmap_transfer. The window buffer holds a unique value per
    /// cell and is allocated with capacity == len (so that a sanitizer's red zone is adjacent).
    pub fn check(c: &Case, rep: &mut Report) -> Verdict {
        rep.eval();
        let n = c.win_w * c.win_h;
        let pattern = |i: usize| 0xA500_0000u32 | (i as u32 & 0x00ff_ffff);
        let mut buffer: Vec<u32> = Vec::with_capacity(n);
        for i in 0..n {
            buffer.push(pattern(i));
        }
        // the image the blit will see, obtained from the same decompressor (its own correctness is C08/C09's subject)
        let ev0 = c.event();
        let src: Option<Vec<u32>> = match mon::guarded(move || ev0.decompress()) {
            Ok(Ok(v)) => Some(v.chunks(4).filter(|x| x.len() == 4).map(|x| u32::from_le_bytes([x[0], x[1], x[2], x[3]])).collect()),
            Ok(Err(_)) => None,
            Err(p) => {
                // the blit decodes the image with this very call: a panic here is a panic while painting
                rep.hist("panic");
                return Verdict::Violation(format!("C19/bpp{}/{}/{}", c.bpp, if c.compress { "rle" } else { "raw" }, p.sig()), format!("{} at {}:{}", p.msg, p.file, p.line));
            }
        };
        // the image is a function of the event alone: decoded on a fresh thread (no earlier bitmap has passed there) it
        // must be the same as here, on a thread that has decoded thousands of others (a sample of the cases)
        if let Some(s) = &src {
            let h = fnv(&c.data) ^ (c.img_w as u64) << 32 ^ c.img_h as u64;
            if h % 16 == 0 {
                let ev1 = c.event();
                let fresh = std::thread::spawn(move || ev1.decompress().ok()).join().ok().flatten();
                if let Some(f) = fresh {
                    let f: Vec<u32> = f.chunks(4).filter(|x| x.len() == 4).map(|x| u32::from_le_bytes([x[0], x[1], x[2], x[3]])).collect();
                    if &f != s {
                        let pos = f.iter().zip(s.iter()).position(|(a, b)| a != b).unwrap_or(0);
                        return Verdict::Violation(format!("C19/bpp{}/{}/image-depends-on-earlier-bitmaps", c.bpp, if c.compress { "rle" } else { "raw" }), format!("{}x{} image, {} data bytes: pixel {} differs between a thread that has decoded other bitmaps before and a fresh thread", c.img_w, c.img_h, c.data.len(), pos));
                    }
                    rep.hist("image-independent-of-history");
                }
            }
        }
        // end to end: when the data is a conformant encoding (the independent reference decoder accepts it and it
        // has no surplus bytes), what is painted must be the picture that was sent
        let reference: Option<Vec<u32>> = reference_image(c);
        if let (None, Some(rf)) = (&src, &reference) {
            // the independent decoder reads the data as a w x h picture; the code that paints it must not refuse it
            rep.hist("conformant-bitmap-refused");
            return Verdict::Violation(format!("C19/bpp{}/{}/refused-a-conformant-bitmap", c.bpp, if c.compress { "rle" } else { "raw" }), format!("{}x{} image, {} data bytes: the independent decoding yields {} pixels, the decoder used for painting refuses the bitmap", c.img_w, c.img_h, c.data.len(), rf.len()));
        }
        if let (Some(s), Some(rf)) = (&src, &reference) {
            if s != rf {
                let pos = s.iter().zip(rf.iter()).position(|(a, b)| a != b).unwrap_or(s.len().min(rf.len()));
                return Verdict::Violation(format!("C19/bpp{}/{}/image-to-paint-differs-from-the-image-sent", c.bpp, if c.compress { "rle" } else { "raw" }), format!("{}x{} image, {} data bytes: pixel {} of the image handed to the blit differs from the independent decoding ({} vs {} pixels)", c.img_w, c.img_h, c.data.len(), pos, s.len(), rf.len()));
            }
            rep.hist("image-agrees-with-reference-decoding");
        }
        let ev = c.event();
        let w = c.win_w;
        let res = mon::guarded(|| super::super::fast_bitmap_transfer(&mut buffer, w, ev).map_err(|e| format!("{:?}", e).chars().take(60).collect::<String>()));
        let mode = format!("bpp{}/{}", c.bpp, if c.compress { "rle" } else { "raw" });
        let res = match res {
            Err(p) => {
                rep.hist("panic");
                return Verdict::Violation(format!("C19/{}/{}", mode, p.sig()), format!("{} at {}:{}", p.msg, p.file, p.line));
            }
            Ok(r) => r,
        };
        if buffer.len() != n {
            return Verdict::Violation(format!("C19/{}/buffer-length-changed", mode), format!("window buffer has {} elements after the call, {} before", buffer.len(), n));
        }
        // geometry
        let (l, t, rt, b) = (c.left as i64, c.top as i64, c.right as i64, c.bottom as i64);
        let rows = b - t + 1;
        let count = rt - l + 1;
        let bw = c.img_w as i64;
        let inside = l <= rt && t <= b && rt < c.win_w as i64 && b < c.win_h as i64;
        let src_len = src.as_ref().map(|s| s.len() as i64).unwrap_or(-1);
        let image_covers = src.is_some() && bw >= count && (c.img_h as i64) >= rows && src_len >= bw * c.img_h as i64;
        match res {
            Err(_) => {
                rep.hist("err");
                if inside && image_covers {
                    return Verdict::Violation(format!("C19/{}/refused-a-paintable-rectangle", mode), format!("rectangle ({},{})-({},{}) lies inside the {}x{} window and the {}x{} image covers it, yet the call failed", l, t, rt, b, c.win_w, c.win_h, c.img_w, c.img_h));
                }
                // partial painting before an error is not constrained, but nothing may be written that no row could have written
                Verdict::Fine
            }
            Ok(()) => {
                rep.hist("ok");
                // Ok => every row's ranges must lie inside both buffers
                if rows > 0 && count > 0 {
                    for i in 0..rows {
                        let dest_i = (i + t) * c.win_w as i64 + l;
                        let src_i = i * bw;
                        if dest_i < 0 || dest_i + count > n as i64 || src_i + count > src_len {
                            return Verdict::Violation(
                                format!("C19/{}/returned-ok-for-an-out-of-range-row", mode),
                                format!("window {}x{} ({} cells), rectangle ({},{})-({},{}), image {}x{} ({} pixels): row {} touches dest [{}, {}) and src [{}, {}) yet the call returned Ok", c.win_w, c.win_h, n, l, t, rt, b, c.img_w, c.img_h, src_len, i, dest_i, dest_i + count, src_i, src_i + count),
                            );
                        }
                    }
                }
                // reference blit
                let mut expect: Vec<u32> = (0..n).map(pattern).collect();
                if let Some(s) = &src {
                    if rows > 0 && count > 0 {
                        for i in 0..rows {
                            for k in 0..count {
                                let d = ((i + t) * c.win_w as i64 + l + k) as usize;
                                let si = (i * bw + k) as usize;
                                if d < n && si < s.len() {
                                    expect[d] = s[si];
                                }
                            }
                        }
                    }
                }
                if buffer != expect {
                    let pos = buffer.iter().zip(expect.iter()).position(|(a, b)| a != b).unwrap_or(0);
                    let what = if inside { "wrong-pixels-inside-window" } else { "unexpected-writes" };
                    return Verdict::Violation(
                        format!("C19/{}/{}", mode, what),
                        format!("window {}x{}, rectangle ({},{})-({},{}), image {}x{}: cell {} (x={}, y={}) holds {:#010x}, the reference blit gives {:#010x}", c.win_w, c.win_h, l, t, rt, b, c.img_w, c.img_h, pos, pos % c.win_w.max(1), pos / c.win_w.max(1), buffer[pos], expect[pos]),
                    );
                }
                if inside && image_covers {
                    rep.hist("painted-exactly");
                }
                Verdict::Fine
            }
        }
    }

    const MODES: [(u16, bool); 4] = [(32, false), (32, true), (16, false), (16, true)];

    pub fn make_case(class: u64, idx: u64, seed: u64) -> Case {
        let mut r = Rng::derive(seed, "C19", class, idx);
        match class {
            0 => {
                // small windows (1..8)^2, rectangles over {0..9}^4 (all orderings), image sizes and modes drawn per case
                let mut k = idx;
                let win_w = 1 + (k % 8) as usize;
                k /= 8;
                let win_h = 1 + (k % 8) as usize;
                k /= 8;
                let left = (k % 10) as u16;
                k /= 10;
                let top = (k % 10) as u16;
                k /= 10;
                let right = (k % 10) as u16;
                k /= 10;
                let bottom = (k % 10) as u16;
                let (bpp, compress) = MODES[r.below(4) as usize];
                // image sizes 0..9; biased towards the size that exactly covers the rectangle
                let (iw, ih) = match r.below(4) {
                    0 => ((right as i32 - left as i32 + 1).max(0) as u16, (bottom as i32 - top as i32 + 1).max(0) as u16),
                    1 => ((right as i32 - left as i32 + 1).max(0) as u16 + r.below(3) as u16, (bottom as i32 - top as i32 + 1).max(0) as u16 + r.below(2) as u16),
                    _ => (r.below(10) as u16, r.below(10) as u16),
                };
                let len_mode = if r.chance(3, 4) { 0 } else { r.range(1, 5) };
                let data = image_data(&mut r, iw as usize, ih as usize, bpp, compress, len_mode);
                Case { win_w, win_h, left, top, right, bottom, img_w: iw, img_h: ih, bpp, compress, data, conformant: len_mode == 0, class: "small-exhaustive-geometry" }
            }
            2 => {
                // paintable: rectangle inside the window, image at least as large (exactness is required here)
                let win_w = r.range(1, 48) as usize;
                let win_h = r.range(1, 32) as usize;
                let left = r.below(win_w as u64) as u16;
                let top = r.below(win_h as u64) as u16;
                let right = r.range(left as u64, win_w as u64 - 1) as u16;
                let bottom = r.range(top as u64, win_h as u64 - 1) as u16;
                let cw = right - left + 1;
                let ch = bottom - top + 1;
                let iw = cw + *r.pick(&[0u16, 0, 1, 2, 3, 7]);
                let ih = ch + *r.pick(&[0u16, 0, 0, 1, 2]);
                let (bpp, compress) = MODES[r.below(4) as usize];
                let data = image_data(&mut r, iw as usize, ih as usize, bpp, compress, 0);
                Case { win_w, win_h, left, top, right, bottom, img_w: iw, img_h: ih, bpp, compress, data, conformant: true, class: "paintable" }
            }
            3 => {
                // uncompressed bitmaps announcing far more pixels than they carry: products at and around 2^30, 2^31, 2^32
                // pixels or bytes, one or both dimensions at the top of the 16-bit range; the data is short (also of exactly
                // the length the announced size has modulo 2^32), the rectangle small and inside the window
                const DIMS: [(u16, u16); 16] = [(32768, 32768), (65535, 65535), (16384, 65535), (40000, 30000), (32767, 32768), (65535, 16385), (46341, 46341), (65535, 32768), (32768, 16384), (16384, 16384), (65535, 1), (1, 65535), (65535, 4), (46340, 46341), (23170, 23171), (65534, 32769)];
                let (iw, ih) = DIMS[(idx % 16) as usize];
                let bpp = if (idx / 16) % 2 == 0 { 32u16 } else { 16 };
                let announced = iw as u64 * ih as u64 * (bpp as u64 / 8);
                let wrapped = (announced & 0xffff_ffff) as usize;
                let n = match (idx / 32) % 6 {
                    0 => 0,
                    1 => 1,
                    2 => r.range(2, 4096) as usize,
                    3 => wrapped.min(200_000),
                    4 => (wrapped + r.range(1, 64) as usize).min(200_000),
                    _ => (iw as usize * (bpp as usize / 8)).min(200_000) * r.range(1, 3) as usize,
                };
                let win_w = r.range(4, 64) as usize;
                let win_h = r.range(4, 48) as usize;
                let left = r.below(win_w as u64) as u16;
                let top = r.below(win_h as u64) as u16;
                let right = r.range(left as u64, win_w as u64 - 1) as u16;
                let bottom = r.range(top as u64, win_h as u64 - 1) as u16;
                let data = r.bytes(n);
                Case { win_w, win_h, left, top, right, bottom, img_w: iw, img_h: ih, bpp, compress: false, data, conformant: false, class: "announced-size-extremes" }
            }
            _ => {
                // larger windows, rectangles in and out of range, extreme coordinates
                let win_w = *r.pick(&[16usize, 33, 64, 100, 640, 800, 1024, 1366]);
                let win_h = *r.pick(&[8usize, 17, 48, 100, 480, 600, 768]);
                let coord = |r: &mut Rng, m: usize| -> u16 {
                    match r.below(8) {
                        0 => 0,
                        1 => (m - 1) as u16,
                        2 => m as u16,
                        3 => 65535,
                        4 => (m + 1) as u16,
                        _ => r.below(m as u64) as u16,
                    }
                };
                let left = coord(&mut r, win_w);
                let top = coord(&mut r, win_h);
                let (right, bottom) = match r.below(6) {
                    0 => (coord(&mut r, win_w), coord(&mut r, win_h)),
                    1 => ((win_w - 1) as u16, top.saturating_add(r.below(3) as u16)),
                    _ => (left.saturating_add(r.below(70) as u16), top.saturating_add(r.below(40) as u16)),
                };
                let cw = (right as i32 - left as i32 + 1).max(0) as u16;
                let chh = (bottom as i32 - top as i32 + 1).max(0) as u16;
                let (iw, ih) = match r.below(5) {
                    0 => (cw, chh),
                    1 => (cw.saturating_add(3) & !3, chh),
                    2 => (cw.saturating_add(r.below(5) as u16), chh.saturating_add(r.below(3) as u16)),
                    3 => (cw.saturating_sub(1), chh),
                    _ => (r.below(80) as u16, r.below(50) as u16),
                };
                let (iw, ih) = (iw.min(1400), ih.min(100));
                let (bpp, compress) = MODES[r.below(4) as usize];
                let len_mode = if r.chance(4, 6) { 0 } else { r.range(1, 5) };
                let data = image_data(&mut r, iw as usize, ih as usize, bpp, compress, len_mode);
                Case { win_w, win_h, left, top, right, bottom, img_w: iw, img_h: ih, bpp, compress, data, conformant: len_mode == 0, class: "large-random-geometry" }
            }
        }
    }

    pub fn run(cfg: &Cfg) -> Report {
        let seed = cfg.seed;
        let mut total = Report::new();
        let n0: u64 = 64 * 10_000;
        let stride: u64 = if cfg.quick() { 3 } else { 1 };
        let passes: u64 = if cfg.quick() { 1 } else { 3 };
        if cfg.wants(0) {
            for pass in 0..passes {
                let rep = par_run(cfg, n0 / stride, 256, |k, rep| {
                    let idx = (k * stride + (seed + pass) % stride) % n0;
                    mon::begin_case(19, 0, idx, seed + pass);
                    let c = make_case(0, idx, seed + pass);
                    judge(&c, rep);
                });
                total.merge(rep);
            }
            total.count("small_geometry_cases", n0 / stride * passes);
        }
        if cfg.wants(1) {
            let n = cfg.n(30_000, 600_000);
            let rep = par_run(cfg, n, 64, |idx, rep| {
                mon::begin_case(19, 1, idx, seed);
                let c = make_case(1, idx, seed);
                judge(&c, rep);
            });
            total.count("large_geometry_cases", n);
            total.merge(rep);
        }
        if cfg.wants(2) {
            let n = cfg.n(60_000, 2_000_000);
            let rep = par_run(cfg, n, 64, |idx, rep| {
                mon::begin_case(19, 2, idx, seed);
                let c = make_case(2, idx, seed);
                judge(&c, rep);
            });
            total.count("paintable_cases", n);
            total.merge(rep);
        }
        if cfg.wants(3) {
            let n = cfg.n(16 * 2 * 6 * 4, 16 * 2 * 6 * 400);
            let rep = par_run(cfg, n, 16, |idx, rep| {
                mon::begin_case(19, 3, idx, seed);
                let c = make_case(3, idx, seed);
                judge(&c, rep);
            });
            total.count("announced_size_extreme_cases", n);
            total.merge(rep);
        }
        total.observe("transmute_vec-layout", || json!("fast_bitmap_transfer turns the Vec<u8> returned by decompress into a Vec<u32> by pointer cast (transmute_vec); with the system allocator this neither reads nor writes outside the two buffers and is not judged here (Miri stops at the mismatching deallocation layout)"));
        total
    }

    fn judge(c: &Case, rep: &mut Report) {
        let v = check(c, rep);
        let rows = c.bottom as i64 - c.top as i64 + 1;
        let cols = c.right as i64 - c.left as i64 + 1;
        if rows > 0 && cols > 0 {
            let mut h = vec![c.win_w as u8, c.win_h as u8, c.bpp as u8, c.compress as u8];
            for x in [c.left, c.top, c.right, c.bottom, c.img_w, c.img_h].iter() {
                h.extend_from_slice(&x.to_le_bytes());
            }
            h.extend_from_slice(&(c.data.len() as u32).to_le_bytes());
            rep.nontrivial(fnv(&h));
        }
        rep.set("classes", c.class.to_string());
        if rep.want_sample() && c.data.len() < 64 && rows > 0 {
            let j = c.to_json();
            rep.sample(|| j);
        }
        if let Verdict::Violation(sig, detail) = v {
            rep.violation(sig, detail, c.to_json());
        }
    }

    pub fn replay(_cfg: &Cfg, v: &Value) -> Report {
        let mut rep = Report::new();
        mon::set_quiet(false);
        let c = if let Some(a) = v.get("death_case") {
            let a: Vec<u64> = a.as_array().unwrap().iter().map(|x| x.as_u64().unwrap()).collect();
            make_case(a[1], a[2], a[3])
        } else {
            Case::from_json(v)
        };
        judge(&c, &mut rep);
        rep
    }
}

pub mod c20 {
    //! C20 — the GUI receive thread keeps up with the server and stops with the session.
    //! Subject: launch_rdp_thread / wait_for_fd from the included GUI source, on a real
    //! RdpClient<GatedSocket> over a UnixStream pair, TLS served by the reference server from a pump
    //! thread. Liveness is restated as bounded progress at *quiescence* (server script finished and
    //! the thread either exited or is blocked in select with an empty socket); spinning is detected
    //! logically (read calls after end-of-stream), never by the clock.
    use super::*;
    use rdp::core::client::RdpClient;
    use rdp::core::event::{BitmapEvent, KeyboardEvent, RdpEvent};
    use rdpverif::client::{self, ConnCfg};
    use rdpverif::refs::build::B;
    use rdpverif::refs::proto::{self, Profile, Rect};
    use rdpverif::server::{ServerState, Wrap};
    use std::io::{Read, Write};
    use std::os::unix::io::AsRawFd;
    use std::os::unix::net::UnixStream;
    use std::sync::atomic::{AtomicBool, AtomicU64, Ordering};
    use std::sync::{mpsc, Arc, Condvar, Mutex};
    use std::time::{Duration, Instant};

    // ---------------------------------------------------------------- gated socket

    #[derive(Default)]
    pub struct Gate {
        pub reads: AtomicU64,
        pub eof_seen: AtomicBool,
        pub reads_after_eof: AtomicU64,
        pub enabled: AtomicBool,
        pub arrived: Mutex<u64>,
        pub arrived_cv: Condvar,
        pub release: Mutex<u64>,
        pub release_cv: Condvar,
    }

    pub struct GatedSocket {
        s: UnixStream,
        g: Arc<Gate>,
    }

    impl Read for GatedSocket {
        fn read(&mut self, buf: &mut [u8]) -> std::io::Result<usize> {
            self.g.reads.fetch_add(1, Ordering::SeqCst);
            if self.g.enabled.load(Ordering::SeqCst) {
                // tell the controller that the thread is past select, holds the mutex and is about to read
                let ticket = {
                    let mut a = self.g.arrived.lock().unwrap();
                    *a += 1;
                    self.g.arrived_cv.notify_all();
                    *a
                };
                let mut r = self.g.release.lock().unwrap();
                let deadline = Instant::now() + Duration::from_secs(10);
                while *r < ticket && self.g.enabled.load(Ordering::SeqCst) && Instant::now() < deadline {
                    let (g2, _) = self.g.release_cv.wait_timeout(r, Duration::from_millis(50)).unwrap();
                    r = g2;
                }
            }
            let r = self.s.read(buf);
            let dead = matches!(r, Ok(0)) && !buf.is_empty() || r.is_err();
            if dead {
                if self.g.eof_seen.swap(true, Ordering::SeqCst) {
                    self.g.reads_after_eof.fetch_add(1, Ordering::SeqCst);
                }
            }
            r
        }
    }

    impl Write for GatedSocket {
        fn write(&mut self, buf: &[u8]) -> std::io::Result<usize> {
            self.s.write(buf)
        }
        fn flush(&mut self) -> std::io::Result<()> {
            self.s.flush()
        }
    }

    // ---------------------------------------------------------------- scenario

    #[derive(Clone, Debug, PartialEq)]
    pub enum Packing {
        OnePerRecord,
        /// k PDUs concatenated in one TLS record
        SeveralPerRecord(usize),
        /// each PDU split across n records
        SplitAcrossRecords(usize),
        /// each PDU in two records, the first one holding only its first k bytes
        SplitAt(usize),
        /// one PDU per record, the ciphertext written in segments cut at this offset of each record
        SegmentSplit(usize),
    }

    #[derive(Clone, Copy, Debug, PartialEq)]
    pub enum End {
        None,
        Ultimatum,
        CloseNotify,
        AbruptClose,
        GarbagePdu,
    }

    #[derive(Clone, Copy, Debug, PartialEq)]
    pub enum Point {
        BeforeAnyUpdate,
        BetweenPdus,
        MiddleOfPdu,
        AfterLast,
    }

    #[derive(Clone, Copy, Debug, PartialEq)]
    pub enum Step {
        /// the thread is blocked in select when the end event is sent
        InSelect,
        /// the thread is past select, holds the mutex and stands at the entry of read()
        AtRead,
        /// the thread is past select and blocked at lock() (the controller holds the mutex)
        AtLock,
        /// no placement: seeded delays only
        Free,
    }

    #[derive(Clone, Debug)]
    pub struct Scenario {
        pub packing: Packing,
        pub n_pdus: usize,
        pub end: End,
        pub point: Point,
        pub step: Step,
        pub tls12: bool,
        pub linger: bool,
        pub input_writer: bool,
        pub pauses: bool,
        /// the end event travels in the same TLS record as the PDUs just before it
        pub end_in_same_record: bool,
        pub big: u8,
        /// the server stays completely silent for this long in the middle of the session (0: no such pause)
        pub silence_ms: u64,
        /// with SplitAcrossRecords: the server stalls this long between the pieces of the middle PDU
        pub stall_inside_pdu_ms: u64,
        /// half way through, the server deactivates the share and activates it again with the SAME share id
        pub reactivate: bool,
        pub seed: u64,
    }

    impl Scenario {
        pub fn to_json(&self) -> Value {
            json!({"packing": format!("{:?}", self.packing), "n_pdus": self.n_pdus, "end": format!("{:?}", self.end), "point": format!("{:?}", self.point), "step": format!("{:?}", self.step),
                   "tls12": self.tls12, "linger": self.linger, "input_writer": self.input_writer, "pauses": self.pauses, "end_in_same_record": self.end_in_same_record, "big": self.big, "silence_ms": self.silence_ms, "stall_inside_pdu_ms": self.stall_inside_pdu_ms, "reactivate": self.reactivate, "seed": self.seed, "gen": self.gen_idx()})
        }
        fn gen_idx(&self) -> Value {
            Value::Null
        }
        /// signature class: packing and way of ending (point and step are in the detail and the interleaving set)
        pub fn class(&self) -> String {
            format!("{}/{:?}", self.packing_name(), self.end)
        }
        pub fn full_class(&self) -> String {
            format!("{}/{:?}@{:?}/{:?}", self.packing_name(), self.end, self.point, self.step)
        }
        pub fn packing_name(&self) -> String {
            if self.end_in_same_record && matches!(self.end, End::Ultimatum | End::GarbagePdu) {
                return "end-event-in-the-record-of-the-last-pdus".to_string();
            }
            format!("{}", match &self.packing {
                Packing::OnePerRecord => "one-pdu-per-record".to_string(),
                Packing::SeveralPerRecord(_) => "several-pdus-per-record".to_string(),
                Packing::SplitAcrossRecords(_) | Packing::SplitAt(_) => "pdu-split-across-records".to_string(),
                Packing::SegmentSplit(_) => "record-split-across-segments".to_string(),
            })
        }
    }

    fn thread_ids() -> Vec<i32> {
        let mut v = Vec::new();
        if let Ok(rd) = std::fs::read_dir("/proc/self/task") {
            for e in rd.flatten() {
                if let Ok(t) = e.file_name().to_string_lossy().parse::<i32>() {
                    v.push(t);
                }
            }
        }
        v
    }

    /// number of the system call the thread is blocked in (-1 running / unknown)
    fn blocked_syscall(tid: i32) -> i64 {
        match std::fs::read_to_string(format!("/proc/self/task/{}/syscall", tid)) {
            Ok(s) => {
                let first = s.split_whitespace().next().unwrap_or("");
                if first == "running" {
                    -1
                } else {
                    first.parse::<i64>().unwrap_or(-2)
                }
            }
            Err(_) => -3, // thread gone
        }
    }

    /// CPU time consumed by a thread, in clock ticks (utime + stime of /proc/self/task/<tid>/stat)
    fn cpu_ticks(tid: i32) -> u64 {
        match std::fs::read_to_string(format!("/proc/self/task/{}/stat", tid)) {
            Ok(s) => {
                let rest = s.rsplit(')').next().unwrap_or("");
                let f: Vec<&str> = rest.split_whitespace().collect();
                // after the command: state(0) ppid(1) ... utime is field 14 of the line = index 11 here, stime index 12
                f.get(11).and_then(|x| x.parse::<u64>().ok()).unwrap_or(0) + f.get(12).and_then(|x| x.parse::<u64>().ok()).unwrap_or(0)
            }
            Err(_) => 0,
        }
    }

    /// number of times the thread went to sleep of its own accord (blocking call, sleep, yield) so far
    fn voluntary_switches(tid: i32) -> u64 {
        match std::fs::read_to_string(format!("/proc/self/task/{}/status", tid)) {
            Ok(s) => s.lines().find(|l| l.starts_with("voluntary_ctxt_switches")).and_then(|l| l.split_whitespace().nth(1)).and_then(|x| x.parse::<u64>().ok()).unwrap_or(0),
            Err(_) => 0,
        }
    }

    fn fionread(fd: i32) -> i32 {
        let mut n: libc::c_int = 0;
        unsafe {
            libc::ioctl(fd, libc::FIONREAD, &mut n);
        }
        n
    }

    /// every thread creation of a scenario happens under this lock, so that the receive thread can be identified
    /// as the one new entry of /proc/self/task while it is held
    static SPAWN: Mutex<()> = Mutex::new(());

    const SYS_SELECT: i64 = 23;
    const SYS_PSELECT6: i64 = 270;
    const SYS_FUTEX: i64 = 202;
    const SYS_READ: i64 = 0;
    const SYS_RECVFROM: i64 = 45;

    pub struct Outcome {
        pub violations: Vec<(String, String)>,
        pub inconclusive: Option<String>,
        pub interleaving: String,
        pub delivered: usize,
        pub expected: usize,
        pub reads_after_eof: u64,
        pub exited: bool,
    }

    struct Server {
        state: Arc<Mutex<ServerState>>,
        sock: Arc<Mutex<UnixStream>>,
    }

    impl Server {
        fn flush(&self) {
            let bytes: Vec<u8> = {
                let mut s = self.state.lock().unwrap();
                s.out.drain(..).collect()
            };
            if !bytes.is_empty() {
                let _ = self.sock.lock().unwrap().write_all(&bytes);
            }
        }
        /// plaintext -> one TLS record -> ciphertext
        fn seal(&self, plain: &[u8]) -> Vec<u8> {
            let mut s = self.state.lock().unwrap();
            match s.tls.as_mut() {
                Some(t) => t.seal(plain),
                None => plain.to_vec(),
            }
        }
        fn write_raw(&self, bytes: &[u8]) {
            let _ = self.sock.lock().unwrap().write_all(bytes);
        }
        fn frame(&self, inner: &B, w: Wrap) -> Vec<u8> {
            self.state.lock().unwrap().wrap(inner, w).v
        }
    }

    /// `big`: 0 = 16-byte rectangles; 1 = every other PDU carries 2 KiB rectangles (frame > 1500 bytes);
    /// 2 = every other PDU carries one 20 KiB rectangle (larger than a TLS record)
    /// 3 = PDUs of several updates: zero-length synchronize / pointer updates ahead of and between bitmap updates;
    /// 4 = every fourth PDU carries one update of more than a thousand one-pixel rectangles
    fn bitmap_pdu(srv: &Server, k: usize, big: u8) -> (Vec<u8>, Vec<Vec<u8>>) {
        if big == 3 || (big == 4 && k % 4 == 1) {
            let px = |i: usize| -> Rect {
                // all three ways a rectangle's data may be announced: raw, compressed without and with its compression header
                // (the bytes are forwarded as they are; nothing is decoded on this path)
                let flags = if big == 3 { [0u16, 0x0401, 0x0001][(k + i) % 3] } else { 0 };
                Rect { left: (k % 500) as u16, top: (i % 500) as u16, right: (k % 500) as u16, bottom: (i % 500) as u16, width: 1, height: 1, bpp: 32, flags, data: vec![k as u8, (k >> 8) as u8, i as u8, 0xC0 | ((i >> 8) as u8 & 0x3f)] }
            };
            let mut body = B::new();
            let mut stamps = Vec::new();
            let mut n = 0usize;
            let mut add_bitmaps = |body: &mut B, count: usize, tag: &str| {
                let rects: Vec<Rect> = (n..n + count).map(px).collect();
                n += count;
                stamps.extend(rects.iter().map(|r| r.data.clone()));
                body.nest(tag, &proto::fp_update(1, &proto::bitmap_update_body(&rects)));
            };
            if big == 4 {
                add_bitmaps(&mut body, 1025 + (k % 3) * 40, "many");
            } else {
                let empty = |code: u8| proto::fp_update(code, &B::new());
                if k % 3 != 2 {
                    body.nest("e0", &empty([3u8, 5, 6][k % 3]));
                }
                add_bitmaps(&mut body, 1 + k % 3, "b0");
                if k % 2 == 1 {
                    body.nest("e1", &empty([5u8, 6, 3][k % 3]));
                    add_bitmaps(&mut body, 1, "b1");
                }
            }
            let mut frame = srv.frame(&body, Wrap::FastPath { sec: 0, long: big == 4 || k % 2 == 0 });
            if big == 3 && k % 4 == 3 {
                // now and then a slow-path PDU that asks nothing of the client (error info "none") instead of bitmaps, sent
                // with another MCS data priority than the rest of the session (top, medium, low; unsegmented as always)
                let (mut p2, sid) = {
                    let st = srv.state.lock().unwrap();
                    (st.profile.clone(), st.next_share_id)
                };
                p2.sdi_flags = [0x30u8, 0xB0, 0xF0][(k / 4) % 3];
                // (a PDU of its own in the sequence, carrying no bitmap: the packing under test treats it like any other)
                frame = proto::slow_path_frame(&p2, &proto::set_error_info(&p2, sid, 0)).v;
                stamps.clear();
            }
            return (frame, stamps);
        }
        let large = big > 0 && big < 3 && k % 2 == 0;
        let nr = if large && big == 2 { 1 } else { 1 + k % 3 };
        // small rectangles come in every thin shape too (a caret, a border line, a single pixel)
        let (w, h): (u16, u16) = if !large { [(2u16, 2u16), (1, 1), (1, 3), (5, 1)][k % 4] } else if big == 1 { (32, 16) } else { (64, 80) };
        let rects: Vec<Rect> = (0..nr)
            .map(|i| Rect { left: k as u16, top: i as u16, right: k as u16 + w - 1, bottom: i as u16 + h - 1, width: w, height: h, bpp: 32, flags: 0, data: {
                let mut d = vec![0u8; w as usize * h as usize * 4];
                d[0] = k as u8;
                d[1] = (k >> 8) as u8;
                d[2] = i as u8;
                d[3] = 0xC2;
                d
            } })
            .collect();
        let stamps = rects.iter().map(|r| r.data.clone()).collect();
        (srv.frame(&proto::fp_update(1, &proto::bitmap_update_body(&rects)), Wrap::FastPath { sec: 0, long: k % 2 == 0 }), stamps)
    }

    pub fn run_scenario(sc: &Scenario) -> Outcome {
        let mut out = Outcome { violations: Vec::new(), inconclusive: None, interleaving: String::new(), delivered: 0, expected: 0, reads_after_eof: 0, exited: false };
        let mut rng = Rng::derive(sc.seed, "C20-run", 0, 0);
        let (cs, ss) = match UnixStream::pair() {
            Ok(p) => p,
            Err(e) => {
                out.inconclusive = Some(format!("socketpair: {}", e));
                return out;
            }
        };
        let client_fd = cs.as_raw_fd();
        let mut profile = Profile::default();
        profile.selected_protocol = 1;
        let mut st = ServerState::new(profile);
        st.tls_identity = 2;
        st.tls12_only = sc.tls12;
        let state = Arc::new(Mutex::new(st));
        let sock_w = Arc::new(Mutex::new(ss.try_clone().expect("clone server socket")));
        let srv = Server { state: state.clone(), sock: sock_w.clone() };
        // pump: everything the client writes is fed to the reference server, its answers are written back
        let pump_state = state.clone();
        let pump_sock = sock_w.clone();
        let mut rd = ss.try_clone().expect("clone");
        let spawn_guard = SPAWN.lock().unwrap();
        let pump = std::thread::spawn(move || {
            let mut buf = [0u8; 16384];
            loop {
                match rd.read(&mut buf) {
                    Ok(0) | Err(_) => break,
                    Ok(n) => {
                        let bytes: Vec<u8> = {
                            let mut s = pump_state.lock().unwrap();
                            s.client_wrote(&buf[..n]);
                            s.out.drain(..).collect()
                        };
                        if !bytes.is_empty() {
                            let _ = pump_sock.lock().unwrap().write_all(&bytes);
                        }
                    }
                }
            }
        });
        drop(spawn_guard);
        let gate = Arc::new(Gate::default());
        let gs = GatedSocket { s: cs, g: gate.clone() };
        let mut cfg = ConnCfg::default();
        cfg.nla = false;
        let mut rc: RdpClient<GatedSocket> = match client::connector(&cfg).connect(gs) {
            Ok(c) => c,
            Err(e) => {
                out.inconclusive = Some(format!("connect failed: {}", client::err_kind(&e)));
                unsafe { libc::shutdown(ss.as_raw_fd(), libc::SHUT_RDWR) };
                let _ = pump.join();
                return out;
            }
        };
        for _ in 0..5 {
            if let Err(e) = rc.read(|_| {}) {
                out.inconclusive = Some(format!("activation failed: {}", client::err_kind(&e)));
                unsafe { libc::shutdown(ss.as_raw_fd(), libc::SHUT_RDWR) };
                let _ = pump.join();
                return out;
            }
        }
        // TLS 1.3 session tickets may still be queued: let the client drain them before the thread starts, so that the
        // first select does not fire without application data (an idle read would then block holding the mutex)
        let shared = Arc::new(Mutex::new(rc));
        let sync = Arc::new(AtomicBool::new(true));
        let (tx, rx) = mpsc::channel::<BitmapEvent>();
        let spawn_guard = SPAWN.lock().unwrap();
        // the set of threads must be at rest before the launch (the worker pool itself may still be starting up)
        let mut before = thread_ids();
        for _ in 0..100 {
            std::thread::sleep(Duration::from_millis(1));
            let again = thread_ids();
            if again == before {
                break;
            }
            before = again;
        }
        let handle = match super::super::launch_rdp_thread(client_fd as usize, Arc::clone(&shared), Arc::clone(&sync), tx) {
            Ok(h) => h,
            Err(_) => {
                out.inconclusive = Some("launch_rdp_thread failed".into());
                return out;
            }
        };
        // identify the receive thread
        let mut tid = -1;
        for _ in 0..200 {
            let now = thread_ids();
            // thread creation is serialised (SPAWN): exactly one new entry may appear; anything else is a listing
            // that could not be read completely, and is retried
            let fresh: Vec<i32> = now.iter().filter(|t| !before.contains(t)).cloned().collect();
            if !before.is_empty() && fresh.len() == 1 {
                tid = fresh[0];
                break;
            }
            std::thread::sleep(Duration::from_millis(1));
        }
        drop(spawn_guard);
        if tid < 0 && !handle.is_finished() {
            // without the thread's id neither its system call nor its CPU time can be observed
            out.inconclusive = Some("the receive thread could not be identified in /proc/self/task".into());
            sync.store(false, Ordering::SeqCst);
            unsafe { libc::shutdown(ss.as_raw_fd(), libc::SHUT_RDWR) };
            let _ = pump.join();
            return out;
        }
        let in_select = |tid: i32| -> bool {
            let sc = blocked_syscall(tid);
            sc == SYS_SELECT || sc == SYS_PSELECT6
        };
        let wait_in_select = |max_ms: u64| -> bool {
            let t0 = Instant::now();
            while t0.elapsed() < Duration::from_millis(max_ms) {
                if in_select(tid) && fionread(client_fd) == 0 {
                    return true;
                }
                if handle.is_finished() {
                    return false;
                }
                std::thread::sleep(Duration::from_micros(300));
            }
            false
        };
        // optional concurrent input writer (the GUI loop's role)
        let stop_writer = Arc::new(AtomicBool::new(false));
        let spawn_guard = SPAWN.lock().unwrap();
        let writer = if sc.input_writer {
            let sh = shared.clone();
            let stop = stop_writer.clone();
            let seed = sc.seed;
            Some(std::thread::spawn(move || {
                let mut r = Rng::derive(seed, "C20-writer", 0, 0);
                while !stop.load(Ordering::SeqCst) {
                    // contend for the client like the GUI's input path, but stay cancellable: a receive thread
                    // that never lets go of the mutex must not hang the harness
                    loop {
                        if stop.load(Ordering::SeqCst) {
                            break;
                        }
                        match sh.try_lock() {
                            Ok(mut g) => {
                                let _ = g.try_write(RdpEvent::Key(KeyboardEvent { code: 0x1e, down: true }));
                                break;
                            }
                            Err(std::sync::TryLockError::WouldBlock) => std::thread::sleep(Duration::from_micros(20)),
                            Err(_) => break,
                        }
                    }
                    std::thread::sleep(Duration::from_micros(r.range(50, 2000)));
                }
            }))
        } else {
            None
        };

        drop(spawn_guard);

        // ---- the script
        let mut trace: Vec<String> = Vec::new();
        let mut expected: Vec<Vec<u8>> = Vec::new();
        let total = sc.n_pdus;
        // "in the middle of a PDU" is only meaningful for the ways of ending that cut the stream
        let point = if sc.point == Point::MiddleOfPdu && matches!(sc.end, End::Ultimatum | End::GarbagePdu | End::None) { Point::BetweenPdus } else { sc.point };
        let end_after = match point {
            Point::BeforeAnyUpdate => 0,
            Point::BetweenPdus | Point::MiddleOfPdu => total / 2,
            Point::AfterLast => total,
        };
        let pause = |r: &mut Rng, on: bool| {
            if on {
                std::thread::sleep(Duration::from_micros(r.range(0, 1500)));
            }
        };
        // PDUs before the end event
        let mut k = 0;
        while k < end_after {
            match &sc.packing {
                Packing::OnePerRecord => {
                    let (f, st) = bitmap_pdu(&srv, k, sc.big);
                    srv.write_raw(&srv.seal(&f));
                    expected.extend(st);
                    k += 1;
                }
                Packing::SeveralPerRecord(n) => {
                    let mut plain = Vec::new();
                    let mut j = 0;
                    while j < *n && k < end_after {
                        let (f, st) = bitmap_pdu(&srv, k, sc.big);
                        plain.extend_from_slice(&f);
                        expected.extend(st);
                        k += 1;
                        j += 1;
                    }
                    srv.write_raw(&srv.seal(&plain));
                }
                Packing::SplitAcrossRecords(n) => {
                    let (f, st) = bitmap_pdu(&srv, k, sc.big);
                    let piece = (f.len() + n - 1) / n;
                    for (ci, ch) in f.chunks(piece.max(1)).enumerate() {
                        if ci > 0 && sc.stall_inside_pdu_ms > 0 && k == end_after / 2 {
                            std::thread::sleep(Duration::from_millis(sc.stall_inside_pdu_ms));
                            trace.push(format!("stall-inside-pdu-{}ms", sc.stall_inside_pdu_ms));
                        }
                        srv.write_raw(&srv.seal(ch));
                        pause(&mut rng, sc.pauses);
                    }
                    expected.extend(st);
                    k += 1;
                }
                Packing::SplitAt(n) => {
                    let (f, st) = bitmap_pdu(&srv, k, sc.big);
                    let cut = (*n).min(f.len());
                    srv.write_raw(&srv.seal(&f[..cut]));
                    pause(&mut rng, true);
                    srv.write_raw(&srv.seal(&f[cut..]));
                    expected.extend(st);
                    k += 1;
                }
                Packing::SegmentSplit(off) => {
                    let (f, st) = bitmap_pdu(&srv, k, sc.big);
                    let ct = srv.seal(&f);
                    let cut = (*off).min(ct.len());
                    srv.write_raw(&ct[..cut]);
                    std::thread::sleep(Duration::from_micros(300));
                    srv.write_raw(&ct[cut..]);
                    expected.extend(st);
                    k += 1;
                }
            }
            trace.push(format!("pdu{}", k));
            pause(&mut rng, sc.pauses);
        }
        if sc.reactivate && end_after > 0 {
            // deactivate-all, then a demand-active that re-uses the share id; the reference server answers the client's font
            // list with the finalization by itself. The script goes on once the client is active again.
            let (pr, sid, fl0) = {
                let st = state.lock().unwrap();
                (st.profile.clone(), st.next_share_id, st.events.iter().filter(|e| matches!(e.msg, rdpverif::refs::proto::ClientMsg::Share { msg: rdpverif::refs::proto::ShareMsg::FontList { .. }, .. })).count())
            };
            // the script itself sends the finalization this time, so that it cannot overtake or be overtaken by what follows
            state.lock().unwrap().auto_finalize = false;
            srv.write_raw(&srv.seal(&srv.frame(&proto::deactivate_all(&pr, sid), Wrap::Sdi)));
            srv.write_raw(&srv.seal(&srv.frame(&proto::demand_active(&pr, sid), Wrap::Sdi)));
            let t0 = Instant::now();
            let mut back = false;
            while t0.elapsed() < Duration::from_secs(5) {
                let fl = state.lock().unwrap().events.iter().filter(|e| matches!(e.msg, rdpverif::refs::proto::ClientMsg::Share { msg: rdpverif::refs::proto::ShareMsg::FontList { .. }, .. })).count();
                if fl > fl0 {
                    back = true;
                    break;
                }
                if handle.is_finished() {
                    break;
                }
                std::thread::sleep(Duration::from_micros(300));
            }
            trace.push(if back { "reactivated".into() } else { "no-font-list-after-reactivation".into() });
            for b in [proto::synchronize(&pr, sid, pr.user_id), proto::control(&pr, sid, 4, 0, 0), proto::control(&pr, sid, 2, pr.user_id, pr.server_channel as u32), proto::font_map(&pr, sid)].iter() {
                srv.write_raw(&srv.seal(&srv.frame(b, Wrap::Sdi)));
            }
            // two more PDUs in the new activation
            for j in 0..2 {
                let (f, st) = bitmap_pdu(&srv, 700 + j, sc.big);
                srv.write_raw(&srv.seal(&f));
                expected.extend(st);
            }
        }
        // placement of the end event relative to the thread's cycle
        let p = Profile::default();
        let end_bytes: Option<Vec<u8>> = match sc.end {
            End::Ultimatum => Some(srv.frame(&proto::disconnect_ultimatum(3), Wrap::X224)),
            End::GarbagePdu => Some(if sc.seed % 2 == 0 { srv.frame(&{ let mut b = B::new(); b.bytes("junk", &[0xFC, 1, 2, 3]); b }, Wrap::X224) } else { vec![3, 0, 0, 9, 2, 0xF0, 0x00, 0x68, 0] }),
            _ => None,
        };
        let _ = p;
        let mut held_lock = None;
        match sc.step {
            Step::InSelect => {
                if !wait_in_select(5000) && !handle.is_finished() {
                    trace.push("thread-never-reached-select".into());
                } else {
                    trace.push("thread-in-select".into());
                }
            }
            Step::AtRead => {
                gate.enabled.store(true, Ordering::SeqCst);
                let base = *gate.arrived.lock().unwrap();
                // a normal PDU makes select fire; the thread locks and enters read(), where the gate holds it
                let (f, st) = bitmap_pdu(&srv, 900, sc.big);
                srv.write_raw(&srv.seal(&f));
                expected.extend(st);
                let mut a = gate.arrived.lock().unwrap();
                let t0 = Instant::now();
                while *a <= base && t0.elapsed() < Duration::from_secs(5) {
                    let (g2, _) = gate.arrived_cv.wait_timeout(a, Duration::from_millis(20)).unwrap();
                    a = g2;
                }
                trace.push(if *a > base { "thread-at-read-gate".into() } else { "gate-not-reached".into() });
            }
            Step::AtLock => {
                held_lock = Some(shared.lock().unwrap());
                let (f, st) = bitmap_pdu(&srv, 901, sc.big);
                srv.write_raw(&srv.seal(&f));
                expected.extend(st);
                // wait until the thread is blocked on the mutex (futex)
                let t0 = Instant::now();
                let mut ok = false;
                while t0.elapsed() < Duration::from_secs(5) {
                    if blocked_syscall(tid) == SYS_FUTEX {
                        ok = true;
                        break;
                    }
                    std::thread::sleep(Duration::from_micros(300));
                }
                trace.push(if ok { "thread-blocked-at-lock".into() } else { "lock-not-reached".into() });
            }
            Step::Free => {
                pause(&mut rng, true);
            }
        }
        if sc.silence_ms > 0 {
            std::thread::sleep(Duration::from_millis(sc.silence_ms));
            trace.push(format!("silence-{}ms", sc.silence_ms));
        }
        // the end event
        let mut ended = false;
        match sc.end {
            End::None => {}
            End::Ultimatum | End::GarbagePdu => {
                let bytes = end_bytes.clone().unwrap();
                if sc.end_in_same_record {
                    let (f, st) = bitmap_pdu(&srv, 960, sc.big);
                    let (f2, st2) = bitmap_pdu(&srv, 961, sc.big);
                    expected.extend(st);
                    expected.extend(st2);
                    let mut plain = f;
                    plain.extend_from_slice(&f2);
                    plain.extend_from_slice(&bytes);
                    srv.write_raw(&srv.seal(&plain));
                } else {
                    srv.write_raw(&srv.seal(&bytes));
                }
                ended = true;
                trace.push(format!("{:?}", sc.end));
            }
            End::CloseNotify => {
                if point == Point::MiddleOfPdu {
                    let (f, _) = bitmap_pdu(&srv, 950, sc.big);
                    srv.write_raw(&srv.seal(&f[..f.len() / 2]));
                }
                let cn = state.lock().unwrap().tls.as_mut().map(|t| t.close_notify()).unwrap_or_default();
                srv.write_raw(&cn);
                if !sc.linger {
                    unsafe { libc::shutdown(ss.as_raw_fd(), libc::SHUT_WR) };
                }
                ended = true;
                trace.push("close_notify".into());
            }
            End::AbruptClose => {
                if point == Point::MiddleOfPdu {
                    let (f, _) = bitmap_pdu(&srv, 950, sc.big);
                    let ct = srv.seal(&f);
                    // the connection dies after 1..6 bytes of the TLS record (inside or right after its 5-byte header), in
                    // the middle of it, or one byte before its end
                    let cut = match sc.seed % 9 {
                        0 => 1,
                        1 => 2,
                        2 => 3,
                        3 => 4,
                        4 => 5,
                        5 => 6,
                        6 => ct.len() - 1,
                        _ => ct.len() / 2,
                    };
                    srv.write_raw(&ct[..cut.min(ct.len())]);
                    trace.push(format!("cut-after-{}-record-bytes", cut));
                }
                unsafe { libc::shutdown(ss.as_raw_fd(), libc::SHUT_RDWR) };
                ended = true;
                trace.push("abrupt-close".into());
            }
        }
        // release the placement
        match sc.step {
            Step::AtRead => {
                gate.enabled.store(false, Ordering::SeqCst);
                let mut r = gate.release.lock().unwrap();
                *r = u64::MAX;
                gate.release_cv.notify_all();
            }
            Step::AtLock => {
                drop(held_lock.take());
            }
            _ => {}
        }
        // remaining PDUs after a "none" end (or nothing after a real end)
        if sc.end == End::None {
            while k < total {
                let (f, st) = bitmap_pdu(&srv, k, sc.big);
                srv.write_raw(&srv.seal(&f));
                expected.extend(st);
                k += 1;
                pause(&mut rng, sc.pauses);
            }
        }
        srv.flush();

        // ---- wait for quiescence (generous wall deadline => inconclusive only)
        let t0 = Instant::now();
        let mut verdict_ready = false;
        let mut spinning = false;
        let mut stuck_in_select = false;
        let mut quiet_polls = 0;
        let ticks0 = cpu_ticks(tid);
        let switches0 = voluntary_switches(tid);
        let mut wakeups = 0u64;
        let mut cpu_spent = 0u64;
        while t0.elapsed() < Duration::from_secs(20) {
            if handle.is_finished() {
                verdict_ready = true;
                break;
            }
            let rae = gate.reads_after_eof.load(Ordering::SeqCst);
            cpu_spent = cpu_ticks(tid).saturating_sub(ticks0);
            // spinning, decided on logical quantities: read calls after end of stream, or a full second of the
            // thread's own CPU time burnt after the script ended (a healthy thread needs microseconds)
            if rae > 64 || cpu_spent > 100 {
                spinning = true;
                verdict_ready = true;
                break;
            }
            // ... or polls it: after the session has ended a thread that is neither gone nor parked in one blocking call, but
            // keeps going to sleep and waking up (thousands of times, a logical count) will never stop either
            wakeups = voluntary_switches(tid).saturating_sub(switches0);
            if ended && wakeups > 3000 {
                spinning = true;
                verdict_ready = true;
                break;
            }
            let sysc = blocked_syscall(tid);
            let waiting = (sysc == SYS_SELECT || sysc == SYS_PSELECT6 || sysc == SYS_READ || sysc == SYS_RECVFROM) && fionread(client_fd) == 0;
            if waiting {
                quiet_polls += 1;
                // stable over several polls: the thread waits for *further* traffic
                if quiet_polls >= 20 {
                    stuck_in_select = true;
                    verdict_ready = true;
                    break;
                }
            } else {
                quiet_polls = 0;
            }
            std::thread::sleep(Duration::from_micros(500));
        }
        // collect what the channel delivered
        let mut got: Vec<Vec<u8>> = Vec::new();
        while let Ok(b) = rx.try_recv() {
            got.push(b.data);
        }
        out.delivered = got.len();
        out.expected = expected.len();
        out.reads_after_eof = gate.reads_after_eof.load(Ordering::SeqCst);
        out.exited = handle.is_finished();
        let class = sc.class();
        if !verdict_ready {
            out.inconclusive = Some(format!("no quiescence within 20 s (thread syscall {}, socket queue {})", blocked_syscall(tid), fionread(client_fd)));
        } else {
            // (i) everything sent before the end must have been forwarded, in order
            if got != expected {
                let what = if got.len() < expected.len() && expected[..got.len()] == got[..] {
                    "bitmaps-stranded"
                } else if got.len() > expected.len() {
                    "bitmaps-duplicated-or-extra"
                } else {
                    "bitmaps-wrong-or-out-of-order"
                };
                out.violations.push((format!("C20/{}/{}", class, what), format!("the server sent {} rectangles before the end event, the bitmap channel delivered {} (thread exited: {}, waiting for traffic: {}); {} ; trace {:?}", expected.len(), got.len(), out.exited, stuck_in_select, sc.full_class(), trace)));
            }
            // (ii) the session ended => the thread must have exited and released the shared client
            if ended {
                if spinning {
                    out.violations.push((format!("C20/{}/spins-on-dead-socket", class), format!("{} read calls after the transport reported end of stream / error, {} clock ticks of thread CPU time and {} voluntary sleeps after the script ended, and the thread is still running; {} ; trace {:?}", out.reads_after_eof, cpu_spent, wakeups, sc.full_class(), trace)));
                } else if !out.exited {
                    out.violations.push((format!("C20/{}/thread-does-not-stop", class), format!("the session ended but the receive thread waits for further traffic (socket queue empty); {} ; trace {:?}", sc.full_class(), trace)));
                }
            } else if out.exited {
                out.violations.push((format!("C20/{}/thread-stopped-while-session-alive", class), format!("no end event was sent but the receive thread exited; trace {:?}", trace)));
            }
        }
        out.interleaving = trace.join(">");
        // ---- tear down whatever state we are in
        stop_writer.store(true, Ordering::SeqCst);
        sync.store(false, Ordering::SeqCst);
        gate.enabled.store(false, Ordering::SeqCst);
        {
            let mut r = gate.release.lock().unwrap();
            *r = u64::MAX;
            gate.release_cv.notify_all();
        }
        unsafe { libc::shutdown(ss.as_raw_fd(), libc::SHUT_RDWR) };
        if let Some(w) = writer {
            let _ = w.join();
        }
        let t1 = Instant::now();
        while !handle.is_finished() && t1.elapsed() < Duration::from_secs(5) {
            std::thread::sleep(Duration::from_millis(1));
        }
        if handle.is_finished() {
            let _ = handle.join();
            if ended && out.exited && Arc::strong_count(&shared) != 1 {
                out.violations.push((format!("C20/{}/shared-client-not-released", class), format!("strong count {} after the thread exited", Arc::strong_count(&shared))));
            }
        }
        let _ = pump.join();
        out
    }

    pub fn make_scenario(class: u64, idx: u64, seed: u64) -> Scenario {
        let mut r = Rng::derive(seed, "C20", class, idx);
        let packings = [Packing::OnePerRecord, Packing::SeveralPerRecord(2), Packing::SeveralPerRecord(3), Packing::SeveralPerRecord(8), Packing::SplitAcrossRecords(2), Packing::SplitAcrossRecords(5), Packing::SplitAt(1), Packing::SplitAt(2), Packing::SplitAt(3), Packing::SegmentSplit(1), Packing::SegmentSplit(3), Packing::SegmentSplit(5), Packing::SegmentSplit(8)];
        let ends = [End::Ultimatum, End::CloseNotify, End::AbruptClose, End::GarbagePdu, End::None];
        let points = [Point::BeforeAnyUpdate, Point::BetweenPdus, Point::MiddleOfPdu, Point::AfterLast];
        let steps = [Step::InSelect, Step::AtRead, Step::AtLock];
        match class {
            0 => {
                // product: packing x end x point x step
                let mut k = idx;
                let packing = packings[(k % packings.len() as u64) as usize].clone();
                k /= packings.len() as u64;
                let end = ends[(k % 5) as usize];
                k /= 5;
                let point = points[(k % 4) as usize];
                k /= 4;
                let step = steps[(k % 3) as usize];
                Scenario { packing, n_pdus: 6, end, point, step, tls12: r.chance(2, 3), linger: r.chance(1, 2), input_writer: r.chance(1, 2), pauses: r.chance(1, 2), end_in_same_record: r.chance(1, 5), big: r.below(5) as u8, silence_ms: 0, stall_inside_pdu_ms: 0, reactivate: false, seed: seed ^ idx }
            }
            2 => {
                // a live session in which the server says nothing for a while, then goes on
                let silences = [6_000u64, 11_000, 31_000, 61_000];
                Scenario {
                    packing: if idx % 2 == 0 { Packing::OnePerRecord } else { Packing::SplitAcrossRecords(2) },
                    n_pdus: 6,
                    end: End::None,
                    point: Point::BetweenPdus,
                    step: Step::InSelect,
                    tls12: idx % 3 == 0,
                    linger: false,
                    input_writer: idx % 2 == 1,
                    pauses: false,
                    end_in_same_record: false,
                    big: (idx % 3) as u8,
                    // odd scenarios (PDUs split across records) stall inside a PDU instead of between PDUs
                    silence_ms: if idx % 2 == 0 { silences[(idx as usize / 3) % silences.len()] } else { 0 },
                    stall_inside_pdu_ms: if idx % 2 == 1 { [3_500u64, 6_000, 11_000, 31_000][(idx as usize / 3) % 4] } else { 0 },
                    reactivate: false,
                    seed: seed ^ idx ^ 0x5151,
                }
            }
            _ => Scenario {
                packing: packings[r.below(packings.len() as u64) as usize].clone(),
                n_pdus: r.range(1, 12) as usize,
                end: ends[r.below(5) as usize],
                point: points[r.below(4) as usize],
                step: Step::Free,
                tls12: r.chance(1, 2),
                linger: r.chance(1, 2),
                input_writer: r.chance(2, 3),
                pauses: true,
                end_in_same_record: r.chance(1, 5),
                big: r.below(5) as u8,
                silence_ms: 0,
                stall_inside_pdu_ms: 0,
                reactivate: r.chance(1, 4),
                seed: seed.wrapping_mul(31) ^ idx,
            },
        }
    }

    fn judge(sc: &Scenario, class: u64, idx: u64, seed: u64, rep: &mut Report) {
        rep.eval();
        let o = run_scenario(sc);
        let rp = json!({"gen": [class, idx, seed], "scenario": sc.to_json()});
        if let Some(why) = &o.inconclusive {
            rep.inconclusive(&why.chars().take(60).collect::<String>());
            rep.hist("inconclusive");
            return;
        }
        rep.hist(if o.violations.is_empty() { "held" } else { "breach" });
        rep.set("interleavings", format!("{}|{}", sc.full_class(), o.interleaving));
        rep.set("scenario_classes", sc.full_class());
        rep.count("rectangles_expected", o.expected as u64);
        rep.count("rectangles_delivered", o.delivered as u64);
        rep.nontrivial(fnv(format!("{:?}", sc).as_bytes()));
        if rep.want_sample() {
            let s = json!({"scenario": sc.to_json(), "interleaving": o.interleaving, "delivered": o.delivered, "expected": o.expected, "exited": o.exited});
            rep.sample(|| s);
        }
        for (sig, detail) in o.violations {
            rep.violation(sig, detail, rp.clone());
        }
    }

    pub fn run(cfg: &Cfg) -> Report {
        rdpverif::tls::prewarm(false);
        let seed = cfg.seed;
        let mut total = Report::new();
        // scenarios use real threads and real sockets: a few in parallel only
        let mut c2 = cfg.clone();
        c2.threads = cfg.threads.min(8);
        if cfg.wants(0) {
            let n_full: u64 = 13 * 5 * 4 * 3;
            let n = if cfg.quick() { 150 } else { n_full };
            let rep = par_run(&c2, n, 1, |k, rep| {
                let idx = if cfg.quick() { (k * n_full / n + seed % (n_full / n).max(1)) % n_full } else { k };
                mon::begin_case(20, 0, idx, seed);
                let sc = make_scenario(0, idx, seed);
                judge(&sc, 0, idx, seed, rep);
            });
            total.count("placed_scenarios", n);
            total.merge(rep);
        }
        if cfg.wants(2) {
            // quick: three sessions with 6 s of silence (run side by side); thorough: 6, 11, 31 and 61 s
            let n: u64 = if cfg.quick() { 4 } else { 24 };
            let mut c3 = cfg.clone();
            c3.threads = 12;
            let rep = par_run(&c3, n, 1, |idx, rep| {
                mon::begin_case(20, 2, idx, seed);
                let sc = make_scenario(2, idx, seed);
                judge(&sc, 2, idx, seed, rep);
            });
            total.count("long_silence_scenarios", n);
            total.merge(rep);
        }
        if cfg.wants(1) {
            let n = cfg.n(200, 20_000);
            let rep = par_run(&c2, n, 1, |idx, rep| {
                mon::begin_case(20, 1, idx, seed);
                let sc = make_scenario(1, idx, seed);
                judge(&sc, 1, idx, seed, rep);
            });
            total.count("seeded_delay_scenarios", n);
            total.merge(rep);
        }
        total
    }

    pub fn replay(_cfg: &Cfg, v: &Value) -> Report {
        let mut rep = Report::new();
        mon::set_quiet(false);
        let g: Vec<u64> = if let Some(a) = v.get("death_case") {
            let a: Vec<u64> = a.as_array().unwrap().iter().map(|x| x.as_u64().unwrap()).collect();
            vec![a[1], a[2], a[3]]
        } else {
            v["gen"].as_array().map(|a| a.iter().map(|x| x.as_u64().unwrap_or(0)).collect()).unwrap_or(vec![0, 0, 1])
        };
        let sc = make_scenario(g[0], g[1], g[2]);
        // timing-dependent: repeat a few times
        for _ in 0..5 {
            judge(&sc, g[0], g[1], g[2], &mut rep);
        }
        rep
    }
}
