//! Per-run report: what the monitors observed. Merged across worker threads, written as JSON.

use serde_json::{json, Map, Value};
use std::collections::{BTreeMap, HashSet};

const EXACT_LIMIT: usize = 1_500_000;
const SKETCH_BITS: usize = 1 << 27;

/// Distinct counter: exact up to EXACT_LIMIT, then linear counting over a 2^27-bit map.
pub struct Distinct {
    exact: Option<HashSet<u64>>,
    sketch: Vec<u64>,
}

impl Default for Distinct {
    fn default() -> Self {
        Distinct { exact: Some(HashSet::new()), sketch: Vec::new() }
    }
}

impl Distinct {
    pub fn insert(&mut self, h: u64) {
        if let Some(e) = &mut self.exact {
            e.insert(h);
            if e.len() > EXACT_LIMIT {
                let old = self.exact.take().unwrap();
                self.sketch = vec![0u64; SKETCH_BITS / 64];
                for x in old {
                    self.set_bit(x);
                }
            }
        } else {
            self.set_bit(h);
        }
    }
    fn set_bit(&mut self, h: u64) {
        let i = (crate::rng::mix(h) as usize) % SKETCH_BITS;
        self.sketch[i / 64] |= 1 << (i % 64);
    }
    pub fn merge(&mut self, other: Distinct) {
        match other.exact {
            Some(e) => {
                for x in e {
                    self.insert(x);
                }
            }
            None => {
                if let Some(e) = self.exact.take() {
                    self.sketch = vec![0u64; SKETCH_BITS / 64];
                    for x in e {
                        self.set_bit(x);
                    }
                }
                for (a, b) in self.sketch.iter_mut().zip(other.sketch.iter()) {
                    *a |= *b;
                }
            }
        }
    }
    pub fn count(&self) -> (u64, bool) {
        match &self.exact {
            Some(e) => (e.len() as u64, true),
            None => {
                let set: u64 = self.sketch.iter().map(|w| w.count_ones() as u64).sum();
                let m = SKETCH_BITS as f64;
                let zeros = m - set as f64;
                if zeros < 1.0 {
                    (set, false)
                } else {
                    ((-m * (zeros / m).ln()) as u64, false)
                }
            }
        }
    }
}

#[derive(Clone, Debug)]
pub struct Violation {
    /// exact signature: entry / case class / outcome class (no line numbers)
    pub sig: String,
    pub detail: String,
    pub replay: Value,
}

#[derive(Default)]
pub struct Report {
    pub evaluations: u64,
    pub nontrivial: Distinct,
    pub samples: Vec<Value>,
    pub sample_cap: usize,
    pub violations: BTreeMap<String, (u64, Vec<Violation>)>,
    pub hist: BTreeMap<String, u64>,
    pub counters: BTreeMap<String, u64>,
    pub maxima: BTreeMap<String, f64>,
    pub sets: BTreeMap<String, HashSet<String>>,
    pub observations: BTreeMap<String, (u64, Value)>,
    pub inconclusive: BTreeMap<String, u64>,
    pub selfcheck_failures: Vec<String>,
}

impl Report {
    pub fn new() -> Self {
        Report { sample_cap: 6, ..Default::default() }
    }
    pub fn eval(&mut self) {
        self.evaluations += 1;
    }
    pub fn nontrivial(&mut self, h: u64) {
        self.nontrivial.insert(h);
    }
    pub fn hist(&mut self, k: &str) {
        *self.hist.entry(k.to_string()).or_insert(0) += 1;
    }
    pub fn count(&mut self, k: &str, n: u64) {
        *self.counters.entry(k.to_string()).or_insert(0) += n;
    }
    pub fn max(&mut self, k: &str, v: f64) {
        let e = self.maxima.entry(k.to_string()).or_insert(v);
        if v > *e {
            *e = v;
        }
    }
    pub fn set(&mut self, k: &str, v: String) {
        let s = self.sets.entry(k.to_string()).or_default();
        if s.len() < 200_000 {
            s.insert(v);
        }
    }
    pub fn sample(&mut self, v: impl FnOnce() -> Value) {
        if self.samples.len() < self.sample_cap {
            self.samples.push(v());
        }
    }
    pub fn want_sample(&self) -> bool {
        self.samples.len() < self.sample_cap
    }
    pub fn violation(&mut self, sig: String, detail: String, replay: Value) {
        let e = self.violations.entry(sig.clone()).or_insert((0, Vec::new()));
        e.0 += 1;
        if e.1.len() < 2 {
            e.1.push(Violation { sig, detail, replay });
        }
    }
    /// something recorded for the reader that is neither a violation nor coverage
    pub fn observe(&mut self, k: &str, example: impl FnOnce() -> Value) {
        let e = self.observations.entry(k.to_string()).or_insert_with(|| (0, Value::Null));
        if e.0 == 0 {
            e.1 = example();
        }
        e.0 += 1;
    }
    pub fn inconclusive(&mut self, why: &str) {
        *self.inconclusive.entry(why.to_string()).or_insert(0) += 1;
    }
    pub fn selfcheck_fail(&mut self, what: String) {
        if self.selfcheck_failures.len() < 10 {
            self.selfcheck_failures.push(what);
        }
    }

    pub fn merge(&mut self, o: Report) {
        self.evaluations += o.evaluations;
        self.nontrivial.merge(o.nontrivial);
        for s in o.samples {
            if self.samples.len() < self.sample_cap.max(6) {
                self.samples.push(s);
            }
        }
        for (k, (n, vs)) in o.violations {
            let e = self.violations.entry(k).or_insert((0, Vec::new()));
            e.0 += n;
            for v in vs {
                if e.1.len() < 2 {
                    e.1.push(v);
                }
            }
        }
        for (k, n) in o.hist {
            *self.hist.entry(k).or_insert(0) += n;
        }
        for (k, n) in o.counters {
            *self.counters.entry(k).or_insert(0) += n;
        }
        for (k, v) in o.maxima {
            self.max(&k, v);
        }
        for (k, s) in o.sets {
            let e = self.sets.entry(k).or_default();
            for x in s {
                if e.len() < 200_000 {
                    e.insert(x);
                }
            }
        }
        for (k, (n, ex)) in o.observations {
            let e = self.observations.entry(k).or_insert((0, Value::Null));
            if e.0 == 0 {
                e.1 = ex;
            }
            e.0 += n;
        }
        for (k, n) in o.inconclusive {
            *self.inconclusive.entry(k).or_insert(0) += n;
        }
        for s in o.selfcheck_failures {
            self.selfcheck_fail(s);
        }
    }

    pub fn to_json(&self) -> Value {
        let (dn, exact) = self.nontrivial.count();
        let mut viol = Vec::new();
        for (sig, (n, vs)) in &self.violations {
            viol.push(json!({
                "sig": sig,
                "count": n,
                "examples": vs.iter().map(|v| json!({"detail": v.detail, "replay": v.replay})).collect::<Vec<_>>()
            }));
        }
        let mut sets = Map::new();
        for (k, s) in &self.sets {
            let mut ex: Vec<&String> = s.iter().collect();
            ex.sort();
            ex.truncate(40);
            sets.insert(k.clone(), json!({"distinct": s.len(), "examples": ex}));
        }
        let mut obs = Map::new();
        for (k, (n, ex)) in &self.observations {
            obs.insert(k.clone(), json!({"count": n, "example": ex}));
        }
        json!({
            "evaluations": self.evaluations,
            "distinct_nontrivial": dn,
            "distinct_exact": exact,
            "samples": self.samples,
            "violations": viol,
            "outcomes": self.hist,
            "counters": self.counters,
            "maxima": self.maxima,
            "sets": sets,
            "observations": obs,
            "inconclusive": self.inconclusive,
            "selfcheck_failures": self.selfcheck_failures,
        })
    }
}
