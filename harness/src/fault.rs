//! Fault plans over valid server messages: symbolic field faults (every value of 8-bit fields,
//! boundary values of 16/32-bit fields in both byte orders), truncation at every point, extensions,
//! removal / duplication of blocks, random pokes, splices, and pairs of single faults.

use crate::refs::build::{Field, B};
use crate::rng::Rng;

#[derive(Clone, Debug)]
pub struct Mutant {
    /// class descriptor, e.g. "set8:gcc.choice", "bound16le:c.ud.block1.length=3", "truncate", "extend"
    pub class: String,
    pub bytes: Vec<u8>,
    /// first offset that differs from the original (for the non-triviality probe)
    pub at: usize,
}

const B16: [u32; 14] = [0, 1, 2, 3, 4, 5, 7, 8, 0x7f, 0x80, 0xff, 0x100, 0x7fff, 0x8000];
/// every small value: codes, types and counts index tables of a few dozen entries
const SMALL_MAX: u32 = 40;
const B16B: [u32; 3] = [0xfffe, 0xffff, 0x3fff];
const B32: [u32; 8] = [0x10000, 0xffffff, 0x1000000, 0x7fffffff, 0x80000000, 0xfffffffe, 0xffffffff, 0x00080004];

fn leaf_fields(b: &B) -> Vec<&Field> {
    // fields that are not containers of other recorded fields
    b.fields
        .iter()
        .filter(|f| f.len > 0 && !b.fields.iter().any(|g| !std::ptr::eq(*f, g) && g.off >= f.off && g.off + g.len <= f.off + f.len && (g.len < f.len)))
        .collect()
}

fn container_fields(b: &B) -> Vec<&Field> {
    b.fields.iter().filter(|f| f.len > 0 && b.fields.iter().any(|g| !std::ptr::eq(*f, g) && g.off >= f.off && g.off + g.len <= f.off + f.len && g.len < f.len)).collect()
}

fn set(b: &B, off: usize, val: &[u8], class: String) -> Mutant {
    let mut v = b.v.clone();
    v[off..off + val.len()].copy_from_slice(val);
    Mutant { class, bytes: v, at: off }
}

/// all single structured faults of a message
pub fn single_faults(b: &B, r: &mut Rng, light: bool) -> Vec<Mutant> {
    let mut out = Vec::new();
    let n = b.v.len();
    for f in leaf_fields(b) {
        match f.len {
            1 => {
                for x in 0..=255u8 {
                    if b.v[f.off] != x {
                        out.push(set(b, f.off, &[x], format!("set8:{}", f.name)));
                    }
                }
            }
            2 => {
                let cur_le = b.v[f.off] as u32 | (b.v[f.off + 1] as u32) << 8;
                let cur_be = b.v[f.off + 1] as u32 | (b.v[f.off] as u32) << 8;
                let mut vals: Vec<u32> = B16.iter().chain(B16B.iter()).cloned().collect();
                if !light {
                    vals.extend(0..=SMALL_MAX);
                }
                for c in [cur_le, cur_be].iter() {
                    vals.push(c.wrapping_sub(1) & 0xffff);
                    vals.push((c + 1) & 0xffff);
                    vals.push((c + 4) & 0xffff);
                    vals.push(c.wrapping_sub(4) & 0xffff);
                }
                vals.sort();
                vals.dedup();
                for x in vals {
                    let le = [(x & 0xff) as u8, (x >> 8) as u8];
                    let be = [(x >> 8) as u8, (x & 0xff) as u8];
                    if b.v[f.off..f.off + 2] != le {
                        out.push(set(b, f.off, &le, format!("bound16le:{}", f.name)));
                    }
                    if le != be && b.v[f.off..f.off + 2] != be {
                        out.push(set(b, f.off, &be, format!("bound16be:{}", f.name)));
                    }
                }
            }
            4 => {
                let cur = u32::from_le_bytes([b.v[f.off], b.v[f.off + 1], b.v[f.off + 2], b.v[f.off + 3]]);
                let mut vals: Vec<u32> = B16.iter().chain(B16B.iter()).chain(B32.iter()).cloned().collect();
                if !light {
                    vals.extend(0..=SMALL_MAX);
                }
                vals.push(cur.wrapping_add(1));
                vals.push(cur.wrapping_sub(1));
                vals.sort();
                vals.dedup();
                for x in vals {
                    if b.v[f.off..f.off + 4] != x.to_le_bytes() {
                        out.push(set(b, f.off, &x.to_le_bytes(), format!("bound32le:{}", f.name)));
                    }
                    if x.to_le_bytes() != x.to_be_bytes() && b.v[f.off..f.off + 4] != x.to_be_bytes() {
                        out.push(set(b, f.off, &x.to_be_bytes(), format!("bound32be:{}", f.name)));
                    }
                }
            }
            l => {
                // variable field: every byte of short ones, sampled pokes for long ones
                let k = if l <= 12 { l } else { 12 };
                for i in 0..k {
                    let off = f.off + if l <= 12 { i } else { r.below(l as u64) as usize };
                    for x in [0u8, 0xff, 0x80, b.v[off] ^ 1].iter() {
                        if b.v[off] != *x {
                            out.push(set(b, off, &[*x], format!("poke:{}", f.name)));
                        }
                    }
                }
            }
        }
    }
    // every truncation point
    let step = if light && n > 64 { n / 64 } else { 1 };
    let mut k = 0;
    while k < n {
        out.push(Mutant { class: "truncate".into(), bytes: b.v[..k].to_vec(), at: k });
        k += step;
    }
    // extensions
    for (name, ext) in [("extend1-zero", vec![0u8; 1]), ("extend8-zero", vec![0u8; 8]), ("extend8-ff", vec![0xff; 8]), ("extend1500-zero", vec![0u8; 1500]), ("extend1500-ff", vec![0xffu8; 1500])].iter() {
        let mut v = b.v.clone();
        v.extend_from_slice(ext);
        out.push(Mutant { class: name.to_string(), bytes: v, at: n });
    }
    let mut v = b.v.clone();
    v.extend_from_slice(&r.bytes(64));
    out.push(Mutant { class: "extend64-random".into(), bytes: v, at: n });
    // removal / duplication / swap of containers (blocks, capability sets, AV pairs ...)
    let conts: Vec<Field> = container_fields(b).into_iter().cloned().collect();
    for c in conts.iter() {
        let mut v = b.v.clone();
        v.drain(c.off..c.off + c.len);
        out.push(Mutant { class: format!("remove:{}", c.name), bytes: v, at: c.off });
        let mut v = b.v.clone();
        let dup: Vec<u8> = b.v[c.off..c.off + c.len].to_vec();
        for (i, x) in dup.iter().enumerate() {
            v.insert(c.off + c.len + i, *x);
        }
        out.push(Mutant { class: format!("duplicate:{}", c.name), bytes: v, at: c.off + c.len });
    }
    for i in 0..conts.len() {
        for j in (i + 1)..conts.len() {
            let (a, c) = (&conts[i], &conts[j]);
            if a.off + a.len <= c.off && a.len != 0 && c.len != 0 && (a.len != c.len || b.v[a.off..a.off + a.len] != b.v[c.off..c.off + c.len]) && conts.len() <= 24 {
                let mut v = Vec::with_capacity(n);
                v.extend_from_slice(&b.v[..a.off]);
                v.extend_from_slice(&b.v[c.off..c.off + c.len]);
                v.extend_from_slice(&b.v[a.off + a.len..c.off]);
                v.extend_from_slice(&b.v[a.off..a.off + a.len]);
                v.extend_from_slice(&b.v[c.off + c.len..]);
                out.push(Mutant { class: format!("swap:{}<->{}", a.name, c.name), bytes: v, at: a.off });
            }
        }
    }
    out
}

/// the boundary subset used for pairs of faults
pub fn boundary_subset(b: &B) -> Vec<(usize, Vec<u8>, String)> {
    let mut out = Vec::new();
    for f in leaf_fields(b) {
        match f.len {
            1 => {
                for x in [0u8, 1, 2, 3, 4, 0x7f, 0x80, 0xff].iter() {
                    out.push((f.off, vec![*x], format!("{}={}", f.name, x)));
                }
            }
            2 => {
                for x in [0u16, 1, 3, 4, 0x80, 0xff, 0x7fff, 0xffff].iter() {
                    out.push((f.off, x.to_le_bytes().to_vec(), format!("{}={}le", f.name, x)));
                    out.push((f.off, x.to_be_bytes().to_vec(), format!("{}={}be", f.name, x)));
                }
            }
            4 => {
                for x in [0u32, 1, 7, 0xffff, 0x7fffffff, 0xffffffff].iter() {
                    out.push((f.off, x.to_le_bytes().to_vec(), format!("{}={}", f.name, x)));
                }
            }
            _ => {}
        }
    }
    out
}

pub fn pair_fault(b: &B, subset: &[(usize, Vec<u8>, String)], i: usize, j: usize) -> Option<Mutant> {
    let (a, c) = (&subset[i], &subset[j]);
    if a.0 == c.0 {
        return None;
    }
    let mut v = b.v.clone();
    v[a.0..a.0 + a.1.len()].copy_from_slice(&a.1);
    v[c.0..c.0 + c.1.len()].copy_from_slice(&c.1);
    Some(Mutant { class: format!("pair:{}+{}", a.2, c.2), bytes: v, at: a.0.min(c.0) })
}

/// seeded random corruption: 1..8 byte pokes, or a splice of two valid messages
pub fn random_fault(b: &B, other: Option<&B>, r: &mut Rng) -> Mutant {
    let mut v = b.v.clone();
    if v.is_empty() {
        return Mutant { class: "random:empty".into(), bytes: v, at: 0 };
    }
    match (r.below(5), other) {
        (0, Some(o)) if !o.v.is_empty() => {
            let cut = r.below(v.len() as u64) as usize;
            let from = r.below(o.v.len() as u64) as usize;
            v.truncate(cut);
            v.extend_from_slice(&o.v[from..]);
            Mutant { class: "random:splice".into(), bytes: v, at: cut }
        }
        (1, _) => {
            // poke then fix nothing, plus truncate
            let k = r.below(v.len() as u64) as usize;
            v[k] = r.u8();
            let cut = r.range(k as u64, v.len() as u64) as usize;
            v.truncate(cut);
            Mutant { class: "random:poke+truncate".into(), bytes: v, at: k.min(cut) }
        }
        _ => {
            let n = r.range(1, 8);
            let mut first = v.len();
            for _ in 0..n {
                let k = r.below(v.len() as u64) as usize;
                v[k] = match r.below(4) {
                    0 => 0,
                    1 => 0xff,
                    2 => v[k] ^ (1 << r.below(8)),
                    _ => r.u8(),
                };
                first = first.min(k);
            }
            Mutant { class: "random:pokes".into(), bytes: v, at: first }
        }
    }
}

/// the k-th byte string in the enumeration "" , 1-byte strings, 2-byte strings, ...
pub fn short_string(mut k: u64) -> Vec<u8> {
    let mut len = 0usize;
    let mut count = 1u64;
    while k >= count {
        k -= count;
        len += 1;
        count *= 256;
    }
    let mut v = vec![0u8; len];
    for i in (0..len).rev() {
        v[i] = (k & 0xff) as u8;
        k >>= 8;
    }
    v
}

pub fn short_string_count(max_len: u32) -> u64 {
    (0..=max_len).map(|l| 256u64.pow(l)).sum()
}
