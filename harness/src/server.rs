//! Reference RDP server, reactive and single-threaded: it lives behind an in-memory duplex stream,
//! answers each client write synchronously, parses every client frame strictly and keeps an event
//! log with a logical clock. Fault plans mutate what it sends, either at the innermost layer (outer
//! lengths are then re-computed consistently) or on the final frame (blind poke).

use crate::refs::build::B;
use crate::refs::cssp::{self, PasswordCreds, TsRequest};
use crate::refs::ntlm::{self, Account, AuthResult, Direction};
use crate::refs::proto::{self, ClientMsg, Profile, ShareMsg};
use crate::tls::{self, TlsServer};
use std::collections::VecDeque;
use std::io::{self, Read, Write};
use std::sync::{Arc, Mutex};

#[derive(Clone, Debug)]
pub struct Event {
    pub clock: u64,
    pub msg: ClientMsg,
    pub raw: Vec<u8>,
    /// number of server bytes the client had read when it wrote this message
    pub delivered: usize,
    /// recoverable breaches of strict well-formedness found while parsing this frame
    pub notes: Vec<String>,
}

#[derive(Clone, Copy, Debug, PartialEq, Eq)]
pub enum Wrap {
    /// inner is an X.224 TPDU: add TPKT only
    Tpkt,
    /// inner is an MCS PDU: add X.224 data header and TPKT
    X224,
    /// inner is GCC conference-create-response: wrap in BER Connect-Response, X.224, TPKT
    ConnectResponse,
    /// inner is user data for the I/O channel: MCS send-data-indication, X.224, TPKT
    Sdi,
    /// inner is a sequence of fast-path updates
    FastPath { sec: u8, long: bool },
}

pub type InnerHook = Box<dyn FnMut(&str, &B) -> Option<Vec<u8>> + Send>;
pub type FrameHook = Box<dyn FnMut(&str, &B) -> Option<Vec<u8>> + Send>;

#[derive(Clone, Debug)]
pub struct Sent {
    pub kind: String,
    pub clock: u64,
    /// offset in the server->client byte stream where this message ends
    pub end: usize,
    pub len: usize,
    pub faulted: bool,
}

pub struct ServerState {
    pub profile: Profile,
    pub inbuf: Vec<u8>,
    pub out: VecDeque<u8>,
    pub out_total: usize,
    pub delivered: usize,
    pub events: Vec<Event>,
    pub malformed: Vec<(u64, String, Vec<u8>)>,
    pub sent: Vec<Sent>,
    pub clock: u64,
    pub auto_activate: bool,
    pub auto_finalize: bool,
    pub answer: bool,
    pub inner_hook: Option<InnerHook>,
    pub frame_hook: Option<FrameHook>,
    pub reads: u64,
    pub reads_at_empty: u64,
    pub writes: u64,
    pub bytes_written: usize,
    pub read_chunk: usize,
    pub join_result: Option<(u16, u8)>,
    pub next_share_id: u32,
    pub write_log: Vec<(u64, usize)>,
    pub fail_writes_after: Option<usize>,
    /// at most this many bytes are accepted per write call
    pub write_chunk: usize,
    /// every write fails (BrokenPipe) once the server has parsed this many client frames: 6 = the write that carries the
    /// Client Info PDU
    pub fail_write_when_events: Option<usize>,
    /// what a read finds when nothing is queued: None = end of stream (0 bytes); Some(kind) = that error (a socket with a
    /// receive timeout, or in non-blocking mode, polled while the server is silent)
    pub empty_read_error: Option<io::ErrorKind>,
    /// (start, period >= 2): among the read calls that find data, the start-th and every period-th after it are
    /// interrupted (ErrorKind::Interrupted, nothing consumed), as a signal arriving during read(2) would do
    pub interrupt_reads: Option<(usize, usize)>,
    pub data_reads: usize,
    pub interrupted: usize,
    /// accept the client's pubKeyAuth even when it does not unseal (a server that does not care, or cannot, verify it)
    pub lenient_pubkey: bool,
    /// after a faulted message: end the TLS session in an orderly way (close_notify) and say nothing more
    pub close_after_fault: bool,
    /// plaintext bytes per TLS record when application data is sent
    pub record_chunk: usize,
    /// refuse the n-th write call from now (0 = the next one) with this error, consuming nothing; later calls work
    pub fail_write_once: Option<(usize, io::ErrorKind)>,
    // --- transport security
    pub tls: Option<TlsServer>,
    pub tls_identity: usize,
    pub tls12_only: bool,
    /// start TLS after the connection confirm even if the selected protocol says otherwise / never
    pub tls_policy: TlsPolicy,
    /// every byte the client wrote on the raw transport before TLS was started
    pub raw_pre_tls: Vec<u8>,
    /// every byte the client wrote on the raw transport after TLS was started (ciphertext)
    pub raw_post_tls: Vec<u8>,
    /// decrypted application bytes, in order
    pub plain_in: Vec<u8>,
    pub plain_after_final_reply: usize,
    /// length of raw_post_tls when the final CredSSP reply (or the blind attacker's reply) was handed to the client
    pub raw_mark_final: Option<usize>,
    // --- CredSSP / NTLM
    pub nla: NlaState,
    pub nla_cfg: NlaCfg,
    pub nla_log: NlaLog,
    pub nla_buf: Vec<u8>,
    pub final_hook: Option<FinalHook>,
    pub challenge_hook: Option<ChallengeHook>,
    /// an attacker without the account's secrets: replies to the AUTHENTICATE round without verifying anything
    pub blind_hook: Option<BlindHook>,
}

#[derive(Clone, Copy, Debug, PartialEq, Eq)]
pub enum TlsPolicy {
    /// TLS iff the selected protocol has SSL or Hybrid bits
    BySelection,
    Never,
    Always,
}

pub enum NlaState {
    Off,
    ExpectNegotiate,
    ExpectAuthenticate { negotiate: Vec<u8>, challenge: Vec<u8> },
    ExpectAuthInfo { c2s: Direction },
    Done,
    Failed,
}

#[derive(Clone, Debug)]
pub struct NlaCfg {
    pub account: Account,
    pub challenge_flags: u32,
    pub server_challenge: [u8; 8],
    pub target_name: Vec<u8>,
    pub target_info: Vec<u8>,
    pub ts_version: u64,
}

impl Default for NlaCfg {
    fn default() -> Self {
        let ti = ntlm::av_pairs(&[
            (2, crate::refs::bytes::utf16le("WORKGROUP")),
            (1, crate::refs::bytes::utf16le("SRV")),
            (4, crate::refs::bytes::utf16le("srv.local")),
            (3, crate::refs::bytes::utf16le("srv.local")),
            (7, vec![0x10, 0x32, 0x54, 0x76, 0x98, 0xba, 0xdc, 0x01]),
        ]);
        NlaCfg {
            account: Account { domain: "DOM".into(), user: "user".into(), nt_hash: ntlm::nt_hash("password") },
            challenge_flags: 0xE28A8235,
            server_challenge: [1, 2, 3, 4, 5, 6, 7, 8],
            target_name: crate::refs::bytes::utf16le("SRV"),
            target_info: ti,
            ts_version: 6,
        }
    }
}

#[derive(Default)]
pub struct NlaLog {
    pub ts_requests: Vec<Result<TsRequest, String>>,
    pub negotiate: Option<Vec<u8>>,
    pub negotiate_parse: Option<Result<u32, String>>,
    pub challenge: Option<Vec<u8>>,
    pub authenticate: Option<Vec<u8>>,
    pub auth: Option<Result<AuthResult, String>>,
    pub client_pubkey_plain: Option<Result<Vec<u8>, String>>,
    pub client_pubkey_sealed: Option<Vec<u8>>,
    pub final_reply_sent: Option<Vec<u8>>,
    pub final_reply_honest: bool,
    pub credentials: Option<Result<PasswordCreds, String>>,
    pub auth_info_received: bool,
    pub messages_after_final_reply: usize,
}

pub struct FinalCtx {
    pub honest_reply: Vec<u8>,
    pub honest_plain: Vec<u8>,
    pub session_key: [u8; 16],
    pub subject_public_key: Vec<u8>,
    pub client_sealed_pubkey: Vec<u8>,
    pub client_authenticate_request: Vec<u8>,
    pub ts_version: u64,
}

pub enum FinalAction {
    Send(Vec<u8>),
    /// send in several TLS records
    SendSplit(Vec<Vec<u8>>),
    Close,
}

pub type FinalHook = Box<dyn FnMut(&FinalCtx) -> FinalAction + Send>;

/// what a man in the middle sees of the AUTHENTICATE round
pub struct BlindCtx {
    pub subject_public_key: Vec<u8>,
    pub client_pub_key_auth: Vec<u8>,
    pub client_authenticate_request: Vec<u8>,
    pub ts_version: u64,
}
pub type BlindHook = Box<dyn FnMut(&BlindCtx) -> Vec<u8> + Send>;
/// (NTLM CHALLENGE bytes, honest TSRequest bytes) -> replacement TSRequest bytes
pub type ChallengeHook = Box<dyn FnMut(&[u8], &[u8]) -> Option<Vec<u8>> + Send>;

#[derive(Clone)]
pub struct Duplex(pub Arc<Mutex<ServerState>>);

impl ServerState {
    pub fn new(profile: Profile) -> Self {
        let sid = profile.share_id;
        ServerState {
            profile,
            inbuf: Vec::new(),
            out: VecDeque::new(),
            out_total: 0,
            delivered: 0,
            events: Vec::new(),
            malformed: Vec::new(),
            sent: Vec::new(),
            clock: 0,
            auto_activate: true,
            auto_finalize: true,
            answer: true,
            inner_hook: None,
            frame_hook: None,
            reads: 0,
            reads_at_empty: 0,
            writes: 0,
            bytes_written: 0,
            read_chunk: usize::MAX,
            join_result: None,
            next_share_id: sid,
            write_log: Vec::new(),
            fail_writes_after: None,
            write_chunk: usize::MAX,
            record_chunk: usize::MAX,
            close_after_fault: false,
            lenient_pubkey: false,
            empty_read_error: None,
            interrupt_reads: None,
            data_reads: 0,
            interrupted: 0,
            fail_write_when_events: None,
            fail_write_once: None,
            tls: None,
            tls_identity: 0,
            tls12_only: false,
            tls_policy: TlsPolicy::BySelection,
            raw_pre_tls: Vec::new(),
            raw_post_tls: Vec::new(),
            plain_in: Vec::new(),
            plain_after_final_reply: 0,
            nla: NlaState::Off,
            nla_cfg: NlaCfg::default(),
            nla_log: NlaLog::default(),
            nla_buf: Vec::new(),
            final_hook: None,
            challenge_hook: None,
            blind_hook: None,
            raw_mark_final: None,
        }
    }

    pub fn wrap(&self, inner: &B, wrap: Wrap) -> B {
        match wrap {
            Wrap::Tpkt => proto::tpkt(inner),
            Wrap::X224 => proto::tpkt(&proto::x224_data(inner)),
            Wrap::ConnectResponse => proto::tpkt(&proto::x224_data(&proto::mcs_connect_response(&self.profile, 0, inner))),
            Wrap::Sdi => proto::slow_path_frame(&self.profile, inner),
            Wrap::FastPath { sec, long } => proto::fp_pdu(sec, long, inner),
        }
    }

    /// Send a message: apply the inner hook, wrap, apply the frame hook, queue the bytes.
    pub fn send(&mut self, kind: &str, inner: &B, wrap: Wrap) {
        let mut faulted = false;
        let mut inner_b = inner.clone();
        if let Some(h) = self.inner_hook.as_mut() {
            if let Some(bytes) = h(kind, inner) {
                let mut nb = B::new();
                nb.bytes("faulted", &bytes);
                inner_b = nb;
                faulted = true;
            }
        }
        let frame = self.wrap(&inner_b, wrap);
        let mut bytes = frame.v.clone();
        if let Some(h) = self.frame_hook.as_mut() {
            if let Some(nb) = h(kind, &frame) {
                bytes = nb;
                faulted = true;
            }
        }
        self.push_bytes(kind, &bytes, faulted);
        if faulted && self.close_after_fault {
            self.close_tls();
            self.answer = false;
        }
    }

    pub fn push_bytes(&mut self, kind: &str, bytes: &[u8], faulted: bool) {
        self.clock += 1;
        let wire: Vec<u8> = match self.tls.as_mut() {
            Some(t) if t.is_up() => {
                if self.record_chunk == usize::MAX || bytes.is_empty() {
                    t.seal(bytes)
                } else {
                    let pieces: Vec<&[u8]> = bytes.chunks(self.record_chunk.max(1)).collect();
                    t.seal_records(&pieces)
                }
            }
            Some(_) => Vec::new(), // handshake not finished: cannot send application data
            None => bytes.to_vec(),
        };
        let bytes = &wire[..];
        self.out.extend(bytes.iter());
        self.out_total += bytes.len();
        self.sent.push(Sent { kind: kind.to_string(), clock: self.clock, end: self.out_total, len: bytes.len(), faulted });
    }

    pub fn send_demand_active(&mut self, share_id: u32) {
        let b = proto::demand_active(&self.profile, share_id);
        self.send("demand-active", &b, Wrap::Sdi);
    }

    pub fn send_finalization(&mut self, share_id: u32) {
        let p = self.profile.clone();
        self.send("synchronize", &proto::synchronize(&p, share_id, p.user_id), Wrap::Sdi);
        self.send("control-cooperate", &proto::control(&p, share_id, 4, 0, 0), Wrap::Sdi);
        self.send("control-granted", &proto::control(&p, share_id, 2, p.user_id, p.server_channel as u32), Wrap::Sdi);
        self.send("font-map", &proto::font_map(&p, share_id), Wrap::Sdi);
    }

    /// after the connection confirm: switch the transport to TLS (and CredSSP) as the selection says
    pub fn maybe_start_tls(&mut self) {
        let sel = self.profile.selected_protocol;
        let want = match self.tls_policy {
            TlsPolicy::Never => false,
            TlsPolicy::Always => true,
            TlsPolicy::BySelection => sel & 0x3 != 0 || sel & 0x8 != 0,
        };
        if want && self.tls.is_none() {
            let id = tls::identity(self.tls_identity);
            self.tls = Some(TlsServer::new(&id, self.tls12_only));
            if sel & 0x2 != 0 || sel & 0x8 != 0 {
                self.nla = NlaState::ExpectNegotiate;
            }
        }
    }

    fn send_ts(&mut self, kind: &str, der: &[u8]) {
        self.push_bytes(kind, der, false);
    }

    fn on_ts_request(&mut self, der: Vec<u8>) {
        self.clock += 1;
        let parsed = cssp::parse(&der, true);
        self.nla_log.ts_requests.push(parsed.clone());
        let t = match parsed {
            Ok(t) => t,
            Err(_) => {
                self.nla = NlaState::Failed;
                return;
            }
        };
        let st = std::mem::replace(&mut self.nla, NlaState::Failed);
        match st {
            NlaState::ExpectNegotiate => {
                let neg = match t.nego_tokens.get(0) {
                    Some(n) => n.clone(),
                    None => return,
                };
                self.nla_log.negotiate_parse = Some(ntlm::parse_negotiate(&neg).map(|n| n.flags));
                self.nla_log.negotiate = Some(neg.clone());
                let cfg = self.nla_cfg.clone();
                let chal = ntlm::build_challenge(cfg.challenge_flags, &cfg.server_challenge, &cfg.target_name, &cfg.target_info);
                let honest = cssp::build(&TsRequest { version: cfg.ts_version, nego_tokens: vec![chal.clone()], ..Default::default() });
                let mut out = honest.clone();
                if let Some(h) = self.challenge_hook.as_mut() {
                    if let Some(r) = h(&chal, &honest) {
                        out = r;
                    }
                }
                self.nla_log.challenge = Some(chal.clone());
                self.nla = NlaState::ExpectAuthenticate { negotiate: neg, challenge: chal };
                self.send_ts("ts-challenge", &out);
            }
            NlaState::ExpectAuthenticate { negotiate, challenge } => {
                let auth = match t.nego_tokens.get(0) {
                    Some(n) => n.clone(),
                    None => return,
                };
                self.nla_log.authenticate = Some(auth.clone());
                let cfg = self.nla_cfg.clone();
                if let Some(h) = self.blind_hook.as_mut() {
                    let id = tls::identity(self.tls_identity);
                    let reply = h(&BlindCtx { subject_public_key: id.subject_public_key.clone(), client_pub_key_auth: t.pub_key_auth.clone().unwrap_or_default(), client_authenticate_request: der.clone(), ts_version: cfg.ts_version });
                    self.nla = NlaState::ExpectAuthInfo { c2s: Direction::new(&[0u8; 16], true) };
                    self.plain_after_final_reply = 0;
                    self.nla_log.final_reply_honest = false;
                    self.nla_log.final_reply_sent = Some(reply.clone());
                    self.raw_mark_final = Some(self.raw_post_tls.len());
                    self.send_ts("ts-blind-reply", &reply);
                    return;
                }
                let res = ntlm::verify_authenticate(&negotiate, &challenge, &auth, &cfg.server_challenge, cfg.challenge_flags, &cfg.target_info, &cfg.account);
                self.nla_log.auth = Some(res.clone());
                let ar = match res {
                    Ok(a) => a,
                    Err(_) => return,
                };
                let mut c2s = Direction::new(&ar.exported_session_key, true);
                let mut s2c = Direction::new(&ar.exported_session_key, false);
                let sealed = t.pub_key_auth.clone().unwrap_or_default();
                self.nla_log.client_pubkey_sealed = Some(sealed.clone());
                let id = tls::identity(self.tls_identity);
                let plain = c2s.unwrap(&sealed);
                self.nla_log.client_pubkey_plain = Some(plain.clone());
                match &plain {
                    Ok(p) if *p == id.subject_public_key => {}
                    _ if self.lenient_pubkey => {}
                    _ => return,
                }
                let honest_plain = cssp::le_increment(&id.subject_public_key);
                let honest_reply = cssp::build(&TsRequest { version: cfg.ts_version, pub_key_auth: Some(s2c.wrap(&honest_plain)), ..Default::default() });
                let ctx = FinalCtx {
                    honest_reply: honest_reply.clone(),
                    honest_plain,
                    session_key: ar.exported_session_key,
                    subject_public_key: id.subject_public_key.clone(),
                    client_sealed_pubkey: sealed,
                    client_authenticate_request: der.clone(),
                    ts_version: cfg.ts_version,
                };
                let action = match self.final_hook.as_mut() {
                    Some(h) => h(&ctx),
                    None => FinalAction::Send(honest_reply.clone()),
                };
                self.nla = NlaState::ExpectAuthInfo { c2s };
                self.plain_after_final_reply = 0;
                self.raw_mark_final = Some(self.raw_post_tls.len());
                match action {
                    FinalAction::Send(b) => {
                        self.nla_log.final_reply_honest = b == honest_reply;
                        self.nla_log.final_reply_sent = Some(b.clone());
                        self.send_ts("ts-pubkeyauth", &b);
                    }
                    FinalAction::SendSplit(parts) => {
                        let all: Vec<u8> = parts.concat();
                        self.nla_log.final_reply_honest = all == honest_reply;
                        self.nla_log.final_reply_sent = Some(all);
                        for p in parts {
                            self.send_ts("ts-pubkeyauth-part", &p);
                        }
                    }
                    FinalAction::Close => {
                        self.nla_log.final_reply_sent = Some(Vec::new());
                        self.close_tls();
                    }
                }
            }
            NlaState::ExpectAuthInfo { mut c2s } => {
                self.nla_log.auth_info_received = true;
                if let Some(ai) = &t.auth_info {
                    let r = c2s.unwrap(ai).and_then(|p| cssp::parse_ts_credentials(&p));
                    self.nla_log.credentials = Some(r);
                }
                self.nla = NlaState::Done;
            }
            other => {
                self.nla = other;
            }
        }
    }

    pub fn close_tls(&mut self) {
        if let Some(t) = self.tls.as_mut() {
            let ct = t.close_notify();
            self.out.extend(ct.iter());
            self.out_total += ct.len();
        }
    }

    fn handle_plain(&mut self, data: &[u8]) {
        self.plain_in.extend_from_slice(data);
        if matches!(self.nla, NlaState::ExpectAuthInfo { .. }) {
            self.plain_after_final_reply += data.len();
        }
        let in_nla = matches!(self.nla, NlaState::ExpectNegotiate | NlaState::ExpectAuthenticate { .. } | NlaState::ExpectAuthInfo { .. });
        if in_nla {
            self.nla_buf.extend_from_slice(data);
            loop {
                let still = matches!(self.nla, NlaState::ExpectNegotiate | NlaState::ExpectAuthenticate { .. } | NlaState::ExpectAuthInfo { .. });
                if !still {
                    break;
                }
                match cssp::element_len(&self.nla_buf) {
                    Some(n) if n <= self.nla_buf.len() => {
                        let der: Vec<u8> = self.nla_buf.drain(..n).collect();
                        self.on_ts_request(der);
                    }
                    Some(n) if n == usize::MAX => {
                        let junk = std::mem::take(&mut self.nla_buf);
                        self.nla_log.ts_requests.push(Err(format!("undecodable TSRequest header {:02x?}", &junk[..junk.len().min(8)])));
                        self.nla = NlaState::Failed;
                    }
                    _ => break,
                }
            }
            // whatever follows a completed CredSSP exchange is RDP
            if matches!(self.nla, NlaState::Done) && !self.nla_buf.is_empty() {
                let rest = std::mem::take(&mut self.nla_buf);
                self.handle_tpkt(&rest);
            }
            return;
        }
        self.handle_tpkt(data);
    }

    fn handle_tpkt(&mut self, data: &[u8]) {
        self.inbuf.extend_from_slice(data);
        loop {
            let (frames, used, err) = proto::split_tpkt(&self.inbuf);
            if let Some(e) = err {
                let junk = self.inbuf.clone();
                let c = self.clock;
                self.malformed.push((c, format!("framing: {}", e), junk));
                self.inbuf.clear();
                break;
            }
            if frames.is_empty() {
                break;
            }
            self.inbuf.drain(..used);
            for f in frames {
                self.on_frame(f);
            }
        }
    }

    /// entry point for every byte the client writes on the raw transport
    pub fn client_wrote(&mut self, buf: &[u8]) {
        if self.tls.is_some() {
            self.raw_post_tls.extend_from_slice(buf);
            let (plain, ct) = self.tls.as_mut().unwrap().feed(buf);
            self.out.extend(ct.iter());
            self.out_total += ct.len();
            if !plain.is_empty() {
                self.handle_plain(&plain);
            }
        } else {
            self.raw_pre_tls.extend_from_slice(buf);
            self.handle_plain(buf);
        }
    }

    fn on_frame(&mut self, frame: Vec<u8>) {
        self.clock += 1;
        let parsed = proto::parse_client_frame(&frame);
        let (msg, notes) = match parsed {
            Ok(m) => m,
            Err(e) => {
                self.malformed.push((self.clock, e, frame));
                return;
            }
        };
        self.events.push(Event { clock: self.clock, msg: msg.clone(), raw: frame, delivered: self.delivered, notes });
        if !self.answer {
            return;
        }
        let p = self.profile.clone();
        match msg {
            ClientMsg::ConnectionRequest { .. } => {
                let b = proto::connection_confirm(2, p.cc_flags, p.selected_protocol);
                self.send("connection-confirm", &b, Wrap::Tpkt);
                self.maybe_start_tls();
            }
            ClientMsg::ConnectInitial { .. } => {
                let blocks = proto::gcc_blocks(&p);
                let ccr = proto::conference_create_response(&p, &blocks);
                self.send("connect-response", &ccr, Wrap::ConnectResponse);
            }
            ClientMsg::ErectDomain => {}
            ClientMsg::AttachUser => {
                self.send("attach-user-confirm", &proto::attach_user_confirm(0, p.user_id), Wrap::X224);
            }
            ClientMsg::ChannelJoin { initiator, channel } => {
                let mut result = 0;
                if let Some((c, r)) = self.join_result {
                    if c == channel {
                        result = r;
                    }
                }
                self.send("channel-join-confirm", &proto::channel_join_confirm(result, initiator, channel, true), Wrap::X224);
            }
            ClientMsg::ClientInfo { .. } => {
                self.send("license", &proto::license_pdu_with(&p.license, p.license_sec_flags), Wrap::Sdi);
                if self.auto_activate {
                    let sid = self.next_share_id;
                    self.send_demand_active(sid);
                }
            }
            ClientMsg::Share { msg: ShareMsg::FontList { share_id }, .. } => {
                if self.auto_finalize {
                    self.send_finalization(share_id);
                }
            }
            _ => {}
        }
    }
}

impl Duplex {
    pub fn new(profile: Profile) -> Self {
        Duplex(Arc::new(Mutex::new(ServerState::new(profile))))
    }
    pub fn with<T>(&self, f: impl FnOnce(&mut ServerState) -> T) -> T {
        let mut g = self.0.lock().unwrap();
        f(&mut g)
    }
}

impl Read for Duplex {
    fn read(&mut self, buf: &mut [u8]) -> io::Result<usize> {
        crate::mon::stack_probe();
        crate::mon::suspended(|| self.read_inner(buf))
    }
}

impl Duplex {
    fn read_inner(&mut self, buf: &mut [u8]) -> io::Result<usize> {
        let mut s = self.0.lock().unwrap();
        s.reads += 1;
        if s.out.is_empty() {
            s.reads_at_empty += 1;
            if let Some(kind) = s.empty_read_error {
                return Err(io::Error::new(kind, "nothing to read right now"));
            }
            return Ok(0);
        }
        if let Some((start, period)) = s.interrupt_reads {
            let k = s.data_reads;
            s.data_reads += 1;
            if k >= start && (k - start) % period.max(2) == 0 {
                s.interrupted += 1;
                return Err(io::Error::new(io::ErrorKind::Interrupted, "injected: interrupted system call"));
            }
        }
        let n = buf.len().min(s.out.len()).min(s.read_chunk.max(1));
        for b in buf.iter_mut().take(n) {
            *b = s.out.pop_front().unwrap();
        }
        s.delivered += n;
        Ok(n)
    }
}

impl Write for Duplex {
    fn write(&mut self, buf: &[u8]) -> io::Result<usize> {
        crate::mon::stack_probe();
        crate::mon::suspended(|| self.write_inner(buf))
    }
    fn flush(&mut self) -> io::Result<()> {
        Ok(())
    }
}

impl Duplex {
    fn write_inner(&mut self, buf: &[u8]) -> io::Result<usize> {
        let mut s = self.0.lock().unwrap();
        s.writes += 1;
        if let Some(limit) = s.fail_writes_after {
            if s.bytes_written >= limit {
                return Err(io::Error::new(io::ErrorKind::BrokenPipe, "injected"));
            }
        }
        if let Some(k) = s.fail_write_when_events {
            if s.events.len() >= k {
                return Err(io::Error::new(io::ErrorKind::BrokenPipe, "injected: the transport died"));
            }
        }
        if let Some((n, kind)) = s.fail_write_once {
            if n == 0 {
                s.fail_write_once = None;
                return Err(io::Error::new(kind, "injected transient refusal"));
            }
            s.fail_write_once = Some((n - 1, kind));
        }
        let buf = &buf[..buf.len().min(s.write_chunk.max(1))];
        s.bytes_written += buf.len();
        let clk = s.clock;
        s.write_log.push((clk, buf.len()));
        s.client_wrote(buf);
        Ok(buf.len())
    }
}
