//! Deterministic generator: every random choice in the harness derives from VERIF_SEED.

#[derive(Clone)]
pub struct Rng(pub u64);

pub fn mix(mut z: u64) -> u64 {
    z = z.wrapping_add(0x9E3779B97F4A7C15);
    z = (z ^ (z >> 30)).wrapping_mul(0xBF58476D1CE4E5B9);
    z = (z ^ (z >> 27)).wrapping_mul(0x94D049BB133111EB);
    z ^ (z >> 31)
}

pub fn fnv(data: &[u8]) -> u64 {
    let mut h: u64 = 0xcbf29ce484222325;
    for b in data {
        h ^= *b as u64;
        h = h.wrapping_mul(0x100000001b3);
    }
    h
}

pub fn fnv_str(s: &str) -> u64 {
    fnv(s.as_bytes())
}

impl Rng {
    pub fn new(seed: u64) -> Self {
        Rng(mix(seed ^ 0xA5A5_5A5A_1234_5678))
    }
    /// independent stream for (seed, tag, a, b)
    pub fn derive(seed: u64, tag: &str, a: u64, b: u64) -> Self {
        Rng(mix(mix(mix(seed) ^ fnv_str(tag)) ^ mix(a).rotate_left(17) ^ mix(b ^ 0x5555).rotate_left(41)))
    }
    pub fn next(&mut self) -> u64 {
        self.0 = self.0.wrapping_add(0x9E3779B97F4A7C15);
        let mut z = self.0;
        z = (z ^ (z >> 30)).wrapping_mul(0xBF58476D1CE4E5B9);
        z = (z ^ (z >> 27)).wrapping_mul(0x94D049BB133111EB);
        z ^ (z >> 31)
    }
    pub fn below(&mut self, n: u64) -> u64 {
        if n == 0 {
            0
        } else {
            self.next() % n
        }
    }
    pub fn range(&mut self, lo: u64, hi_incl: u64) -> u64 {
        lo + self.below(hi_incl - lo + 1)
    }
    pub fn chance(&mut self, num: u64, den: u64) -> bool {
        self.below(den) < num
    }
    pub fn u8(&mut self) -> u8 {
        self.next() as u8
    }
    pub fn u16(&mut self) -> u16 {
        self.next() as u16
    }
    pub fn u32(&mut self) -> u32 {
        self.next() as u32
    }
    pub fn bytes(&mut self, n: usize) -> Vec<u8> {
        let mut v = Vec::with_capacity(n);
        while v.len() < n {
            let x = self.next().to_le_bytes();
            let k = (n - v.len()).min(8);
            v.extend_from_slice(&x[..k]);
        }
        v
    }
    pub fn pick<'a, T>(&mut self, xs: &'a [T]) -> &'a T {
        &xs[self.below(xs.len() as u64) as usize]
    }
    /// boundary-biased u16
    pub fn edge16(&mut self) -> u16 {
        const E: [u16; 18] = [0, 1, 2, 3, 4, 7, 8, 0x7f, 0x80, 0xff, 0x100, 0x3fff, 0x4000, 0x7fff, 0x8000, 0xfffe, 0xffff, 1003];
        if self.chance(1, 2) {
            *self.pick(&E)
        } else {
            self.u16()
        }
    }
    pub fn edge32(&mut self) -> u32 {
        const E: [u32; 14] = [0, 1, 2, 0x7f, 0x80, 0xff, 0x100, 0xffff, 0x10000, 0x7fffffff, 0x80000000, 0xfffffffe, 0xffffffff, 0x00080004];
        if self.chance(1, 2) {
            *self.pick(&E)
        } else {
            self.u32()
        }
    }
}

pub fn hex(b: &[u8]) -> String {
    let mut s = String::with_capacity(b.len() * 2);
    for x in b {
        s.push_str(&format!("{:02x}", x));
    }
    s
}

pub fn unhex(s: &str) -> Vec<u8> {
    let s = s.as_bytes();
    let mut v = Vec::with_capacity(s.len() / 2);
    let mut i = 0;
    while i + 1 < s.len() {
        let h = (s[i] as char).to_digit(16).unwrap_or(0) as u8;
        let l = (s[i + 1] as char).to_digit(16).unwrap_or(0) as u8;
        v.push(h << 4 | l);
        i += 2;
    }
    v
}
