fn main() {
    rdpverif::cli(&rdpverif::run_property, &rdpverif::replay_property);
}
