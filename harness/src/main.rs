use rdpverif::{mon, Cfg, Tier};
use serde_json::json;
use std::io::Write;

fn main() {
    let args: Vec<String> = std::env::args().collect();
    if args.len() < 2 {
        eprintln!("usage: rdpverif <Cxx> [--tier quick|thorough] [--seed N] [--threads N] [--out file] [--replay file] [--scale f]");
        std::process::exit(2);
    }
    let prop = args[1].clone();
    let mut tier = Tier::Quick;
    let mut seed: u64 = 1;
    let mut threads: usize = 16;
    let mut out: Option<String> = None;
    let mut replay: Option<String> = None;
    let mut scale = 1.0f64;
    let mut only_class: Option<u64> = None;
    let mut cpu_limit = 20u64;
    let mut wall_limit = 3 * 3600u64;
    let mut i = 2;
    while i < args.len() {
        let v = args.get(i + 1).cloned().unwrap_or_default();
        match args[i].as_str() {
            "--tier" => tier = if v == "thorough" { Tier::Thorough } else { Tier::Quick },
            "--seed" => seed = v.parse().unwrap_or(1),
            "--threads" => threads = v.parse().unwrap_or(16),
            "--out" => out = Some(v),
            "--replay" => replay = Some(v),
            "--scale" => scale = v.parse().unwrap_or(1.0),
            "--only-class" => only_class = v.parse().ok(),
            "--verbose" => {
                mon::set_quiet(false);
                i -= 1;
            }
            "--cpu-limit" => cpu_limit = v.parse().unwrap_or(20),
            "--wall-limit" => wall_limit = v.parse().unwrap_or(10800),
            x => {
                eprintln!("unknown arg {}", x);
                std::process::exit(2);
            }
        }
        i += 2;
    }
    let cfg = Cfg {
        prop: prop.clone(),
        tier,
        seed,
        threads,
        profile: if cfg!(debug_assertions) { "dbg".into() } else { "rel".into() },
        scale,
        only_class,
    };
    // an empty trust store: 'untrusted certificate' is then deterministic and building a TLS connector is cheap
    std::env::set_var("SSL_CERT_FILE", "/dev/null");
    std::env::set_var("SSL_CERT_DIR", "/nonexistent-rdpverif");
    mon::install_panic_hook();
    mon::install_death_recorder(2);
    mon::start_watchdog(cpu_limit, wall_limit);
    let t0 = std::time::Instant::now();
    let rep = if let Some(path) = replay {
        // the replayed case runs on this thread: put it under the CPU watchdog and the death recorder
        mon::register_thread(0);
        mon::begin_case(0, 0, 0, 0);
        let txt = std::fs::read_to_string(&path).expect("read replay file");
        let v: serde_json::Value = serde_json::from_str(&txt).expect("parse replay file");
        let case = v.get("replay").cloned().unwrap_or(v);
        rdpverif::replay_property(&cfg, &case)
    } else {
        rdpverif::run_property(&cfg)
    };
    let rep = match rep {
        Some(r) => r,
        None => {
            eprintln!("unknown property {}", prop);
            std::process::exit(2);
        }
    };
    let mut j = rep.to_json();
    j["property"] = json!(prop);
    j["profile"] = json!(cfg.profile);
    j["seed"] = json!(seed);
    j["tier"] = json!(if tier == Tier::Quick { "quick" } else { "thorough" });
    j["wall_s"] = json!(t0.elapsed().as_secs_f64());
    let s = serde_json::to_string(&j).unwrap();
    match out {
        Some(p) => {
            let mut f = std::fs::File::create(&p).expect("create out");
            f.write_all(s.as_bytes()).unwrap();
        }
        None => println!("{}", s),
    }
    // the library under test prints diagnostics to stdout; the verdict travels in the JSON only
    std::process::exit(0);
}
