//! Opening sessions with the real RdpClient against the reactive reference server.

use crate::client::{self, Client, ConnCfg};
use crate::refs::build::B;
use crate::refs::proto::{self, Profile};
use crate::server::{Duplex, Wrap};
use rdp::core::event::RdpEvent;

pub struct Session {
    pub client: Client,
    pub server: Duplex,
    pub profile: Profile,
}

/// Connect through Connector::connect over TLS (SSL selected, no NLA, EC certificate: the cheapest
/// real path to an RdpClient). The server does not start the activation by itself.
pub fn open_real(profile: Profile, manual: bool) -> Result<Session, String> {
    open_real_layout(profile, manual, ConnCfg::default().layout)
}

/// the same with the client configured for another keyboard layout
pub fn open_real_layout(mut profile: Profile, manual: bool, layout: u32) -> Result<Session, String> {
    profile.selected_protocol = 1;
    let d = Duplex::new(profile.clone());
    d.with(|s| {
        s.tls_identity = 2;
        s.auto_activate = !manual;
        s.auto_finalize = !manual;
    });
    let mut cfg = ConnCfg::default();
    cfg.nla = false;
    cfg.name = "c".into();
    cfg.layout = layout;
    let client = client::connect_real(&cfg, d.clone()).map_err(|e| client::err_kind(&e))?;
    Ok(Session { client, server: d, profile })
}

pub fn open_plain(profile: Profile, manual: bool) -> Result<Session, String> {
    open_plain_layout(profile, manual, ConnCfg::default().layout)
}

pub fn open_plain_layout(mut profile: Profile, manual: bool, layout: u32) -> Result<Session, String> {
    profile.selected_protocol = 0;
    let d = Duplex::new(profile.clone());
    d.with(|s| {
        s.auto_activate = !manual;
        s.auto_finalize = !manual;
    });
    let mut cfg = ConnCfg::default();
    cfg.nla = false;
    cfg.layout = layout;
    let client = client::connect_plain(&cfg, d.clone()).map_err(|e| client::err_kind(&e))?;
    Ok(Session { client, server: d, profile })
}

impl Session {
    /// drive the client through a complete activation (server in automatic mode)
    pub fn activate(&mut self) -> Result<(), String> {
        for _ in 0..5 {
            self.client.read(|_| {}).map_err(|e| client::err_kind(&e))?;
        }
        Ok(())
    }
    pub fn push(&self, kind: &str, b: &B, w: Wrap) {
        self.server.with(|s| s.send(kind, b, w));
    }
    pub fn push_slow(&self, kind: &str, pdu: &B) {
        self.push(kind, pdu, Wrap::Sdi);
    }
    pub fn events_len(&self) -> usize {
        self.server.with(|s| s.events.len() + s.malformed.len())
    }
    pub fn read_collect(&mut self) -> (Result<(), String>, Vec<rdp::core::event::BitmapEvent>) {
        let mut got = Vec::new();
        let r = self.client.read(|e| {
            if let RdpEvent::Bitmap(b) = e {
                got.push(b)
            }
        });
        (r.map_err(|e| client::err_kind(&e)), got)
    }
}

pub fn full_profile() -> Profile {
    let mut p = Profile::default();
    p.caps = proto::general_caps();
    p
}
