//! Independent reference codecs for RDP bitmap streams (written from MS-RDPBCGR 2.2.9.1.1.3.1.2.4
//! "RLE Compressed Bitmap Stream" and MS-RDPEGDI 2.2.2.5.1 "RDP 6.0 planar"); shares no code with
//! rdp::codec. Encoders are *choice driven*: every decision (order type, length, length form, split)
//! is delegated to a `Chooser`, so the same code enumerates all encodings of a tiny image or samples
//! random encodings of a big one.

use crate::rng::Rng;

pub trait Chooser {
    /// pick a value in 0..n (n >= 1)
    fn choose(&mut self, n: usize) -> usize;
}

impl Chooser for Rng {
    fn choose(&mut self, n: usize) -> usize {
        self.below(n as u64) as usize
    }
}

/// Odometer over choice sequences: enumerates every path of a finite choice tree depth first.
pub struct Enumerator {
    pub trail: Vec<(usize, usize)>,
    pos: usize,
}

impl Enumerator {
    pub fn new() -> Self {
        Enumerator { trail: Vec::new(), pos: 0 }
    }
    /// prepare the next path; false when the tree is exhausted
    pub fn advance(&mut self) -> bool {
        while let Some((c, n)) = self.trail.pop() {
            if c + 1 < n {
                self.trail.push((c + 1, n));
                self.pos = 0;
                return true;
            }
        }
        false
    }
    pub fn restart(&mut self) {
        self.pos = 0;
    }
}

impl Chooser for Enumerator {
    fn choose(&mut self, n: usize) -> usize {
        if self.pos < self.trail.len() {
            let (c, _) = self.trail[self.pos];
            self.pos += 1;
            c
        } else {
            self.trail.push((0, n));
            self.pos += 1;
            0
        }
    }
}

// ------------------------------------------------------------------------------------------
// colour expansion

/// exact rounding of a 5-6-5 pixel to B,G,R,A bytes
pub fn expand565(v: u16) -> [u8; 4] {
    let r5 = ((v >> 11) & 0x1f) as u32;
    let g6 = ((v >> 5) & 0x3f) as u32;
    let b5 = (v & 0x1f) as u32;
    let r = (r5 * 255 * 2 + 31) / (31 * 2);
    let g = (g6 * 255 * 2 + 63) / (63 * 2);
    let b = (b5 * 255 * 2 + 31) / (31 * 2);
    [b as u8, g as u8, r as u8, 0xff]
}

pub fn expand565_image(img: &[u16]) -> Vec<u8> {
    let mut out = Vec::with_capacity(img.len() * 4);
    for p in img {
        out.extend_from_slice(&expand565(*p));
    }
    out
}

// ------------------------------------------------------------------------------------------
// interleaved RLE, 16 bpp

#[derive(Clone, Copy, Debug, PartialEq, Eq)]
pub enum Kind {
    Bg,
    Fg,
    FgBg,
    ColorRun,
    ColorImage,
    SetFgFg,
    SetFgFgBg,
    Dithered,
    Special1,
    Special2,
    White,
    Black,
}

impl Kind {
    pub fn name(&self) -> &'static str {
        match self {
            Kind::Bg => "bg",
            Kind::Fg => "fg",
            Kind::FgBg => "fgbg",
            Kind::ColorRun => "crun",
            Kind::ColorImage => "cimg",
            Kind::SetFgFg => "setfg",
            Kind::SetFgFgBg => "setfgbg",
            Kind::Dithered => "dith",
            Kind::Special1 => "sp1",
            Kind::Special2 => "sp2",
            Kind::White => "white",
            Kind::Black => "black",
        }
    }
}

fn put16(out: &mut Vec<u8>, v: u16) {
    out.push(v as u8);
    out.push((v >> 8) as u8);
}

/// Emit the order header for (kind, len) choosing among the forms that can express `len`.
/// `len` is pixels, except for Dithered where it is pairs.
fn emit_header(out: &mut Vec<u8>, kind: Kind, len: usize, ch: &mut dyn Chooser, forms: &mut Vec<&'static str>) {
    // (regular code, lite code, mega-mega code)
    let (reg, lite, mega): (Option<u8>, Option<u8>, u8) = match kind {
        Kind::Bg => (Some(0x00), None, 0xF0),
        Kind::Fg => (Some(0x20), None, 0xF1),
        Kind::FgBg => (Some(0x40), None, 0xF2),
        Kind::ColorRun => (Some(0x60), None, 0xF3),
        Kind::ColorImage => (Some(0x80), None, 0xF4),
        Kind::SetFgFg => (None, Some(0xC0), 0xF6),
        Kind::SetFgFgBg => (None, Some(0xD0), 0xF7),
        Kind::Dithered => (None, Some(0xE0), 0xF8),
        Kind::Special1 => {
            out.push(0xF9);
            forms.push("special");
            return;
        }
        Kind::Special2 => {
            out.push(0xFA);
            forms.push("special");
            return;
        }
        Kind::White => {
            out.push(0xFD);
            forms.push("special");
            return;
        }
        Kind::Black => {
            out.push(0xFE);
            forms.push("special");
            return;
        }
    };
    let is_fgbg = matches!(kind, Kind::FgBg | Kind::SetFgFgBg);
    // candidate forms: 0 = short, 1 = mega (one extension byte), 2 = mega-mega
    let mut cands: Vec<u8> = Vec::new();
    if let Some(_) = reg {
        if is_fgbg {
            if len % 8 == 0 && len / 8 >= 1 && len / 8 <= 31 {
                cands.push(0);
            }
            if len >= 1 && len <= 256 {
                cands.push(1);
            }
        } else {
            if len >= 1 && len <= 31 {
                cands.push(0);
            }
            if len >= 32 && len <= 287 {
                cands.push(1);
            }
        }
    }
    if let Some(_) = lite {
        if is_fgbg {
            if len % 8 == 0 && len / 8 >= 1 && len / 8 <= 15 {
                cands.push(0);
            }
            if len >= 1 && len <= 256 {
                cands.push(1);
            }
        } else {
            if len >= 1 && len <= 15 {
                cands.push(0);
            }
            if len >= 16 && len <= 271 {
                cands.push(1);
            }
        }
    }
    if len >= 1 && len <= 65535 {
        cands.push(2);
    }
    let f = cands[ch.choose(cands.len())];
    let base = reg.or(lite).unwrap();
    match f {
        0 => {
            forms.push("short");
            let l = if is_fgbg { len / 8 } else { len };
            out.push(base | l as u8);
        }
        1 => {
            forms.push("mega");
            out.push(base);
            let ext = if is_fgbg {
                len - 1
            } else if reg.is_some() {
                len - 32
            } else {
                len - 16
            };
            out.push(ext as u8);
        }
        _ => {
            forms.push("megamega");
            out.push(mega);
            put16(out, len as u16);
        }
    }
}

pub struct EncodeTrace {
    pub kinds: Vec<Kind>,
    pub forms: Vec<&'static str>,
}

/// Encode a top-down 16 bpp image (w*h pixels, w,h >= 1) as an interleaved RLE stream.
/// `max_len` bounds individual order lengths (keeps enumeration finite and exercises splits).
pub fn encode_rle16(img: &[u16], w: usize, h: usize, ch: &mut dyn Chooser, max_len: usize) -> (Vec<u8>, EncodeTrace) {
    assert!(img.len() == w * h && w >= 1 && h >= 1);
    // scanline order: bottom row first
    let mut s: Vec<u16> = Vec::with_capacity(w * h);
    for y in (0..h).rev() {
        s.extend_from_slice(&img[y * w..(y + 1) * w]);
    }
    let total = w * h;
    let mut out = Vec::new();
    let mut tr = EncodeTrace { kinds: Vec::new(), forms: Vec::new() };
    let mut fg: u16 = 0xffff;
    let mut p = 0usize;
    let mut last_bg = false;
    let bgval = |s: &Vec<u16>, q: usize| -> u16 {
        if q < w {
            0
        } else {
            s[q - w]
        }
    };
    while p < total {
        let first_line = p < w;
        // never let an order cross the end of the first scanline (decoders of record disagree there)
        let limit = (if first_line { w - p } else { total - p }).min(max_len.max(1));
        // how far does each kind apply?
        let mut n_bg = 0;
        while n_bg < limit && s[p + n_bg] == bgval(&s, p + n_bg) {
            n_bg += 1;
        }
        let fgval = |s: &Vec<u16>, q: usize, f: u16| -> u16 { bgval(s, q) ^ f };
        let mut n_fg = 0;
        while n_fg < limit && s[p + n_fg] == fgval(&s, p + n_fg, fg) {
            n_fg += 1;
        }
        let newfg = s[p] ^ bgval(&s, p);
        let mut n_setfg = 0;
        while n_setfg < limit && s[p + n_setfg] == fgval(&s, p + n_setfg, newfg) {
            n_setfg += 1;
        }
        let fgbg_len = |f: u16| -> usize {
            let mut n = 0;
            while n < limit && (s[p + n] == bgval(&s, p + n) || s[p + n] == fgval(&s, p + n, f)) {
                n += 1;
            }
            n
        };
        let n_fgbg = fgbg_len(fg);
        // for set-fgbg pick the fg from the first non-background pixel in range (or arbitrary)
        let mut setfgbg_fg = newfg;
        for q in 0..limit {
            if s[p + q] != bgval(&s, p + q) {
                setfgbg_fg = s[p + q] ^ bgval(&s, p + q);
                break;
            }
        }
        let n_setfgbg = fgbg_len(setfgbg_fg);
        let mut n_crun = 1;
        while n_crun < limit && s[p + n_crun] == s[p] {
            n_crun += 1;
        }
        let mut n_dith = 0; // pairs
        if limit >= 2 {
            let (a, b) = (s[p], s[p + 1]);
            while 2 * n_dith + 1 < limit && s[p + 2 * n_dith] == a && s[p + 2 * n_dith + 1] == b {
                n_dith += 1;
            }
        }
        let special = |mask: u8| -> bool {
            if limit < 8 {
                return false;
            }
            for i in 0..8 {
                let want = if mask >> i & 1 == 1 { fgval(&s, p + i, fg) } else { bgval(&s, p + i) };
                if s[p + i] != want {
                    return false;
                }
            }
            true
        };

        let mut cands: Vec<(Kind, usize)> = Vec::new();
        if last_bg {
            // a background run directly after a background run paints one foreground pixel first;
            // usable only when that is what the image has, and never at the first-scanline seam
            if p != w && s[p] == fgval(&s, p, fg) {
                let mut n = 1;
                while n < limit && s[p + n] == bgval(&s, p + n) {
                    n += 1;
                }
                cands.push((Kind::Bg, n));
            } else if p == w && n_bg >= 1 {
                // the seam: a background run that ended exactly at the end of the first scan line is followed by a
                // background run WITHOUT the foreground pixel (rdesktop: `!(x == width && prevline == NULL)`; FreeRDP resets
                // its insert flag when the first line is complete)
                cands.push((Kind::Bg, n_bg));
            }
        } else if n_bg >= 1 {
            cands.push((Kind::Bg, n_bg));
        }
        if n_fg >= 1 {
            cands.push((Kind::Fg, n_fg));
        }
        if n_setfg >= 1 {
            cands.push((Kind::SetFgFg, n_setfg));
        }
        if n_fgbg >= 1 {
            cands.push((Kind::FgBg, n_fgbg));
        }
        if n_setfgbg >= 1 {
            cands.push((Kind::SetFgFgBg, n_setfgbg));
        }
        cands.push((Kind::ColorRun, n_crun));
        cands.push((Kind::ColorImage, limit));
        if n_dith >= 1 {
            cands.push((Kind::Dithered, n_dith));
        }
        if special(0x03) {
            cands.push((Kind::Special1, 8));
        }
        if special(0x05) {
            cands.push((Kind::Special2, 8));
        }
        if s[p] == 0xffff {
            cands.push((Kind::White, 1));
        }
        if s[p] == 0 {
            cands.push((Kind::Black, 1));
        }
        let (kind, maxn) = cands[ch.choose(cands.len())];
        let fixed = matches!(kind, Kind::Special1 | Kind::Special2 | Kind::White | Kind::Black);
        // length: bias towards the maximum but allow every split
        let len = if fixed {
            maxn
        } else {
            let min = if kind == Kind::Bg && last_bg { 1 } else { 1 };
            let k = ch.choose(maxn - min + 1 + 1);
            if k > maxn - min {
                maxn
            } else {
                min + k
            }
        };
        emit_header(&mut out, kind, len, ch, &mut tr.forms);
        tr.kinds.push(kind);
        match kind {
            Kind::Bg => {
                p += len;
            }
            Kind::Fg => {
                p += len;
            }
            Kind::SetFgFg => {
                fg = newfg;
                put16(&mut out, fg);
                p += len;
            }
            Kind::FgBg | Kind::SetFgFgBg => {
                if kind == Kind::SetFgFgBg {
                    fg = setfgbg_fg;
                    put16(&mut out, fg);
                }
                let mut i = 0;
                while i < len {
                    let mut m = 0u8;
                    for b in 0..8 {
                        if i + b < len {
                            let q = p + i + b;
                            let is_fg = s[q] != bgval(&s, q) || (fg == 0 && ch.choose(2) == 1);
                            if is_fg {
                                m |= 1 << b;
                            }
                        } else if ch.choose(2) == 1 {
                            // padding bits beyond the run are don't-care
                            m |= 1 << b;
                        }
                    }
                    out.push(m);
                    i += 8;
                }
                p += len;
            }
            Kind::ColorRun => {
                put16(&mut out, s[p]);
                p += len;
            }
            Kind::ColorImage => {
                for i in 0..len {
                    put16(&mut out, s[p + i]);
                }
                p += len;
            }
            Kind::Dithered => {
                put16(&mut out, s[p]);
                put16(&mut out, s[p + 1]);
                p += 2 * len;
            }
            Kind::Special1 | Kind::Special2 => {
                p += 8;
            }
            Kind::White | Kind::Black => {
                p += 1;
            }
        }
        last_bg = kind == Kind::Bg;
    }
    (out, tr)
}

/// Reference decoder for the streams the encoder above can produce (and any conformant stream that
/// avoids the two excluded corners). Returns the image top-down.
pub fn decode_rle16(data: &[u8], w: usize, h: usize) -> Result<Vec<u16>, String> {
    let total = w * h;
    let mut s: Vec<u16> = vec![0; total];
    let mut p = 0usize;
    let mut i = 0usize;
    let mut fg: u16 = 0xffff;
    let mut last_bg = false;
    let rd8 = |i: &mut usize| -> Result<u8, String> {
        if *i >= data.len() {
            return Err("eof".into());
        }
        let v = data[*i];
        *i += 1;
        Ok(v)
    };
    let rd16 = |i: &mut usize| -> Result<u16, String> {
        if *i + 1 >= data.len() {
            return Err("eof".into());
        }
        let v = data[*i] as u16 | (data[*i + 1] as u16) << 8;
        *i += 2;
        Ok(v)
    };
    while i < data.len() {
        let code = rd8(&mut i)?;
        let (kind, len): (Kind, usize);
        if code >= 0xF0 {
            match code {
                0xF0 | 0xF1 | 0xF2 | 0xF3 | 0xF4 | 0xF6 | 0xF7 | 0xF8 => {
                    let l = rd16(&mut i)? as usize;
                    kind = match code {
                        0xF0 => Kind::Bg,
                        0xF1 => Kind::Fg,
                        0xF2 => Kind::FgBg,
                        0xF3 => Kind::ColorRun,
                        0xF4 => Kind::ColorImage,
                        0xF6 => Kind::SetFgFg,
                        0xF7 => Kind::SetFgFgBg,
                        _ => Kind::Dithered,
                    };
                    len = l;
                }
                0xF9 => {
                    kind = Kind::Special1;
                    len = 8;
                }
                0xFA => {
                    kind = Kind::Special2;
                    len = 8;
                }
                0xFD => {
                    kind = Kind::White;
                    len = 1;
                }
                0xFE => {
                    kind = Kind::Black;
                    len = 1;
                }
                _ => return Err(format!("undefined order {:02x}", code)),
            }
        } else if code >= 0xC0 {
            kind = match code >> 4 {
                0xC => Kind::SetFgFg,
                0xD => Kind::SetFgFgBg,
                _ => Kind::Dithered,
            };
            let l = (code & 0x0f) as usize;
            len = if kind == Kind::SetFgFgBg {
                if l == 0 {
                    rd8(&mut i)? as usize + 1
                } else {
                    l * 8
                }
            } else if l == 0 {
                rd8(&mut i)? as usize + 16
            } else {
                l
            };
        } else {
            kind = match code >> 5 {
                0 => Kind::Bg,
                1 => Kind::Fg,
                2 => Kind::FgBg,
                3 => Kind::ColorRun,
                4 => Kind::ColorImage,
                _ => return Err(format!("undefined order {:02x}", code)),
            };
            let l = (code & 0x1f) as usize;
            len = if kind == Kind::FgBg {
                if l == 0 {
                    rd8(&mut i)? as usize + 1
                } else {
                    l * 8
                }
            } else if l == 0 {
                rd8(&mut i)? as usize + 32
            } else {
                l
            };
        }
        let npix = if kind == Kind::Dithered { 2 * len } else { len };
        if p + npix > total {
            return Err("overrun".into());
        }
        let bg = |s: &Vec<u16>, q: usize| -> u16 {
            if q < w {
                0
            } else {
                s[q - w]
            }
        };
        match kind {
            Kind::Bg => {
                let mut n = len;
                if last_bg && p != w {
                    s[p] = bg(&s, p) ^ fg;
                    p += 1;
                    n -= 1;
                }
                for _ in 0..n {
                    s[p] = bg(&s, p);
                    p += 1;
                }
            }
            Kind::Fg | Kind::SetFgFg => {
                if kind == Kind::SetFgFg {
                    fg = rd16(&mut i)?;
                }
                for _ in 0..len {
                    s[p] = bg(&s, p) ^ fg;
                    p += 1;
                }
            }
            Kind::FgBg | Kind::SetFgFgBg | Kind::Special1 | Kind::Special2 => {
                if kind == Kind::SetFgFgBg {
                    fg = rd16(&mut i)?;
                }
                let mut k = 0;
                while k < len {
                    let m = match kind {
                        Kind::Special1 => 0x03,
                        Kind::Special2 => 0x05,
                        _ => rd8(&mut i)?,
                    };
                    for b in 0..8 {
                        if k + b < len {
                            s[p] = if m >> b & 1 == 1 { bg(&s, p) ^ fg } else { bg(&s, p) };
                            p += 1;
                        }
                    }
                    k += 8;
                }
            }
            Kind::ColorRun => {
                let c = rd16(&mut i)?;
                for _ in 0..len {
                    s[p] = c;
                    p += 1;
                }
            }
            Kind::ColorImage => {
                for _ in 0..len {
                    s[p] = rd16(&mut i)?;
                    p += 1;
                }
            }
            Kind::Dithered => {
                let a = rd16(&mut i)?;
                let b = rd16(&mut i)?;
                for _ in 0..len {
                    s[p] = a;
                    s[p + 1] = b;
                    p += 2;
                }
            }
            Kind::White => {
                s[p] = 0xffff;
                p += 1;
            }
            Kind::Black => {
                s[p] = 0;
                p += 1;
            }
        }
        last_bg = kind == Kind::Bg;
    }
    if p != total {
        return Err(format!("short image: {} of {}", p, total));
    }
    let mut img = Vec::with_capacity(total);
    for y in (0..h).rev() {
        img.extend_from_slice(&s[y * w..(y + 1) * w]);
    }
    Ok(img)
}

// ------------------------------------------------------------------------------------------
// planar RLE, 32 bpp (format header 0x10: RLE, alpha plane present, no subsampling, CLL 0)

fn enc_delta(d: i32) -> u8 {
    // d in -128..=127 (already reduced)
    if d >= 0 {
        (d << 1) as u8
    } else {
        (((-d - 1) << 1) | 1) as u8
    }
}

fn dec_delta(x: u8) -> i32 {
    if x & 1 == 1 {
        -(((x >> 1) as i32) + 1)
    } else {
        (x >> 1) as i32
    }
}

/// img: top-down BGRA bytes (w*h*4). Returns the planar stream.
pub fn encode_planar(img: &[u8], w: usize, h: usize, ch: &mut dyn Chooser, stats: &mut Vec<&'static str>) -> Vec<u8> {
    assert!(img.len() == w * h * 4 && w >= 1 && h >= 1);
    let mut out = vec![0x10u8];
    for plane in [3usize, 2, 1, 0].iter() {
        // scanlines bottom-up
        let mut above: Vec<u8> = vec![0; w];
        for (li, y) in (0..h).rev().enumerate() {
            let cur: Vec<u8> = (0..w).map(|x| img[(y * w + x) * 4 + plane]).collect();
            let vals: Vec<u8> = if li == 0 {
                cur.clone()
            } else {
                (0..w)
                    .map(|x| {
                        let mut d = cur[x] as i32 - above[x] as i32;
                        if d > 127 {
                            d -= 256;
                        }
                        if d < -128 {
                            d += 256;
                        }
                        enc_delta(d)
                    })
                    .collect()
            };
            // segmentation of vals
            // the "colour" that a run repeats: last raw value, 0 at line start. On delta lines the
            // run repeats the last *delta*; in the encoded domain 0 <-> delta 0, so the same rule holds.
            let mut colour: u8 = 0;
            let mut x = 0usize;
            while x < w {
                let rem = w - x;
                // zero-raw segment possible if the next values equal the current colour
                let mut run0 = 0;
                while run0 < rem && vals[x + run0] == colour {
                    run0 += 1;
                }
                // choose raw count
                let max_raw = rem.min(15);
                let mut opts: Vec<usize> = (1..=max_raw).collect();
                if run0 >= 3 {
                    opts.push(0);
                }
                let r = opts[ch.choose(opts.len())];
                let mut last = colour;
                if r > 0 {
                    last = vals[x + r - 1];
                }
                let after = x + r;
                let mut m = 0;
                while after + m < w && vals[after + m] == last {
                    m += 1;
                }
                // run options
                let mut runs: Vec<usize> = Vec::new();
                if r > 0 {
                    runs.push(0);
                }
                for n in 3..=m.min(15) {
                    runs.push(n);
                }
                if r == 0 {
                    for n in 16..=m.min(47) {
                        runs.push(n);
                    }
                }
                // bias: prefer the longest half of the time
                let n = if ch.choose(2) == 0 { *runs.last().unwrap() } else { runs[ch.choose(runs.len())] };
                if n >= 16 {
                    stats.push("long");
                    if n < 32 {
                        out.push((((n - 16) as u8) << 4) | 1);
                    } else {
                        out.push((((n - 32) as u8) << 4) | 2);
                    }
                } else {
                    if r == 0 {
                        stats.push("zero-raw");
                    } else if n == 0 {
                        stats.push("raw-only");
                    } else {
                        stats.push("raw+run");
                    }
                    out.push(((r as u8) << 4) | n as u8);
                    out.extend_from_slice(&vals[x..x + r]);
                }
                colour = last;
                x = after + n;
            }
            above = cur;
        }
    }
    out
}

pub fn decode_planar(data: &[u8], w: usize, h: usize) -> Result<Vec<u8>, String> {
    if data.is_empty() || data[0] != 0x10 {
        return Err("header".into());
    }
    let mut i = 1usize;
    let mut img = vec![0u8; w * h * 4];
    for plane in [3usize, 2, 1, 0].iter() {
        let mut above: Vec<u8> = vec![0; w];
        for (li, y) in (0..h).rev().enumerate() {
            let mut cur: Vec<u8> = Vec::with_capacity(w);
            let mut colour: i32 = 0;
            while cur.len() < w {
                if i >= data.len() {
                    return Err("eof".into());
                }
                let c = data[i];
                i += 1;
                let mut run = (c & 0x0f) as usize;
                let mut raw = (c >> 4) as usize;
                if run == 1 {
                    run = raw + 16;
                    raw = 0;
                } else if run == 2 {
                    run = raw + 32;
                    raw = 0;
                }
                if cur.len() + raw + run > w {
                    return Err("line overrun".into());
                }
                for _ in 0..raw {
                    if i >= data.len() {
                        return Err("eof".into());
                    }
                    let v = data[i];
                    i += 1;
                    if li == 0 {
                        colour = v as i32;
                        cur.push(v);
                    } else {
                        colour = dec_delta(v);
                        let x = cur.len();
                        cur.push((above[x] as i32 + colour) as u8);
                    }
                }
                for _ in 0..run {
                    if li == 0 {
                        cur.push(colour as u8);
                    } else {
                        let x = cur.len();
                        cur.push((above[x] as i32 + colour) as u8);
                    }
                }
            }
            for x in 0..w {
                img[(y * w + x) * 4 + plane] = cur[x];
            }
            above = cur;
        }
    }
    Ok(img)
}

// ------------------------------------------------------------------------------------------
// uncompressed

/// top-down image -> bottom-up rows, 2 bytes LE per pixel
pub fn raw16(img: &[u16], w: usize, h: usize) -> Vec<u8> {
    let mut out = Vec::with_capacity(w * h * 2);
    for y in (0..h).rev() {
        for x in 0..w {
            put16(&mut out, img[y * w + x]);
        }
    }
    out
}

/// top-down BGRA -> bottom-up rows
pub fn raw32(img: &[u8], w: usize, h: usize) -> Vec<u8> {
    let mut out = Vec::with_capacity(w * h * 4);
    for y in (0..h).rev() {
        out.extend_from_slice(&img[y * w * 4..(y + 1) * w * 4]);
    }
    out
}
