//! Reference PER (aligned, as T.124 / MS-RDPBCGR use it) - written from X.691 and T.125/T.124.
use super::bytes::*;

pub fn w_length(v: &mut Vec<u8>, n: usize) {
    assert!(n <= 0x7fff);
    if n < 0x80 {
        v.push(n as u8);
    } else {
        p16be(v, n as u16 | 0x8000);
    }
}

pub fn r_length(c: &mut Cur) -> R<usize> {
    let b = c.u8()?;
    if b & 0x80 != 0 {
        let l = c.u8()?;
        Ok((((b & 0x7f) as usize) << 8) | l as usize)
    } else {
        Ok(b as usize)
    }
}

/// strict: two-byte form only for values >= 0x80
pub fn r_length_strict(c: &mut Cur) -> R<usize> {
    let p = c.p;
    let n = r_length(c)?;
    if c.p - p == 2 && n < 0x80 {
        return Err(format!("PER length {} in two-byte form", n));
    }
    Ok(n)
}

/// length-prefixed unsigned integer, minimal number of octets among 1/2/4
pub fn w_integer(v: &mut Vec<u8>, x: u32) {
    if x <= 0xff {
        w_length(v, 1);
        v.push(x as u8);
    } else if x <= 0xffff {
        w_length(v, 2);
        p16be(v, x as u16);
    } else {
        w_length(v, 4);
        p32be(v, x);
    }
}

pub fn r_integer(c: &mut Cur) -> R<u32> {
    match r_length(c)? {
        1 => Ok(c.u8()? as u32),
        2 => Ok(c.u16be()? as u32),
        4 => c.u32be(),
        n => Err(format!("PER integer of {} octets", n)),
    }
}

pub fn w_integer16(v: &mut Vec<u8>, x: u16, min: u16) {
    p16be(v, x - min);
}

pub fn r_integer16(c: &mut Cur, min: u16) -> R<u16> {
    let x = c.u16be()?;
    x.checked_add(min).ok_or_else(|| "integer16 out of range".to_string())
}

pub fn w_oid(v: &mut Vec<u8>, oid: &[u8; 6]) {
    w_length(v, 5);
    v.push(oid[0] << 4 | (oid[1] & 0x0f));
    v.extend_from_slice(&oid[2..6]);
}

pub fn r_oid(c: &mut Cur) -> R<[u8; 6]> {
    if r_length(c)? != 5 {
        return Err("oid length".into());
    }
    let t = c.u8()?;
    let rest = c.take(4)?;
    Ok([t >> 4, t & 0x0f, rest[0], rest[1], rest[2], rest[3]])
}

pub fn w_octets(v: &mut Vec<u8>, data: &[u8], min: usize) {
    assert!(data.len() >= min);
    w_length(v, data.len() - min);
    v.extend_from_slice(data);
}

pub fn r_octets<'a>(c: &mut Cur<'a>, min: usize) -> R<&'a [u8]> {
    let n = r_length(c)? + min;
    c.take(n)
}

/// numeric string: (len - min) then two digits per octet, high nibble first, padded with 0
pub fn w_numeric(v: &mut Vec<u8>, digits: &[u8], min: usize) {
    assert!(digits.len() >= min);
    w_length(v, digits.len() - min);
    let mut i = 0;
    while i < digits.len() {
        let a = (digits[i] - b'0') % 10;
        let b = if i + 1 < digits.len() { (digits[i + 1] - b'0') % 10 } else { 0 };
        v.push(a << 4 | b);
        i += 2;
    }
}

pub fn r_numeric(c: &mut Cur, min: usize) -> R<Vec<u8>> {
    let n = r_length(c)? + min;
    let raw = c.take((n + 1) / 2)?;
    let mut out = Vec::new();
    for i in 0..n {
        let b = raw[i / 2];
        out.push(b'0' + if i % 2 == 0 { b >> 4 } else { b & 0x0f });
    }
    Ok(out)
}
