//! Byte builder that remembers where each named field lives, so that fault injectors can address
//! fields symbolically ("the length of the third capability set") instead of by byte offset.

#[derive(Clone, Debug)]
pub struct Field {
    pub name: String,
    pub off: usize,
    pub len: usize,
}

#[derive(Clone, Debug, Default)]
pub struct B {
    pub v: Vec<u8>,
    pub fields: Vec<Field>,
}

impl B {
    pub fn new() -> Self {
        B::default()
    }
    fn mark(&mut self, name: &str, len: usize) {
        self.fields.push(Field { name: name.to_string(), off: self.v.len(), len });
    }
    pub fn u8(&mut self, name: &str, x: u8) -> &mut Self {
        self.mark(name, 1);
        self.v.push(x);
        self
    }
    pub fn u16le(&mut self, name: &str, x: u16) -> &mut Self {
        self.mark(name, 2);
        self.v.extend_from_slice(&x.to_le_bytes());
        self
    }
    pub fn u16be(&mut self, name: &str, x: u16) -> &mut Self {
        self.mark(name, 2);
        self.v.extend_from_slice(&x.to_be_bytes());
        self
    }
    pub fn u32le(&mut self, name: &str, x: u32) -> &mut Self {
        self.mark(name, 4);
        self.v.extend_from_slice(&x.to_le_bytes());
        self
    }
    pub fn u32be(&mut self, name: &str, x: u32) -> &mut Self {
        self.mark(name, 4);
        self.v.extend_from_slice(&x.to_be_bytes());
        self
    }
    pub fn bytes(&mut self, name: &str, b: &[u8]) -> &mut Self {
        self.mark(name, b.len());
        self.v.extend_from_slice(b);
        self
    }
    /// raw bytes without a field record
    pub fn raw(&mut self, b: &[u8]) -> &mut Self {
        self.v.extend_from_slice(b);
        self
    }
    /// PER length (1 or 2 bytes)
    pub fn per_len(&mut self, name: &str, n: usize) -> &mut Self {
        if n < 0x80 {
            self.u8(name, n as u8)
        } else {
            self.u16be(name, n as u16 | 0x8000)
        }
    }
    /// append another builder, prefixing its field names
    pub fn nest(&mut self, prefix: &str, other: &B) -> &mut Self {
        let base = self.v.len();
        for f in &other.fields {
            self.fields.push(Field { name: format!("{}.{}", prefix, f.name), off: base + f.off, len: f.len });
        }
        self.mark(prefix, other.v.len());
        self.v.extend_from_slice(&other.v);
        self
    }
    pub fn len(&self) -> usize {
        self.v.len()
    }
}
