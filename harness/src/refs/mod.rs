pub mod ber;
pub mod build;
pub mod cssp;
pub mod bytes;
pub mod ntlm;
pub mod per;
pub mod proto;
pub mod rle;
