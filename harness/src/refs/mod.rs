pub mod rle;
