//! Independent MS-NLMP (NTLMv2 with extended session security) — server-side verification, message
//! construction and session security. Own MD4, RC4 and HMAC; MD5 from OpenSSL (the library under
//! test uses the md-5 / md4 / hmac crates and its own RC4).

use super::bytes::*;

// ------------------------------------------------------------------------------------------ primitives

pub fn md4(msg: &[u8]) -> [u8; 16] {
    // RFC 1320
    let mut a0: u32 = 0x67452301;
    let mut b0: u32 = 0xefcdab89;
    let mut c0: u32 = 0x98badcfe;
    let mut d0: u32 = 0x10325476;
    let mut m = msg.to_vec();
    let bitlen = (msg.len() as u64).wrapping_mul(8);
    m.push(0x80);
    while m.len() % 64 != 56 {
        m.push(0);
    }
    m.extend_from_slice(&bitlen.to_le_bytes());
    for chunk in m.chunks(64) {
        let mut x = [0u32; 16];
        for i in 0..16 {
            x[i] = u32::from_le_bytes([chunk[4 * i], chunk[4 * i + 1], chunk[4 * i + 2], chunk[4 * i + 3]]);
        }
        let (mut a, mut b, mut c, mut d) = (a0, b0, c0, d0);
        let f = |x: u32, y: u32, z: u32| (x & y) | (!x & z);
        let g = |x: u32, y: u32, z: u32| (x & y) | (x & z) | (y & z);
        let h = |x: u32, y: u32, z: u32| x ^ y ^ z;
        // round 1
        for i in 0..4 {
            let k = 4 * i;
            a = a.wrapping_add(f(b, c, d)).wrapping_add(x[k]).rotate_left(3);
            d = d.wrapping_add(f(a, b, c)).wrapping_add(x[k + 1]).rotate_left(7);
            c = c.wrapping_add(f(d, a, b)).wrapping_add(x[k + 2]).rotate_left(11);
            b = b.wrapping_add(f(c, d, a)).wrapping_add(x[k + 3]).rotate_left(19);
        }
        // round 2
        for i in 0..4 {
            a = a.wrapping_add(g(b, c, d)).wrapping_add(x[i]).wrapping_add(0x5a827999).rotate_left(3);
            d = d.wrapping_add(g(a, b, c)).wrapping_add(x[i + 4]).wrapping_add(0x5a827999).rotate_left(5);
            c = c.wrapping_add(g(d, a, b)).wrapping_add(x[i + 8]).wrapping_add(0x5a827999).rotate_left(9);
            b = b.wrapping_add(g(c, d, a)).wrapping_add(x[i + 12]).wrapping_add(0x5a827999).rotate_left(13);
        }
        // round 3
        for &i in &[0usize, 2, 1, 3] {
            a = a.wrapping_add(h(b, c, d)).wrapping_add(x[i]).wrapping_add(0x6ed9eba1).rotate_left(3);
            d = d.wrapping_add(h(a, b, c)).wrapping_add(x[i + 8]).wrapping_add(0x6ed9eba1).rotate_left(9);
            c = c.wrapping_add(h(d, a, b)).wrapping_add(x[i + 4]).wrapping_add(0x6ed9eba1).rotate_left(11);
            b = b.wrapping_add(h(c, d, a)).wrapping_add(x[i + 12]).wrapping_add(0x6ed9eba1).rotate_left(15);
        }
        a0 = a0.wrapping_add(a);
        b0 = b0.wrapping_add(b);
        c0 = c0.wrapping_add(c);
        d0 = d0.wrapping_add(d);
    }
    let mut out = [0u8; 16];
    out[0..4].copy_from_slice(&a0.to_le_bytes());
    out[4..8].copy_from_slice(&b0.to_le_bytes());
    out[8..12].copy_from_slice(&c0.to_le_bytes());
    out[12..16].copy_from_slice(&d0.to_le_bytes());
    out
}

pub fn md5(data: &[u8]) -> [u8; 16] {
    let d = openssl::hash::hash(openssl::hash::MessageDigest::md5(), data).expect("md5");
    let mut o = [0u8; 16];
    o.copy_from_slice(&d);
    o
}

pub fn hmac_md5(key: &[u8], data: &[u8]) -> [u8; 16] {
    // RFC 2104
    let mut k = [0u8; 64];
    if key.len() > 64 {
        k[..16].copy_from_slice(&md5(key));
    } else {
        k[..key.len()].copy_from_slice(key);
    }
    let mut inner = Vec::with_capacity(64 + data.len());
    inner.extend(k.iter().map(|b| b ^ 0x36));
    inner.extend_from_slice(data);
    let ih = md5(&inner);
    let mut outer = Vec::with_capacity(80);
    outer.extend(k.iter().map(|b| b ^ 0x5c));
    outer.extend_from_slice(&ih);
    md5(&outer)
}

#[derive(Clone)]
pub struct Rc4 {
    s: [u8; 256],
    i: u8,
    j: u8,
}

impl Rc4 {
    pub fn new(key: &[u8]) -> Rc4 {
        let mut s = [0u8; 256];
        for (i, x) in s.iter_mut().enumerate() {
            *x = i as u8;
        }
        let mut j: u8 = 0;
        for i in 0..256 {
            j = j.wrapping_add(s[i]).wrapping_add(key[i % key.len()]);
            s.swap(i, j as usize);
        }
        Rc4 { s, i: 0, j: 0 }
    }
    pub fn apply(&mut self, data: &[u8]) -> Vec<u8> {
        let mut out = Vec::with_capacity(data.len());
        for b in data {
            self.i = self.i.wrapping_add(1);
            self.j = self.j.wrapping_add(self.s[self.i as usize]);
            self.s.swap(self.i as usize, self.j as usize);
            let k = self.s[(self.s[self.i as usize].wrapping_add(self.s[self.j as usize])) as usize];
            out.push(b ^ k);
        }
        out
    }
}

// ------------------------------------------------------------------------------------------ keys

pub fn nt_hash(password: &str) -> [u8; 16] {
    md4(&utf16le(password))
}

/// NTOWFv2 with the simple (per UTF-16 unit, locale-independent) upper-casing Windows applies
pub fn ntowfv2(nt_hash: &[u8], user: &str, domain: &str) -> [u8; 16] {
    let id = format!("{}{}", user.to_uppercase(), domain);
    hmac_md5(nt_hash, &utf16le(&id))
}

pub const C2S_SIGN: &[u8] = b"session key to client-to-server signing key magic constant\0";
pub const S2C_SIGN: &[u8] = b"session key to server-to-client signing key magic constant\0";
pub const C2S_SEAL: &[u8] = b"session key to client-to-server sealing key magic constant\0";
pub const S2C_SEAL: &[u8] = b"session key to server-to-client sealing key magic constant\0";

fn kdf(key: &[u8], magic: &[u8]) -> [u8; 16] {
    let mut v = key.to_vec();
    v.extend_from_slice(magic);
    md5(&v)
}

/// (client-to-server signing, client-to-server sealing, server-to-client signing, server-to-client sealing)
pub fn session_keys(session_key: &[u8]) -> ([u8; 16], [u8; 16], [u8; 16], [u8; 16]) {
    (kdf(session_key, C2S_SIGN), kdf(session_key, C2S_SEAL), kdf(session_key, S2C_SIGN), kdf(session_key, S2C_SEAL))
}

/// One direction of NTLM session security (extended session security, key exchange, 128 bit).
#[derive(Clone)]
pub struct Direction {
    pub sign_key: [u8; 16],
    pub seal: Rc4,
    pub seq: u32,
}

impl Direction {
    pub fn new(session_key: &[u8], client_to_server: bool) -> Self {
        let (sm, em) = if client_to_server { (C2S_SIGN, C2S_SEAL) } else { (S2C_SIGN, S2C_SEAL) };
        Direction { sign_key: kdf(session_key, sm), seal: Rc4::new(&kdf(session_key, em)), seq: 0 }
    }
    /// seal + sign: returns signature(16) || ciphertext
    pub fn wrap(&mut self, msg: &[u8]) -> Vec<u8> {
        let ct = self.seal.apply(msg);
        let mut m = self.seq.to_le_bytes().to_vec();
        m.extend_from_slice(msg);
        let mac = hmac_md5(&self.sign_key, &m);
        let chk = self.seal.apply(&mac[..8]);
        let mut out = vec![1, 0, 0, 0];
        out.extend_from_slice(&chk);
        out.extend_from_slice(&self.seq.to_le_bytes());
        out.extend_from_slice(&ct);
        self.seq = self.seq.wrapping_add(1);
        out
    }
    /// unseal + verify, accepting whatever sequence number the message carries (it is still covered by the signature)
    pub fn unwrap_any_seq(&mut self, data: &[u8]) -> Result<Vec<u8>, String> {
        if data.len() >= 16 {
            self.seq = u32::from_le_bytes([data[12], data[13], data[14], data[15]]);
        }
        self.unwrap(data)
    }

    /// unseal + verify a message produced by the peer's `wrap` for this direction
    pub fn unwrap(&mut self, data: &[u8]) -> Result<Vec<u8>, String> {
        if data.len() < 16 {
            return Err("sealed message shorter than its signature".into());
        }
        if data[0..4] != [1, 0, 0, 0] {
            return Err("signature version".into());
        }
        let pt = self.seal.apply(&data[16..]);
        let chk = self.seal.apply(&data[4..12]);
        let seq = u32::from_le_bytes([data[12], data[13], data[14], data[15]]);
        if seq != self.seq {
            return Err(format!("sequence number {} expected {}", seq, self.seq));
        }
        let mut m = seq.to_le_bytes().to_vec();
        m.extend_from_slice(&pt);
        let mac = hmac_md5(&self.sign_key, &m);
        if chk != mac[..8] {
            return Err("checksum".into());
        }
        self.seq = self.seq.wrapping_add(1);
        Ok(pt)
    }
}

// ------------------------------------------------------------------------------------------ flags

pub const F_UNICODE: u32 = 0x0000_0001;
pub const F_OEM: u32 = 0x0000_0002;
pub const F_REQUEST_TARGET: u32 = 0x0000_0004;
pub const F_SIGN: u32 = 0x0000_0010;
pub const F_SEAL: u32 = 0x0000_0020;
pub const F_NTLM: u32 = 0x0000_0200;
pub const F_ALWAYS_SIGN: u32 = 0x0000_8000;
pub const F_TARGET_TYPE_SERVER: u32 = 0x0002_0000;
pub const F_ESS: u32 = 0x0008_0000;
pub const F_TARGET_INFO: u32 = 0x0080_0000;
pub const F_VERSION: u32 = 0x0200_0000;
pub const F_128: u32 = 0x2000_0000;
pub const F_KEY_EXCH: u32 = 0x4000_0000;
pub const F_56: u32 = 0x8000_0000;

// ------------------------------------------------------------------------------------------ messages

#[derive(Clone, Debug)]
pub struct Negotiate {
    pub flags: u32,
}

pub fn parse_negotiate(b: &[u8]) -> R<Negotiate> {
    let mut c = Cur::new(b);
    if c.take(8)? != b"NTLMSSP\0" {
        return Err("NEGOTIATE: signature".into());
    }
    if c.u32le()? != 1 {
        return Err("NEGOTIATE: message type".into());
    }
    let flags = c.u32le()?;
    let fields = [("DomainName", c.u16le()?, c.u16le()?, c.u32le()?), ("Workstation", c.u16le()?, c.u16le()?, c.u32le()?)];
    let mut hdr = 32;
    if flags & F_VERSION != 0 {
        c.take(8)?;
        hdr = 40;
    }
    for (n, len, maxlen, off) in fields.iter() {
        if maxlen < len {
            return Err(format!("NEGOTIATE: {} MaxLen {} < Len {}", n, maxlen, len));
        }
        if *len > 0 {
            if (*off as usize) < hdr || *off as usize + *len as usize > b.len() {
                return Err(format!("NEGOTIATE: {} buffer ({}, {}) outside the message of {} bytes", n, off, len, b.len()));
            }
        }
    }
    Ok(Negotiate { flags })
}

pub fn av_pairs(pairs: &[(u16, Vec<u8>)]) -> Vec<u8> {
    let mut v = Vec::new();
    for (id, val) in pairs {
        p16le(&mut v, *id);
        p16le(&mut v, val.len() as u16);
        v.extend_from_slice(val);
    }
    p16le(&mut v, 0);
    p16le(&mut v, 0);
    v
}

pub fn parse_av_pairs(b: &[u8]) -> R<(Vec<(u16, Vec<u8>)>, usize)> {
    let mut c = Cur::new(b);
    let mut out = Vec::new();
    loop {
        let id = c.u16le()?;
        let len = c.u16le()? as usize;
        let val = c.take(len)?;
        if id == 0 {
            if len != 0 {
                return Err("AV EOL with a length".into());
            }
            break;
        }
        out.push((id, val.to_vec()));
    }
    Ok((out, c.p))
}

/// CHALLENGE message as a conforming server builds it
pub fn build_challenge(flags: u32, server_challenge: &[u8; 8], target_name: &[u8], target_info: &[u8]) -> Vec<u8> {
    let hdr = if flags & F_VERSION != 0 { 56 } else { 48 };
    let mut v = Vec::new();
    v.extend_from_slice(b"NTLMSSP\0");
    p32le(&mut v, 2);
    p16le(&mut v, target_name.len() as u16);
    p16le(&mut v, target_name.len() as u16);
    p32le(&mut v, hdr as u32);
    p32le(&mut v, flags);
    v.extend_from_slice(server_challenge);
    v.extend_from_slice(&[0u8; 8]);
    p16le(&mut v, target_info.len() as u16);
    p16le(&mut v, target_info.len() as u16);
    p32le(&mut v, (hdr + target_name.len()) as u32);
    if flags & F_VERSION != 0 {
        v.extend_from_slice(&[10, 0, 0x61, 0x4a, 0, 0, 0, 15]);
    }
    v.extend_from_slice(target_name);
    v.extend_from_slice(target_info);
    v
}

#[derive(Clone, Debug)]
pub struct Account {
    pub domain: String,
    pub user: String,
    pub nt_hash: [u8; 16],
}

#[derive(Clone, Debug)]
pub struct AuthResult {
    pub exported_session_key: [u8; 16],
    pub user: String,
    pub domain: String,
    pub workstation: Vec<u8>,
    pub flags: u32,
    pub lm_zero: bool,
    pub temp_trailing: usize,
    pub mic_checked: bool,
    pub client_challenge: [u8; 8],
}

struct FieldRef {
    name: &'static str,
    len: usize,
    maxlen: usize,
    off: usize,
}

/// Verify an AUTHENTICATE token exactly as an MS-NLMP server does (3.2.5.1.2 / 3.3.2).
pub fn verify_authenticate(
    negotiate: &[u8],
    challenge: &[u8],
    authenticate: &[u8],
    server_challenge: &[u8; 8],
    challenge_flags: u32,
    target_info: &[u8],
    account: &Account,
) -> R<AuthResult> {
    verify_authenticate_layout(negotiate, challenge, authenticate, server_challenge, challenge_flags, target_info, account, false)
}

/// `tolerate_missing_version`: also accept the non-standard layout without the Version field (MIC at 64,
/// payload at 80) - used only to keep checking the rest of a token whose layout was already reported
#[allow(clippy::too_many_arguments)]
pub fn verify_authenticate_layout(
    negotiate: &[u8],
    challenge: &[u8],
    authenticate: &[u8],
    server_challenge: &[u8; 8],
    challenge_flags: u32,
    target_info: &[u8],
    account: &Account,
    tolerate_missing_version: bool,
) -> R<AuthResult> {
    let b = authenticate;
    let mut c = Cur::new(b);
    if c.take(8)? != b"NTLMSSP\0" {
        return Err("signature".into());
    }
    if c.u32le()? != 3 {
        return Err("message type".into());
    }
    let names = ["LmChallengeResponse", "NtChallengeResponse", "DomainName", "UserName", "Workstation", "EncryptedRandomSessionKey"];
    let mut f = Vec::new();
    for n in names.iter() {
        let len = c.u16le()? as usize;
        let maxlen = c.u16le()? as usize;
        let off = c.u32le()? as usize;
        f.push(FieldRef { name: n, len, maxlen, off });
    }
    let flags = c.u32le()?;
    // MS-NLMP 2.2.1.3: Version (8 bytes, always present in the layout) then MIC (16 bytes)
    let version_present_in_layout;
    let payload_start = f.iter().filter(|x| x.len > 0).map(|x| x.off).min().unwrap_or(b.len());
    let mic_off;
    let mut min_payload = 88;
    if payload_start >= 88 {
        version_present_in_layout = true;
        mic_off = 72;
    } else if tolerate_missing_version && payload_start >= 80 {
        version_present_in_layout = false;
        mic_off = 64;
        min_payload = 80;
    } else {
        return Err(format!(
            "payload starts at offset {}: the fixed part must hold the 8-byte Version field and the 16-byte MIC (payload at >= 88){}",
            payload_start,
            if flags & F_VERSION == 0 { " [NEGOTIATE_VERSION not negotiated]" } else { "" }
        ));
    }
    let _ = version_present_in_layout;
    // every (len, maxlen, offset) addresses a range inside the token, after the fixed part, without overlap
    let mut ranges: Vec<(usize, usize, &str)> = Vec::new();
    for x in &f {
        if x.maxlen < x.len {
            return Err(format!("{}: MaxLen {} < Len {}", x.name, x.maxlen, x.len));
        }
        if x.len > 0 {
            if x.off < min_payload || x.off + x.len > b.len() {
                return Err(format!("{}: buffer ({}, {}) outside the token of {} bytes", x.name, x.off, x.len, b.len()));
            }
            ranges.push((x.off, x.off + x.len, x.name));
        }
    }
    ranges.sort();
    for w in ranges.windows(2) {
        if w[0].1 > w[1].0 {
            return Err(format!("{} and {} overlap", w[0].2, w[1].2));
        }
    }
    let get = |i: usize| -> &[u8] { &b[f[i].off.min(b.len())..(f[i].off + f[i].len).min(b.len())] };
    let lm = get(0);
    let nt = get(1);
    let domain_b = get(2);
    let user_b = get(3);
    let ws = get(4);
    let ersk = get(5);
    // names per the negotiated character set
    let (domain, user) = if challenge_flags & F_UNICODE != 0 {
        (from_utf16le(domain_b).map_err(|e| format!("DomainName: {}", e))?, from_utf16le(user_b).map_err(|e| format!("UserName: {}", e))?)
    } else {
        (String::from_utf8(domain_b.to_vec()).map_err(|_| "DomainName: not OEM/UTF-8".to_string())?, String::from_utf8(user_b.to_vec()).map_err(|_| "UserName: not OEM/UTF-8".to_string())?)
    };
    if user != account.user {
        return Err("UserName field does not name the account".to_string());
    }
    if domain != account.domain {
        return Err("DomainName field does not name the account's domain".to_string());
    }
    // NT proof
    if nt.len() < 16 + 28 + 4 {
        return Err(format!("NtChallengeResponse of {} bytes is too short for NTLMv2", nt.len()));
    }
    let key = ntowfv2(&account.nt_hash, &account.user, &account.domain);
    let temp = &nt[16..];
    let mut m = server_challenge.to_vec();
    m.extend_from_slice(temp);
    let proof = hmac_md5(&key, &m);
    if proof != nt[..16] {
        return Err("NT proof does not verify".into());
    }
    // temp structure
    if temp[0] != 1 || temp[1] != 1 {
        return Err("temp: response version".into());
    }
    if temp[2..8] != [0u8; 6] {
        return Err("temp: reserved".into());
    }
    let time = &temp[8..16];
    let mut client_challenge = [0u8; 8];
    client_challenge.copy_from_slice(&temp[16..24]);
    if temp[24..28] != [0u8; 4] {
        return Err("temp: reserved2".into());
    }
    let (client_pairs, used) = parse_av_pairs(&temp[28..]).map_err(|e| format!("temp: AV pairs: {}", e))?;
    let trailing = &temp[28 + used..];
    if trailing.iter().any(|x| *x != 0) || trailing.len() > 4 {
        return Err(format!("temp: {} unexpected bytes after the AV pair list", trailing.len()));
    }
    let (server_pairs, _) = parse_av_pairs(target_info).map_err(|e| format!("own target info: {}", e))?;
    for (id, val) in &server_pairs {
        if !client_pairs.iter().any(|(i, v)| i == id && v == val) {
            return Err(format!("temp: server AV pair {} missing or altered", id));
        }
    }
    if let Some((_, ts)) = server_pairs.iter().find(|(i, _)| *i == 7) {
        if ts.as_slice() != time {
            return Err("temp: timestamp differs from MsvAvTimestamp".into());
        }
    }
    // LM proof (Z(24) allowed when a timestamp was supplied)
    let lm_zero = lm.iter().all(|x| *x == 0);
    if !lm_zero {
        if lm.len() != 24 {
            return Err(format!("LmChallengeResponse of {} bytes", lm.len()));
        }
        let mut m = server_challenge.to_vec();
        m.extend_from_slice(&lm[16..24]);
        if hmac_md5(&key, &m) != lm[..16] {
            return Err("LM proof does not verify".into());
        }
        if lm[16..24] != client_challenge {
            return Err("LM client challenge differs from the NT one".into());
        }
    } else if lm.len() != 24 && !lm.is_empty() {
        return Err(format!("LmChallengeResponse of {} bytes", lm.len()));
    }
    // session key
    let session_base = hmac_md5(&key, &proof);
    let mut exported = [0u8; 16];
    if flags & F_KEY_EXCH != 0 {
        if ersk.len() != 16 {
            return Err(format!("EncryptedRandomSessionKey of {} bytes", ersk.len()));
        }
        exported.copy_from_slice(&Rc4::new(&session_base).apply(ersk));
    } else {
        exported = session_base;
    }
    // MIC over the three messages with the MIC field zeroed
    let mut zeroed = b.to_vec();
    let mic: Vec<u8> = zeroed[mic_off..mic_off + 16].to_vec();
    for x in zeroed[mic_off..mic_off + 16].iter_mut() {
        *x = 0;
    }
    let mut all = negotiate.to_vec();
    all.extend_from_slice(challenge);
    all.extend_from_slice(&zeroed);
    if hmac_md5(&exported, &all) != mic.as_slice() {
        return Err("MIC does not verify".into());
    }
    if flags != challenge_flags {
        // the client echoes the negotiated flags; a difference is tolerated by servers, record only
    }
    Ok(AuthResult { exported_session_key: exported, user, domain, workstation: ws.to_vec(), flags, lm_zero, temp_trailing: trailing.len(), mic_checked: true, client_challenge })
}

/// a reference *client* (used only to self-check the verifier and to mint honest tokens in tests)
pub fn build_authenticate(negotiate: &[u8], challenge: &[u8], server_challenge: &[u8; 8], flags: u32, target_info: &[u8], account: &Account, client_challenge: &[u8; 8], session_key: &[u8; 16]) -> Vec<u8> {
    let key = ntowfv2(&account.nt_hash, &account.user, &account.domain);
    let (pairs, _) = parse_av_pairs(target_info).unwrap();
    let time = pairs.iter().find(|(i, _)| *i == 7).map(|(_, v)| v.clone()).unwrap_or(vec![0; 8]);
    let mut temp = vec![1, 1, 0, 0, 0, 0, 0, 0];
    temp.extend_from_slice(&time);
    temp.extend_from_slice(client_challenge);
    temp.extend_from_slice(&[0; 4]);
    temp.extend_from_slice(target_info);
    temp.extend_from_slice(&[0; 4]);
    let mut m = server_challenge.to_vec();
    m.extend_from_slice(&temp);
    let proof = hmac_md5(&key, &m);
    let mut nt = proof.to_vec();
    nt.extend_from_slice(&temp);
    let mut m2 = server_challenge.to_vec();
    m2.extend_from_slice(client_challenge);
    let mut lm = hmac_md5(&key, &m2).to_vec();
    lm.extend_from_slice(client_challenge);
    let base = hmac_md5(&key, &proof);
    let ersk = Rc4::new(&base).apply(session_key);
    let (dom, usr) = if flags & F_UNICODE != 0 { (utf16le(&account.domain), utf16le(&account.user)) } else { (account.domain.as_bytes().to_vec(), account.user.as_bytes().to_vec()) };
    let bufs: [&[u8]; 6] = [&lm, &nt, &dom, &usr, &[], &ersk];
    let mut v = Vec::new();
    v.extend_from_slice(b"NTLMSSP\0");
    p32le(&mut v, 3);
    let mut off = 88usize;
    for x in bufs.iter() {
        p16le(&mut v, x.len() as u16);
        p16le(&mut v, x.len() as u16);
        p32le(&mut v, off as u32);
        off += x.len();
    }
    p32le(&mut v, flags);
    v.extend_from_slice(&[6, 1, 0xb1, 0x1d, 0, 0, 0, 15]);
    v.extend_from_slice(&[0; 16]);
    for x in bufs.iter() {
        v.extend_from_slice(x);
    }
    let mut all = negotiate.to_vec();
    all.extend_from_slice(challenge);
    all.extend_from_slice(&v);
    let mic = hmac_md5(session_key, &all);
    v[72..88].copy_from_slice(&mic);
    v
}

#[cfg(test)]
mod test {
    use super::*;
    #[test]
    fn md4_vectors() {
        let h = |s: &str| crate::rng::hex(&md4(s.as_bytes()));
        assert_eq!(h(""), "31d6cfe0d16ae931b73c59d7e0c089c0");
        assert_eq!(h("abc"), "a448017aaf21d8525fc10ae87aa6729d");
        assert_eq!(h("12345678901234567890123456789012345678901234567890123456789012345678901234567890"), "e33b4ddc9c38f2199c3e7b164fcc0536");
    }
    #[test]
    fn nlmp_vectors() {
        // MS-NLMP 4.2.4: User "User", Domain "Domain", Password "Password"
        let k = ntowfv2(&nt_hash("Password"), "User", "Domain");
        assert_eq!(crate::rng::hex(&k), "0c868a403bfd7a93a3001ef22ef02e3f");
        assert_eq!(crate::rng::hex(&hmac_md5(b"Jefe", b"what do ya want for nothing?")), "750c783e6ab0b503eaa86e310a5db738");
        let mut r = Rc4::new(b"Key");
        assert_eq!(crate::rng::hex(&r.apply(b"Plaintext")), "bbf316e8d940af0ad3");
    }
}
