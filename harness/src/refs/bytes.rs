//! Own byte cursor / writer for the reference implementations (no use of rdp::model).

pub type R<T> = Result<T, String>;

pub struct Cur<'a> {
    pub b: &'a [u8],
    pub p: usize,
}

impl<'a> Cur<'a> {
    pub fn new(b: &'a [u8]) -> Self {
        Cur { b, p: 0 }
    }
    pub fn rem(&self) -> usize {
        self.b.len() - self.p
    }
    pub fn done(&self) -> bool {
        self.p >= self.b.len()
    }
    pub fn u8(&mut self) -> R<u8> {
        if self.rem() < 1 {
            return Err(format!("eof reading u8 at {}", self.p));
        }
        let v = self.b[self.p];
        self.p += 1;
        Ok(v)
    }
    pub fn u16le(&mut self) -> R<u16> {
        let a = self.take(2)?;
        Ok(a[0] as u16 | (a[1] as u16) << 8)
    }
    pub fn u16be(&mut self) -> R<u16> {
        let a = self.take(2)?;
        Ok(a[1] as u16 | (a[0] as u16) << 8)
    }
    pub fn u32le(&mut self) -> R<u32> {
        let a = self.take(4)?;
        Ok(a[0] as u32 | (a[1] as u32) << 8 | (a[2] as u32) << 16 | (a[3] as u32) << 24)
    }
    pub fn u32be(&mut self) -> R<u32> {
        let a = self.take(4)?;
        Ok(a[3] as u32 | (a[2] as u32) << 8 | (a[1] as u32) << 16 | (a[0] as u32) << 24)
    }
    pub fn take(&mut self, n: usize) -> R<&'a [u8]> {
        if self.rem() < n {
            return Err(format!("eof: need {} bytes at {}, have {}", n, self.p, self.rem()));
        }
        let s = &self.b[self.p..self.p + n];
        self.p += n;
        Ok(s)
    }
    pub fn rest(&mut self) -> &'a [u8] {
        let s = &self.b[self.p..];
        self.p = self.b.len();
        s
    }
    pub fn expect_end(&self, what: &str) -> R<()> {
        if self.p != self.b.len() {
            return Err(format!("{}: {} trailing bytes", what, self.b.len() - self.p));
        }
        Ok(())
    }
}

pub fn p16le(v: &mut Vec<u8>, x: u16) {
    v.push(x as u8);
    v.push((x >> 8) as u8);
}
pub fn p16be(v: &mut Vec<u8>, x: u16) {
    v.push((x >> 8) as u8);
    v.push(x as u8);
}
pub fn p32le(v: &mut Vec<u8>, x: u32) {
    v.extend_from_slice(&x.to_le_bytes());
}
pub fn p32be(v: &mut Vec<u8>, x: u32) {
    v.extend_from_slice(&x.to_be_bytes());
}

pub fn utf16le(s: &str) -> Vec<u8> {
    let mut v = Vec::new();
    for u in s.encode_utf16() {
        p16le(&mut v, u);
    }
    v
}

pub fn from_utf16le(b: &[u8]) -> R<String> {
    if b.len() % 2 != 0 {
        return Err("odd utf-16 length".into());
    }
    let u: Vec<u16> = b.chunks(2).map(|c| c[0] as u16 | (c[1] as u16) << 8).collect();
    String::from_utf16(&u).map_err(|_| "invalid utf-16".to_string())
}
