//! Reference CredSSP (MS-CSSP) structures over refs::ber.
use super::ber::{self, Asn};
use super::bytes::*;

#[derive(Clone, Debug, Default, PartialEq)]
pub struct TsRequest {
    pub version: u64,
    pub nego_tokens: Vec<Vec<u8>>,
    pub auth_info: Option<Vec<u8>>,
    pub pub_key_auth: Option<Vec<u8>>,
    pub error_code: Option<u64>,
    pub client_nonce: Option<Vec<u8>>,
}

pub fn to_asn(t: &TsRequest) -> Asn {
    let mut items = vec![Asn::Ctx(0, Box::new(Asn::Int(t.version)))];
    if !t.nego_tokens.is_empty() {
        let toks: Vec<Asn> = t.nego_tokens.iter().map(|x| Asn::Seq(vec![Asn::Ctx(0, Box::new(Asn::Octets(x.clone())))])).collect();
        items.push(Asn::Ctx(1, Box::new(Asn::Seq(toks))));
    }
    if let Some(a) = &t.auth_info {
        items.push(Asn::Ctx(2, Box::new(Asn::Octets(a.clone()))));
    }
    if let Some(a) = &t.pub_key_auth {
        items.push(Asn::Ctx(3, Box::new(Asn::Octets(a.clone()))));
    }
    if let Some(e) = t.error_code {
        items.push(Asn::Ctx(4, Box::new(Asn::Int(e))));
    }
    if let Some(a) = &t.client_nonce {
        items.push(Asn::Ctx(5, Box::new(Asn::Octets(a.clone()))));
    }
    Asn::Seq(items)
}

pub fn build(t: &TsRequest) -> Vec<u8> {
    ber::der(&to_asn(t))
}

/// total length of the DER element starting at b[0], if the header is complete
pub fn element_len(b: &[u8]) -> Option<usize> {
    if b.len() < 2 {
        return None;
    }
    let l = b[1];
    if l < 0x80 {
        return Some(2 + l as usize);
    }
    let n = (l & 0x7f) as usize;
    if n == 0 || n > 4 || b.len() < 2 + n {
        return if n == 0 || n > 4 { Some(usize::MAX) } else { None };
    }
    let mut v = 0usize;
    for x in &b[2..2 + n] {
        v = v << 8 | *x as usize;
    }
    Some(2 + n + v)
}

pub fn parse(b: &[u8], strict: bool) -> R<TsRequest> {
    let mut c = Cur::new(b);
    let mut s = ber::r_seq(&mut c, strict, "TSRequest")?;
    c.expect_end("TSRequest")?;
    let mut t = TsRequest::default();
    let mut v = ber::r_ctx(&mut s, 0, strict, "version")?;
    t.version = ber::r_int(&mut v, strict, "version")?;
    v.expect_end("version")?;
    let mut last = 0u32;
    while !s.done() {
        let (class, cons, tag) = ber::peek(&s).ok_or("TSRequest: tag")?;
        if class != 2 || !cons {
            return Err(format!("TSRequest: unexpected element class {} tag {}", class, tag));
        }
        if tag <= last {
            return Err(format!("TSRequest: field [{}] out of order or repeated", tag));
        }
        last = tag;
        let mut f = ber::r_ctx(&mut s, tag as u8, strict, "TSRequest field")?;
        match tag {
            1 => {
                let mut seqof = ber::r_seq(&mut f, strict, "negoTokens")?;
                while !seqof.done() {
                    let mut one = ber::r_seq(&mut seqof, strict, "NegoData item")?;
                    let mut tk = ber::r_ctx(&mut one, 0, strict, "negoToken")?;
                    t.nego_tokens.push(ber::r_octets(&mut tk, strict, "negoToken")?.to_vec());
                    tk.expect_end("negoToken")?;
                    one.expect_end("NegoData item")?;
                }
            }
            2 => t.auth_info = Some(ber::r_octets(&mut f, strict, "authInfo")?.to_vec()),
            3 => t.pub_key_auth = Some(ber::r_octets(&mut f, strict, "pubKeyAuth")?.to_vec()),
            4 => t.error_code = Some(ber::r_int(&mut f, strict, "errorCode")?),
            5 => t.client_nonce = Some(ber::r_octets(&mut f, strict, "clientNonce")?.to_vec()),
            n => return Err(format!("TSRequest: unknown field [{}]", n)),
        }
        f.expect_end("TSRequest field")?;
    }
    Ok(t)
}

#[derive(Clone, Debug, PartialEq)]
pub struct PasswordCreds {
    pub domain: Vec<u8>,
    pub user: Vec<u8>,
    pub password: Vec<u8>,
}

pub fn parse_ts_credentials(b: &[u8]) -> R<PasswordCreds> {
    let mut c = Cur::new(b);
    let mut s = ber::r_seq(&mut c, true, "TSCredentials")?;
    c.expect_end("TSCredentials")?;
    let mut ct = ber::r_ctx(&mut s, 0, true, "credType")?;
    let t = ber::r_int(&mut ct, true, "credType")?;
    ct.expect_end("credType")?;
    if t != 1 {
        return Err(format!("credType {}", t));
    }
    let mut cr = ber::r_ctx(&mut s, 1, true, "credentials")?;
    let inner = ber::r_octets(&mut cr, true, "credentials")?;
    cr.expect_end("credentials")?;
    s.expect_end("TSCredentials")?;
    let mut k = Cur::new(inner);
    let mut p = ber::r_seq(&mut k, true, "TSPasswordCreds")?;
    k.expect_end("TSPasswordCreds")?;
    let mut out = Vec::new();
    for (i, n) in ["domainName", "userName", "password"].iter().enumerate() {
        let mut f = ber::r_ctx(&mut p, i as u8, true, n)?;
        out.push(ber::r_octets(&mut f, true, n)?.to_vec());
        f.expect_end(n)?;
    }
    p.expect_end("TSPasswordCreds")?;
    Ok(PasswordCreds { domain: out[0].clone(), user: out[1].clone(), password: out[2].clone() })
}

/// little-endian increment with carry (public key + 1)
pub fn le_increment(k: &[u8]) -> Vec<u8> {
    let mut v = k.to_vec();
    for b in v.iter_mut() {
        if *b == 0xff {
            *b = 0;
        } else {
            *b += 1;
            return v;
        }
    }
    v.push(1);
    v
}
