//! Reference RDP protocol: builders for everything a conforming server sends and strict parsers for
//! everything the client sends. Written from T.123, X.224, T.125, T.124, MS-RDPBCGR, MS-RDPELE;
//! shares no code with rdp::core / rdp::model.

use super::ber::{self, Asn};
use super::build::B;
use super::bytes::*;
use super::per;

pub const T124_OID: [u8; 6] = [0, 0, 20, 124, 0, 1];

// ------------------------------------------------------------------------------------------ server profile

#[derive(Clone, Debug)]
pub enum License {
    /// ERROR_ALERT / STATUS_VALID_CLIENT / ST_NO_TRANSITION with this blob and preamble flags
    ValidClient { flags: u8, blob_type: u16, blob: Vec<u8> },
    /// NEW_LICENSE message with an opaque body
    NewLicense { flags: u8, body: Vec<u8> },
}

#[derive(Clone, Debug)]
pub struct Profile {
    pub selected_protocol: u32,
    /// how the ConnectData::connectPDU length is written: 0 = the accurate length; 1 = the constant 0x2A that Windows and
    /// FreeRDP servers write whatever follows (MS-RDPBCGR 4.1.4: "This length MUST be ignored by the client")
    pub connect_pdu_len_style: u8,
    /// when set, the server network data block announces this channelCount and carries these bytes as its id array,
    /// whatever their number (every enclosing length stays consistent)
    pub net_raw: Option<(u16, Vec<u8>)>,
    /// the flags word of the security header in front of the licensing PDU: SEC_LICENSE_PKT (0x0080), optionally with
    /// SEC_LICENSE_ENCRYPT_CS (0x0200: "the client may encrypt its licensing packets") and SEC_FLAGSHI_VALID (0x8000)
    pub license_sec_flags: u16,
    /// the dataPriority / segmentation octet of the server's send-data-indications: priority (top 0x00, high 0x40,
    /// medium 0x80, low 0xC0) | begin and end of an unsegmented message (0x30); Windows writes 0x70
    pub sdi_flags: u8,
    /// streamId of the share data headers the server writes (1 low, 2 medium, 4 high; 0 STREAM_UNDEFINED is what some
    /// servers put into their synchronize PDU, MS-RDPBCGR 2.2.8.1.1.1.2)
    pub stream_id: u8,
    pub cc_flags: u8,
    pub user_id: u16,
    pub io_channel: u16,
    pub server_channel: u16,
    pub version: u32,
    /// 0 = rdpVersion only, 1 = + clientRequestedProtocols, 2 = + earlyCapabilityFlags
    pub core_optional: u8,
    pub early_caps: u32,
    /// order in which the three mandatory blocks and extras are emitted: indices into [core, security, net, extra0, extra1...]
    pub block_order: Vec<usize>,
    pub extra_blocks: Vec<(u16, Vec<u8>)>,
    pub domain_params: [u32; 8],
    pub connect_id: u32,
    pub node_id: u16,
    pub gcc_tag: u32,
    pub license: License,
    pub share_id: u32,
    pub source_descriptor: Vec<u8>,
    pub caps: Vec<(u16, Vec<u8>)>,
    pub session_id: u32,
    pub net_channels: Vec<u16>,
    /// SC_SECURITY carries the optional (zero) serverRandomLen and serverCertLen
    pub sec_optional: bool,
    /// BER length form of the MCS connect response: 0 shortest, 1 = 81 nn where it fits, 2 = 82 hh ll
    pub ber_form: u8,
}

pub fn general_caps() -> Vec<(u16, Vec<u8>)> {
    // a plausible Windows-like set, each body sized per MS-RDPBCGR 2.2.7
    let mut general = B::new();
    general
        .u16le("osMajorType", 1)
        .u16le("osMinorType", 3)
        .u16le("protocolVersion", 0x0200)
        .u16le("pad", 0)
        .u16le("compressionTypes", 0)
        .u16le("extraFlags", 0x041d)
        .u16le("updateCapabilityFlag", 0)
        .u16le("remoteUnshareFlag", 0)
        .u16le("compressionLevel", 0)
        .u8("refreshRectSupport", 1)
        .u8("suppressOutputSupport", 1);
    let mut bitmap = B::new();
    bitmap
        .u16le("preferredBitsPerPixel", 32)
        .u16le("receive1", 1)
        .u16le("receive4", 1)
        .u16le("receive8", 1)
        .u16le("desktopWidth", 1024)
        .u16le("desktopHeight", 768)
        .u16le("pad", 0)
        .u16le("desktopResizeFlag", 1)
        .u16le("bitmapCompressionFlag", 1)
        .u8("highColorFlags", 0)
        .u8("drawingFlags", 0)
        .u16le("multipleRectangleSupport", 1)
        .u16le("pad2", 0);
    let mut pointer = B::new();
    pointer.u16le("colorPointerFlag", 1).u16le("colorPointerCacheSize", 25).u16le("pointerCacheSize", 25);
    let mut input = B::new();
    input.u16le("inputFlags", 0x0035).u16le("pad", 0).u32le("layout", 0).u32le("type", 0).u32le("subtype", 0).u32le("fnkeys", 0).bytes("ime", &[0u8; 64]);
    let mut vc = B::new();
    vc.u32le("flags", 0).u32le("chunk", 1600);
    let mut share = B::new();
    share.u16le("nodeId", 1002).u16le("pad", 0);
    let mut font = B::new();
    font.u16le("fontSupportFlags", 1).u16le("pad", 0);
    vec![
        (0x0009, share.v),
        (0x0001, general.v),
        (0x0014, vc.v),
        (0x0002, bitmap.v),
        (0x000E, font.v),
        (0x0008, pointer.v),
        (0x000D, input.v),
        (0x001A, 0x0000ffffu32.to_le_bytes().to_vec()),
        (0x001B, vec![1, 0]),
    ]
}

impl Default for Profile {
    fn default() -> Self {
        Profile {
            selected_protocol: 0,
            connect_pdu_len_style: 0,
            net_raw: None,
            license_sec_flags: 0x0080,
            sdi_flags: 0x70,
            stream_id: 1,
            cc_flags: 0,
            user_id: 1007,
            io_channel: 1003,
            server_channel: 1002,
            version: 0x00080004,
            core_optional: 2,
            early_caps: 1,
            block_order: vec![0, 1, 2],
            extra_blocks: vec![],
            domain_params: [34, 3, 0, 1, 0, 1, 0xfff8, 2],
            connect_id: 0,
            node_id: 31219,
            gcc_tag: 1,
            license: License::ValidClient { flags: 0x03, blob_type: 4, blob: vec![] },
            share_id: 0x000103ea,
            source_descriptor: b"RDP\0".to_vec(),
            caps: general_caps(),
            session_id: 0,
            net_channels: vec![],
            sec_optional: false,
            ber_form: 0,
        }
    }
}

// ------------------------------------------------------------------------------------------ framing

pub fn tpkt(payload: &B) -> B {
    let mut b = B::new();
    b.u8("tpkt.version", 3).u8("tpkt.reserved", 0).u16be("tpkt.length", (payload.len() + 4) as u16);
    b.nest("x", payload);
    b
}

pub fn x224_data(payload: &B) -> B {
    let mut b = B::new();
    b.u8("x224.li", 2).u8("x224.code", 0xF0).u8("x224.eot", 0x80);
    b.nest("m", payload);
    b
}

/// X.224 connection confirm with an RDP negotiation structure
pub fn connection_confirm(neg_type: u8, flags: u8, value: u32) -> B {
    let mut b = B::new();
    b.u8("cc.li", 14).u8("cc.code", 0xD0).u16be("cc.dstref", 0).u16be("cc.srcref", 0x1234).u8("cc.class", 0);
    b.u8("neg.type", neg_type).u8("neg.flags", flags).u16le("neg.length", 8).u32le("neg.value", value);
    b
}

/// connection confirm without negotiation data (LI = 6)
pub fn connection_confirm_bare() -> B {
    let mut b = B::new();
    b.u8("cc.li", 6).u8("cc.code", 0xD0).u16be("cc.dstref", 0).u16be("cc.srcref", 0x1234).u8("cc.class", 0);
    b
}

// ------------------------------------------------------------------------------------------ GCC + MCS connect response

pub fn sc_core(p: &Profile) -> B {
    let mut b = B::new();
    b.u32le("rdpVersion", p.version);
    if p.core_optional >= 1 {
        b.u32le("clientRequestedProtocols", p.selected_protocol);
    }
    if p.core_optional >= 2 {
        b.u32le("earlyCapabilityFlags", p.early_caps);
    }
    b
}

/// MS-RDPBCGR 2.2.1.4.3: with encryption method and level NONE the serverRandomLen / serverCertLen fields are
/// optional; when present they are zero
pub fn sc_security(p: &Profile) -> B {
    let mut b = B::new();
    b.u32le("encryptionMethod", 0).u32le("encryptionLevel", 0);
    if p.sec_optional {
        b.u32le("serverRandomLen", 0).u32le("serverCertLen", 0);
    }
    b
}

pub fn sc_net(p: &Profile) -> B {
    let mut b = B::new();
    if let Some((count, raw)) = &p.net_raw {
        b.u16le("MCSChannelId", p.io_channel).u16le("channelCount", *count).bytes("channelIdArray", raw);
        return b;
    }
    b.u16le("MCSChannelId", p.io_channel).u16le("channelCount", p.net_channels.len() as u16);
    for (i, c) in p.net_channels.iter().enumerate() {
        b.u16le(&format!("channelId{}", i), *c);
    }
    if p.net_channels.len() % 2 == 1 {
        b.u16le("pad", 0);
    }
    b
}

pub fn block(kind: u16, body: &B, name: &str) -> B {
    let mut b = B::new();
    b.u16le("type", kind).u16le("length", (body.len() + 4) as u16);
    b.nest(name, body);
    b
}

pub fn gcc_blocks(p: &Profile) -> B {
    let mut blocks: Vec<B> = vec![block(0x0C01, &sc_core(p), "core"), block(0x0C02, &sc_security(p), "security"), block(0x0C03, &sc_net(p), "net")];
    for (k, body) in &p.extra_blocks {
        let mut bb = B::new();
        bb.bytes("body", body);
        blocks.push(block(*k, &bb, "extra"));
    }
    let mut out = B::new();
    let order: Vec<usize> = if p.block_order.len() == blocks.len() { p.block_order.clone() } else { (0..blocks.len()).collect() };
    for (n, i) in order.iter().enumerate() {
        out.nest(&format!("block{}", n), &blocks[*i]);
    }
    out
}

pub fn conference_create_response(p: &Profile, blocks: &B) -> B {
    let mut inner = B::new();
    inner.u8("ccr.choice", 0x14);
    inner.u16be("ccr.nodeID", p.node_id.wrapping_sub(1001));
    let mut t = Vec::new();
    per::w_integer(&mut t, p.gcc_tag);
    inner.bytes("ccr.tag", &t);
    inner.u8("ccr.result", 0);
    inner.u8("ccr.numberOfSet", 1);
    inner.u8("ccr.h221choice", 0xc0);
    inner.u8("ccr.h221len", 0);
    inner.bytes("ccr.h221key", b"McDn");
    inner.per_len("ccr.userDataLength", blocks.len());
    inner.nest("ud", blocks);
    let mut b = B::new();
    b.u8("gcc.choice", 0);
    let mut oid = Vec::new();
    per::w_oid(&mut oid, &T124_OID);
    b.bytes("gcc.oid", &oid);
    b.per_len("gcc.connectPDULength", if p.connect_pdu_len_style == 1 { 0x2a } else { inner.len() });
    b.nest("c", &inner);
    b
}

/// BER Connect-Response; returns the builder with the userData octet string content mapped as "ud"
pub fn mcs_connect_response(p: &Profile, result: i64, user_data: &B) -> B {
    let dp = Asn::Seq(p.domain_params.iter().map(|x| Asn::Int(*x as u64)).collect());
    // T.125 prescribes BER for the connect PDUs: besides the shortest length form (0) a server may write every
    // length as 81 nn where it fits (1) or as 82 hh ll (2); integer contents stay minimal
    let form = p.ber_form;
    let head = {
        let mut v = Vec::new();
        v.extend_from_slice(&ber::der_form(&Asn::Enum(result), &mut |_| form));
        v.extend_from_slice(&ber::der_form(&Asn::Int(p.connect_id as u64), &mut |_| form));
        v.extend_from_slice(&ber::der_form(&dp, &mut |_| form));
        v
    };
    let mut ud_hdr = vec![0x04];
    ber::w_len_form(&mut ud_hdr, user_data.len(), form);
    let content_len = head.len() + ud_hdr.len() + user_data.len();
    let mut b = B::new();
    b.bytes("ber.apptag", &[0x7f, 0x66]);
    let mut l = Vec::new();
    ber::w_len_form(&mut l, content_len, form);
    b.bytes("ber.applen", &l);
    b.bytes("ber.head", &head);
    b.bytes("ber.udhdr", &ud_hdr);
    b.nest("gcc", user_data);
    b
}

pub fn attach_user_confirm(result: u8, user_id: u16) -> B {
    let mut b = B::new();
    b.u8("auc.header", 0x2E).u8("auc.result", result).u16be("auc.initiator", user_id.wrapping_sub(1001));
    b
}

pub fn channel_join_confirm(result: u8, user_id: u16, requested: u16, with_channel: bool) -> B {
    let mut b = B::new();
    b.u8("cjc.header", if with_channel { 0x3E } else { 0x3C }).u8("cjc.result", result).u16be("cjc.initiator", user_id.wrapping_sub(1001)).u16be("cjc.requested", requested);
    if with_channel {
        b.u16be("cjc.channelId", requested);
    }
    b
}

pub fn send_data_indication(initiator: u16, channel: u16, data: &B) -> B {
    send_data_indication_with(initiator, channel, data, 0x70)
}

pub fn send_data_indication_with(initiator: u16, channel: u16, data: &B, flags: u8) -> B {
    let mut b = B::new();
    b.u8("sdi.header", 0x68).u16be("sdi.initiator", initiator.wrapping_sub(1001)).u16be("sdi.channelId", channel).u8("sdi.priority", flags);
    b.per_len("sdi.length", data.len());
    b.nest("d", data);
    b
}

pub fn disconnect_ultimatum(reason: u8) -> B {
    let mut b = B::new();
    b.u8("dpu.header", 0x20 | (reason >> 1)).u8("dpu.reason", (reason & 1) << 7);
    b
}

// ------------------------------------------------------------------------------------------ security / licence

pub fn license_pdu(l: &License) -> B {
    license_pdu_with(l, 0x0080)
}

pub fn license_pdu_with(l: &License, sec_flags: u16) -> B {
    let mut body = B::new();
    let (msg_type, flags) = match l {
        License::ValidClient { flags, blob_type, blob } => {
            body.u32le("lic.dwErrorCode", 7).u32le("lic.dwStateTransition", 2).u16le("lic.wBlobType", *blob_type).u16le("lic.wBlobLen", blob.len() as u16).bytes("lic.blob", blob);
            (0xFFu8, *flags)
        }
        License::NewLicense { flags, body: bb } => {
            body.bytes("lic.body", bb);
            (0x03u8, *flags)
        }
    };
    let mut b = B::new();
    b.u16le("sec.flags", sec_flags).u16le("sec.flagsHi", 0);
    b.u8("lic.bMsgType", msg_type).u8("lic.flags", flags).u16le("lic.wMsgSize", (body.len() + 4) as u16);
    b.nest("l", &body);
    b
}

// ------------------------------------------------------------------------------------------ share control / data PDUs

pub fn share_control(pdu_type: u16, source: u16, body: &B) -> B {
    let mut b = B::new();
    b.u16le("sc.totalLength", (body.len() + 6) as u16).u16le("sc.pduType", pdu_type).u16le("sc.pduSource", source);
    b.nest("b", body);
    b
}

pub fn capability_sets(caps: &[(u16, Vec<u8>)]) -> B {
    let mut b = B::new();
    for (i, (t, body)) in caps.iter().enumerate() {
        b.u16le(&format!("cap{}.type", i), *t).u16le(&format!("cap{}.length", i), (body.len() + 4) as u16).bytes(&format!("cap{}.body", i), body);
    }
    b
}

pub fn demand_active(p: &Profile, share_id: u32) -> B {
    let caps = capability_sets(&p.caps);
    let mut body = B::new();
    body.u32le("da.shareId", share_id)
        .u16le("da.lengthSourceDescriptor", p.source_descriptor.len() as u16)
        .u16le("da.lengthCombinedCapabilities", (caps.len() + 4) as u16)
        .bytes("da.sourceDescriptor", &p.source_descriptor)
        .u16le("da.numberCapabilities", p.caps.len() as u16)
        .u16le("da.pad2Octets", 0);
    body.nest("caps", &caps);
    body.u32le("da.sessionId", p.session_id);
    share_control(0x0011, p.server_channel, &body)
}

pub fn deactivate_all(p: &Profile, share_id: u32) -> B {
    deactivate_all_with(p, share_id, &[0])
}

/// the source descriptor is a variable-length field (Windows sends one null byte)
pub fn deactivate_all_with(p: &Profile, share_id: u32, descriptor: &[u8]) -> B {
    let mut body = B::new();
    body.u32le("dea.shareId", share_id).u16le("dea.lengthSourceDescriptor", descriptor.len() as u16).bytes("dea.sourceDescriptor", descriptor);
    share_control(0x0016, p.server_channel, &body)
}

pub fn data_pdu(p: &Profile, share_id: u32, type2: u8, payload: &B) -> B {
    let mut body = B::new();
    body.u32le("sd.shareId", share_id)
        .u8("sd.pad1", 0)
        .u8("sd.streamId", p.stream_id)
        .u16le("sd.uncompressedLength", (payload.len() + 18) as u16)
        .u8("sd.pduType2", type2)
        .u8("sd.compressedType", 0)
        .u16le("sd.compressedLength", 0);
    body.nest("p", payload);
    share_control(0x0017, p.server_channel, &body)
}

pub fn synchronize(p: &Profile, share_id: u32, target: u16) -> B {
    let mut b = B::new();
    b.u16le("sync.messageType", 1).u16le("sync.targetUser", target);
    data_pdu(p, share_id, 0x1F, &b)
}

pub fn control(p: &Profile, share_id: u32, action: u16, grant_id: u16, control_id: u32) -> B {
    let mut b = B::new();
    b.u16le("ctl.action", action).u16le("ctl.grantId", grant_id).u32le("ctl.controlId", control_id);
    data_pdu(p, share_id, 0x14, &b)
}

pub fn font_map(p: &Profile, share_id: u32) -> B {
    let mut b = B::new();
    b.u16le("fm.numberEntries", 0).u16le("fm.totalNumEntries", 0).u16le("fm.mapFlags", 3).u16le("fm.entrySize", 4);
    data_pdu(p, share_id, 0x28, &b)
}

pub fn set_error_info(p: &Profile, share_id: u32, code: u32) -> B {
    let mut b = B::new();
    b.u32le("err.errorInfo", code);
    data_pdu(p, share_id, 0x2F, &b)
}

pub fn other_data_pdu(p: &Profile, share_id: u32, type2: u8, body: &[u8]) -> B {
    let mut b = B::new();
    b.bytes("other.body", body);
    data_pdu(p, share_id, type2, &b)
}

/// wrap a share-level PDU for the wire: MCS send-data-indication on the I/O channel, X.224, TPKT
pub fn slow_path_frame(p: &Profile, pdu: &B) -> B {
    tpkt(&x224_data(&send_data_indication_with(p.server_channel, p.io_channel, pdu, p.sdi_flags)))
}

// ------------------------------------------------------------------------------------------ fast-path output

#[derive(Clone, Debug, PartialEq)]
pub struct Rect {
    pub left: u16,
    pub top: u16,
    pub right: u16,
    pub bottom: u16,
    pub width: u16,
    pub height: u16,
    pub bpp: u16,
    /// wire flags: 0x0001 compressed, 0x0400 no compression header
    pub flags: u16,
    pub data: Vec<u8>,
}

impl Rect {
    pub fn compressed(&self) -> bool {
        self.flags & 1 != 0
    }
    pub fn has_hdr(&self) -> bool {
        self.flags & 1 != 0 && self.flags & 0x0400 == 0
    }
}

pub fn bitmap_update_body(rects: &[Rect]) -> B {
    let mut b = B::new();
    b.u16le("bmp.updateType", 1).u16le("bmp.numberRectangles", rects.len() as u16);
    for (i, r) in rects.iter().enumerate() {
        let n = format!("r{}", i);
        b.u16le(&format!("{}.destLeft", n), r.left)
            .u16le(&format!("{}.destTop", n), r.top)
            .u16le(&format!("{}.destRight", n), r.right)
            .u16le(&format!("{}.destBottom", n), r.bottom)
            .u16le(&format!("{}.width", n), r.width)
            .u16le(&format!("{}.height", n), r.height)
            .u16le(&format!("{}.bitsPerPixel", n), r.bpp)
            .u16le(&format!("{}.flags", n), r.flags);
        if r.has_hdr() {
            b.u16le(&format!("{}.bitmapLength", n), (r.data.len() + 8) as u16);
            b.u16le(&format!("{}.cbCompFirstRowSize", n), 0)
                .u16le(&format!("{}.cbCompMainBodySize", n), r.data.len() as u16)
                .u16le(&format!("{}.cbScanWidth", n), r.width.wrapping_mul(r.bpp / 8))
                .u16le(&format!("{}.cbUncompressedSize", n), (r.width as u32).wrapping_mul(r.height as u32).wrapping_mul(r.bpp as u32 / 8) as u16);
        } else {
            b.u16le(&format!("{}.bitmapLength", n), r.data.len() as u16);
        }
        b.bytes(&format!("{}.data", n), &r.data);
    }
    b
}

/// one fast-path update: header (code | fragmentation<<4 | compression<<6), size, data
pub fn fp_update(code: u8, data: &B) -> B {
    let mut b = B::new();
    b.u8("fpu.header", code & 0x0f).u16le("fpu.size", data.len() as u16);
    b.nest("u", data);
    b
}

/// fast-path output PDU: header byte, 1- or 2-byte length (includes the header), updates
pub fn fp_pdu(sec_flags: u8, long_form: bool, updates: &B) -> B {
    let mut b = B::new();
    b.u8("fp.header", sec_flags << 6);
    if long_form {
        let total = updates.len() + 3;
        b.u16be("fp.length", 0x8000 | total as u16);
    } else {
        let total = updates.len() + 2;
        b.u8("fp.length", total as u8);
    }
    b.nest("f", updates);
    b
}

// ------------------------------------------------------------------------------------------ strict parsing of client output

#[derive(Clone, Debug, PartialEq)]
pub struct ClientCore {
    pub version: u32,
    pub width: u16,
    pub height: u16,
    pub layout: u32,
    pub client_name: String,
    pub server_selected_protocol: u32,
    pub early_caps: u16,
}

#[derive(Clone, Debug, PartialEq)]
pub struct InfoPacket {
    pub flags: u32,
    pub domain: String,
    pub user: String,
    pub password: String,
    pub alternate_shell: String,
    pub working_dir: String,
    pub extended: bool,
    pub raw_password: Vec<u8>,
}

#[derive(Clone, Debug, PartialEq)]
pub struct InputEvent {
    pub time: u32,
    pub kind: u16,
    pub a: u16,
    pub b: u16,
    pub c: u16,
}

#[derive(Clone, Debug, PartialEq)]
pub enum ShareMsg {
    ConfirmActive { share_id: u32, originator: u16, source: Vec<u8>, caps: Vec<(u16, usize)> },
    Synchronize { share_id: u32, target: u16 },
    Control { share_id: u32, action: u16, grant_id: u16, control_id: u32 },
    FontList { share_id: u32 },
    Input { share_id: u32, events: Vec<InputEvent> },
    OtherData { share_id: u32, type2: u8 },
}

#[derive(Clone, Debug, PartialEq)]
pub enum ClientMsg {
    ConnectionRequest { flags: u8, protocols: u32, has_neg: bool },
    ConnectInitial { core: ClientCore, channel_count: u32, enc_methods: u32 },
    ErectDomain,
    AttachUser,
    ChannelJoin { initiator: u16, channel: u16 },
    ClientInfo { initiator: u16, channel: u16, info: InfoPacket },
    Share { initiator: u16, channel: u16, pdu_source: u16, msg: ShareMsg },
    Disconnect { reason: u8 },
}

impl ClientMsg {
    pub fn name(&self) -> String {
        match self {
            ClientMsg::ConnectionRequest { .. } => "CR".into(),
            ClientMsg::ConnectInitial { .. } => "ConnectInitial".into(),
            ClientMsg::ErectDomain => "ErectDomain".into(),
            ClientMsg::AttachUser => "AttachUser".into(),
            ClientMsg::ChannelJoin { .. } => "ChannelJoin".into(),
            ClientMsg::ClientInfo { .. } => "ClientInfo".into(),
            ClientMsg::Disconnect { .. } => "DPU".into(),
            ClientMsg::Share { msg, .. } => match msg {
                ShareMsg::ConfirmActive { .. } => "ConfirmActive".into(),
                ShareMsg::Synchronize { .. } => "Synchronize".into(),
                ShareMsg::Control { action, .. } => format!("Control({})", action),
                ShareMsg::FontList { .. } => "FontList".into(),
                ShareMsg::Input { .. } => "Input".into(),
                ShareMsg::OtherData { type2, .. } => format!("Data({:02x})", type2),
            },
        }
    }
}

/// capability set body sizes fixed by MS-RDPBCGR 2.2.7 (type -> total length including the 4-byte header)
pub fn cap_fixed_len(t: u16) -> Option<usize> {
    Some(match t {
        0x0001 => 24,
        0x0002 => 28,
        0x0003 => 88,
        0x0004 => 40,
        0x0008 => return None, // pointer: 8 or 10
        0x000C => 8,
        0x000D => 88,
        0x000F => 8,
        0x0010 => 52,
        0x0011 => 12,
        0x0014 => return None, // virtual channel: 8 or 12
        0x001A => 8,
        _ => return None,
    })
}

fn parse_cs_core(b: &[u8], notes: &mut Vec<String>) -> R<ClientCore> {
    let mut name_len = 32;
    if b.len() != 212 {
        notes.push(format!("CS_CORE body is {} bytes, expected 212 for the fields this client sends (clientName must occupy exactly 32 bytes)", b.len()));
        if b.len() < 180 || b.len() > 212 + 64 {
            return Err(format!("CS_CORE body is {} bytes", b.len()));
        }
        // recover: everything but clientName has a fixed size
        name_len = b.len() - 180;
    }
    let mut c = Cur::new(b);
    let version = c.u32le()?;
    let width = c.u16le()?;
    let height = c.u16le()?;
    let _color = c.u16le()?;
    let _sas = c.u16le()?;
    let layout = c.u32le()?;
    let _build = c.u32le()?;
    let name = c.take(name_len)?;
    // clientName: null-terminated UTF-16LE, at most 15 characters + terminator
    let units: Vec<u16> = name.chunks(2).filter(|x| x.len() == 2).map(|x| x[0] as u16 | (x[1] as u16) << 8).collect();
    let nul = match units.iter().position(|u| *u == 0) {
        Some(n) => n,
        None => {
            notes.push("clientName is not null-terminated within its field".to_string());
            units.len()
        }
    };
    let client_name = match String::from_utf16(&units[..nul]) {
        Ok(s) => s,
        Err(_) => {
            notes.push("clientName is not valid UTF-16 (split surrogate pair)".to_string());
            String::from_utf16_lossy(&units[..nul])
        }
    };
    let _kt = c.u32le()?;
    let _kst = c.u32le()?;
    let _kfn = c.u32le()?;
    let _ime = c.take(64)?;
    let _pb2 = c.u16le()?;
    let _pid = c.u16le()?;
    let _serial = c.u32le()?;
    let _hc = c.u16le()?;
    let _scd = c.u16le()?;
    let early_caps = c.u16le()?;
    let _dig = c.take(64)?;
    let _ct = c.u8()?;
    let _pad = c.u8()?;
    let server_selected_protocol = c.u32le()?;
    c.expect_end("CS_CORE")?;
    Ok(ClientCore { version, width, height, layout, client_name, server_selected_protocol, early_caps })
}

fn parse_conference_create_request(b: &[u8], notes: &mut Vec<String>) -> R<(ClientCore, u32, u32)> {
    let mut c = Cur::new(b);
    if c.u8()? != 0 {
        return Err("GCC: connect data choice".into());
    }
    if per::r_oid(&mut c)? != T124_OID {
        return Err("GCC: object identifier is not T.124".into());
    }
    let l = per::r_length_strict(&mut c)?;
    if l != c.rem() {
        return Err(format!("GCC: connectPDU length {} but {} bytes follow", l, c.rem()));
    }
    if c.u8()? != 0 {
        return Err("GCC: conferenceCreateRequest choice".into());
    }
    if c.u8()? != 0x08 {
        return Err("GCC: selection (userData present)".into());
    }
    let name = per::r_numeric(&mut c, 1)?;
    if name != b"1" {
        return Err(format!("GCC: conference name {:?}", name));
    }
    let _pad = c.u8()?;
    if c.u8()? != 1 {
        return Err("GCC: number of user data sets".into());
    }
    if c.u8()? != 0xc0 {
        return Err("GCC: h221NonStandard choice".into());
    }
    if per::r_octets(&mut c, 4)? != b"Duca" {
        return Err("GCC: h221 key".into());
    }
    let l = per::r_length_strict(&mut c)?;
    if l != c.rem() {
        return Err(format!("GCC: user data length {} but {} bytes follow", l, c.rem()));
    }
    let mut core = None;
    let mut chan = None;
    let mut enc = None;
    while !c.done() {
        let t = c.u16le()?;
        let len = c.u16le()? as usize;
        if len < 4 {
            return Err(format!("GCC: block {:04x} length {}", t, len));
        }
        let body = c.take(len - 4)?;
        match t {
            0xC001 => core = Some(parse_cs_core(body, notes)?),
            0xC002 => {
                if body.len() != 8 {
                    return Err(format!("CS_SECURITY body {} bytes", body.len()));
                }
                let mut k = Cur::new(body);
                enc = Some(k.u32le()?);
            }
            0xC003 => {
                let mut k = Cur::new(body);
                let n = k.u32le()?;
                if k.rem() != n as usize * 12 {
                    return Err(format!("CS_NET channelCount {} but {} bytes of channel definitions", n, k.rem()));
                }
                chan = Some(n);
            }
            0xC004 | 0xC005 | 0xC006 | 0xC008 | 0xC00A => {}
            _ => return Err(format!("GCC: unknown client block {:04x}", t)),
        }
    }
    Ok((core.ok_or("GCC: no CS_CORE")?, chan.ok_or("GCC: no CS_NET")?, enc.ok_or("GCC: no CS_SECURITY")?))
}

fn parse_domain_params(c: &mut Cur, what: &str) -> R<[u64; 8]> {
    let mut s = ber::r_seq(c, true, what)?;
    let mut out = [0u64; 8];
    for i in 0..8 {
        out[i] = ber::r_int(&mut s, true, what)?;
    }
    s.expect_end(what)?;
    Ok(out)
}

fn parse_connect_initial(b: &[u8], notes: &mut Vec<String>) -> R<ClientMsg> {
    let mut c = Cur::new(b);
    let mut s = ber::r_app(&mut c, 101, true, "Connect-Initial")?;
    c.expect_end("Connect-Initial")?;
    let _calling = ber::r_octets(&mut s, true, "callingDomainSelector")?;
    let _called = ber::r_octets(&mut s, true, "calledDomainSelector")?;
    let _up = ber::r_bool(&mut s, true, "upwardFlag")?;
    let _t = parse_domain_params(&mut s, "targetParameters")?;
    let _mn = parse_domain_params(&mut s, "minimumParameters")?;
    let _mx = parse_domain_params(&mut s, "maximumParameters")?;
    let ud = ber::r_octets(&mut s, true, "userData")?;
    s.expect_end("Connect-Initial content")?;
    let (core, channel_count, enc_methods) = parse_conference_create_request(ud, notes)?;
    Ok(ClientMsg::ConnectInitial { core, channel_count, enc_methods })
}

fn take_string(c: &mut Cur, cb: usize, what: &str) -> R<(String, Vec<u8>)> {
    // cb excludes the mandatory null terminator (2 bytes)
    if cb % 2 != 0 {
        return Err(format!("info: {} length {} is odd", what, cb));
    }
    let raw = c.take(cb)?.to_vec();
    let term = c.take(2).map_err(|_| format!("info: {} has no terminator", what))?;
    if term != [0, 0] {
        return Err(format!("info: {} is not null-terminated where its length field says", what));
    }
    let s = from_utf16le(&raw).map_err(|e| format!("info: {}: {}", what, e))?;
    if s.contains('\0') {
        return Err(format!("info: {} contains an embedded terminator", what));
    }
    Ok((s, raw))
}

fn parse_info_packet(b: &[u8], notes: &mut Vec<String>) -> R<InfoPacket> {
    let mut c = Cur::new(b);
    let _codepage = c.u32le()?;
    let flags = c.u32le()?;
    if flags & 0x10 == 0 {
        return Err("info: INFO_UNICODE not set".into());
    }
    let cb_domain = c.u16le()? as usize;
    let cb_user = c.u16le()? as usize;
    let cb_pass = c.u16le()? as usize;
    let cb_shell = c.u16le()? as usize;
    let cb_dir = c.u16le()? as usize;
    let (domain, _) = take_string(&mut c, cb_domain, "domain")?;
    let (user, _) = take_string(&mut c, cb_user, "userName")?;
    let (password, raw_password) = take_string(&mut c, cb_pass, "password")?;
    let (alternate_shell, _) = take_string(&mut c, cb_shell, "alternateShell")?;
    let (working_dir, _) = take_string(&mut c, cb_dir, "workingDir")?;
    let mut extended = false;
    if !c.done() {
        extended = true;
        let _af = c.u16le()?;
        // cbClientAddress / cbClientDir INCLUDE the mandatory terminator (MS-RDPBCGR 2.2.1.11.1.1.1)
        for what in ["ClientAddress", "ClientDir"].iter() {
            let cb = c.u16le()? as usize;
            let save = c.p;
            let ok = match c.take(cb) {
                Ok(a) => cb >= 2 && a[cb - 2..] == [0, 0],
                Err(_) => false,
            };
            if !ok {
                // recover with the reading "cb excludes the terminator"
                c.p = save;
                notes.push(format!("info: cb{} = {} does not cover a null-terminated string (the field must include the terminator)", what, cb));
                c.take(cb + 2).map_err(|_| format!("info: {} shorter than announced", what))?;
            }
        }
        let _tz = c.take(172)?;
        let _session = c.u32le()?;
        let _perf = c.u32le()?;
        // further optional fields (auto-reconnect cookie ...) are not sent by this client
        c.expect_end("extended info")?;
    }
    Ok(InfoPacket { flags, domain, user, password, alternate_shell, working_dir, extended, raw_password })
}

fn parse_confirm_active(c: &mut Cur) -> R<ShareMsg> {
    let share_id = c.u32le()?;
    let originator = c.u16le()?;
    let lsd = c.u16le()? as usize;
    let lcc = c.u16le()? as usize;
    let source = c.take(lsd)?.to_vec();
    if lcc != c.rem() {
        return Err(format!("confirm-active lengthCombinedCapabilities {} but {} bytes follow", lcc, c.rem()));
    }
    let n = c.u16le()? as usize;
    let _pad = c.u16le()?;
    let mut caps = Vec::new();
    while !c.done() {
        let t = c.u16le()?;
        let l = c.u16le()? as usize;
        if l < 4 {
            return Err(format!("capability {:04x} length {}", t, l));
        }
        c.take(l - 4).map_err(|_| format!("capability {:04x} length {} exceeds the PDU", t, l))?;
        if let Some(f) = cap_fixed_len(t) {
            if f != l {
                return Err(format!("capability {:04x} has length {}, specified size is {}", t, l, f));
            }
        }
        caps.push((t, l));
    }
    if caps.len() != n {
        return Err(format!("confirm-active numberCapabilities {} but {} sets present", n, caps.len()));
    }
    if originator != 0x03EA {
        return Err(format!("confirm-active originatorId {:04x}", originator));
    }
    Ok(ShareMsg::ConfirmActive { share_id, originator, source, caps })
}

fn parse_share(b: &[u8]) -> R<(u16, ShareMsg)> {
    let mut c = Cur::new(b);
    let total = c.u16le()? as usize;
    if total != b.len() {
        return Err(format!("share control totalLength {} but the PDU is {} bytes", total, b.len()));
    }
    let t = c.u16le()?;
    let source = c.u16le()?;
    match t {
        0x0013 => Ok((source, parse_confirm_active(&mut c)?)),
        0x0017 => {
            let share_id = c.u32le()?;
            let _pad = c.u8()?;
            let _stream = c.u8()?;
            let _ulen = c.u16le()?;
            let type2 = c.u8()?;
            let ctype = c.u8()?;
            let clen = c.u16le()?;
            if ctype != 0 || clen != 0 {
                return Err("share data header announces compression".into());
            }
            let msg = match type2 {
                0x1F => {
                    let mt = c.u16le()?;
                    let target = c.u16le()?;
                    c.expect_end("synchronize")?;
                    if mt != 1 {
                        return Err(format!("synchronize messageType {}", mt));
                    }
                    ShareMsg::Synchronize { share_id, target }
                }
                0x14 => {
                    let action = c.u16le()?;
                    let grant_id = c.u16le()?;
                    let control_id = c.u32le()?;
                    c.expect_end("control")?;
                    ShareMsg::Control { share_id, action, grant_id, control_id }
                }
                0x27 => {
                    let _n = c.u16le()?;
                    let _t = c.u16le()?;
                    let _f = c.u16le()?;
                    let es = c.u16le()?;
                    c.expect_end("font list")?;
                    if es != 0x0032 {
                        return Err(format!("font list entrySize {:04x}", es));
                    }
                    ShareMsg::FontList { share_id }
                }
                0x1C => {
                    let n = c.u16le()? as usize;
                    let _pad = c.u16le()?;
                    if c.rem() != n * 12 {
                        return Err(format!("input PDU numEvents {} but {} bytes of events", n, c.rem()));
                    }
                    let mut events = Vec::new();
                    for _ in 0..n {
                        let time = c.u32le()?;
                        let kind = c.u16le()?;
                        let a = c.u16le()?;
                        let b2 = c.u16le()?;
                        let c2 = c.u16le()?;
                        events.push(InputEvent { time, kind, a, b: b2, c: c2 });
                    }
                    ShareMsg::Input { share_id, events }
                }
                _ => ShareMsg::OtherData { share_id, type2 },
            };
            Ok((source, msg))
        }
        _ => Err(format!("unexpected share control pduType {:04x} from a client", t)),
    }
}

/// Strictly parse one complete TPKT frame written by the client (no TLS layer here).
pub fn parse_client_frame(frame: &[u8]) -> R<(ClientMsg, Vec<String>)> {
    let mut notes = Vec::new();
    let m = parse_client_frame_inner(frame, &mut notes)?;
    Ok((m, notes))
}

/// recoverable strictness breaches are appended to `notes`; unrecoverable ones are errors
fn parse_client_frame_inner(frame: &[u8], notes: &mut Vec<String>) -> R<ClientMsg> {
    let mut c = Cur::new(frame);
    if c.u8()? != 3 {
        return Err("TPKT version".into());
    }
    let _res = c.u8()?;
    let len = c.u16be()? as usize;
    if len != frame.len() {
        return Err(format!("TPKT length {} but the frame is {} bytes", len, frame.len()));
    }
    let li = c.u8()? as usize;
    let code = c.u8()?;
    match code {
        0xE0 => {
            // connection request
            if li != frame.len() - 5 {
                return Err(format!("X.224 CR LI {} but {} bytes follow", li, frame.len() - 5));
            }
            let _dst = c.u16be()?;
            let _src = c.u16be()?;
            let class = c.u8()?;
            if class != 0 {
                return Err("X.224 class".into());
            }
            // optional cookie / routing token terminated by CR LF, then optional negotiation request
            let rest = c.rest();
            let mut k = Cur::new(rest);
            if rest.is_empty() {
                return Ok(ClientMsg::ConnectionRequest { flags: 0, protocols: 0, has_neg: false });
            }
            let t = k.u8()?;
            if t != 1 {
                return Err(format!("negotiation request type {}", t));
            }
            let flags = k.u8()?;
            let l = k.u16le()?;
            if l != 8 {
                return Err(format!("negotiation request length {}", l));
            }
            let protocols = k.u32le()?;
            k.expect_end("negotiation request")?;
            // MS-RDPBCGR 2.2.1.1.1: 0x01 restricted admin, 0x02 redirected authentication, 0x08 correlation info present
            // (a 36-byte RDP_NEG_CORRELATION_INFO then follows the request; nothing follows it here)
            if flags & 0x08 != 0 {
                return Err("negotiation request: rdpCorrelationInfo announced (flag 0x08) but absent".into());
            }
            if flags & !0x0b != 0 {
                return Err(format!("negotiation request: undefined flag bits {:#04x}", flags & !0x0b));
            }
            Ok(ClientMsg::ConnectionRequest { flags, protocols, has_neg: true })
        }
        0xF0 => {
            if li != 2 {
                return Err(format!("X.224 data LI {}", li));
            }
            if c.u8()? != 0x80 {
                return Err("X.224 EOT".into());
            }
            let m = c.rest();
            if m.is_empty() {
                return Err("empty MCS PDU".into());
            }
            if m[0] == 0x7f {
                return parse_connect_initial(m, notes);
            }
            let mut k = Cur::new(m);
            let h = k.u8()?;
            match h >> 2 {
                1 => {
                    let a = per::r_integer(&mut k)?;
                    let b = per::r_integer(&mut k)?;
                    k.expect_end("erect domain")?;
                    let _ = (a, b);
                    Ok(ClientMsg::ErectDomain)
                }
                10 => {
                    k.expect_end("attach user")?;
                    Ok(ClientMsg::AttachUser)
                }
                14 => {
                    let initiator = k.u16be()?.wrapping_add(1001);
                    let channel = k.u16be()?;
                    k.expect_end("channel join")?;
                    Ok(ClientMsg::ChannelJoin { initiator, channel })
                }
                8 => {
                    let r = k.u8()?;
                    let reason = (h & 3) << 1 | r >> 7;
                    if !k.done() {
                        notes.push(format!("disconnect provider ultimatum: {} bytes after the 2-byte PDU", k.rem()));
                    }
                    Ok(ClientMsg::Disconnect { reason })
                }
                25 => {
                    let initiator = k.u16be()?.wrapping_add(1001);
                    let channel = k.u16be()?;
                    let _prio = k.u8()?;
                    let l = per::r_length_strict(&mut k)?;
                    if l != k.rem() {
                        return Err(format!("MCS send-data length {} but {} bytes follow", l, k.rem()));
                    }
                    let d = k.rest();
                    // security header only on the info packet (no standard RDP encryption here)
                    if d.len() >= 4 && d[0] == 0x40 && d[1] == 0 && d[2] == 0 && d[3] == 0 {
                        let info = parse_info_packet(&d[4..], notes)?;
                        return Ok(ClientMsg::ClientInfo { initiator, channel, info });
                    }
                    let (pdu_source, msg) = parse_share(d)?;
                    Ok(ClientMsg::Share { initiator, channel, pdu_source, msg })
                }
                n => Err(format!("unexpected MCS PDU {} from a client", n)),
            }
        }
        _ => Err(format!("X.224 code {:02x}", code)),
    }
}

/// split a byte stream into complete TPKT frames; returns frames and the number of bytes consumed
pub fn split_tpkt(buf: &[u8]) -> (Vec<Vec<u8>>, usize, Option<String>) {
    let mut out = Vec::new();
    let mut p = 0;
    while buf.len() - p >= 4 {
        if buf[p] != 3 {
            return (out, p, Some(format!("byte {:02x} where a TPKT header was expected", buf[p])));
        }
        let l = (buf[p + 2] as usize) << 8 | buf[p + 3] as usize;
        if l < 4 {
            return (out, p, Some(format!("TPKT length {}", l)));
        }
        if buf.len() - p < l {
            break;
        }
        out.push(buf[p..p + l].to_vec());
        p += l;
    }
    (out, p, None)
}
