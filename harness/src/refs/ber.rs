//! Reference BER/DER (X.690): a tiny value tree, a DER encoder, a strict DER decoder and a lenient BER decoder.
use super::bytes::*;

#[derive(Clone, Debug, PartialEq)]
pub enum Asn {
    Int(u64),
    Enum(i64),
    Bool(bool),
    Octets(Vec<u8>),
    Seq(Vec<Asn>),
    /// explicit context tag [n]
    Ctx(u8, Box<Asn>),
    /// implicit application tag (constructed) around a sequence's content
    App(u32, Vec<Asn>),
}

pub fn w_len(v: &mut Vec<u8>, n: usize) {
    if n < 0x80 {
        v.push(n as u8);
    } else if n <= 0xff {
        v.push(0x81);
        v.push(n as u8);
    } else if n <= 0xffff {
        v.push(0x82);
        p16be(v, n as u16);
    } else {
        v.push(0x83);
        v.push((n >> 16) as u8);
        p16be(v, n as u16);
    }
}

/// non-minimal / alternative length forms for BER
pub fn w_len_form(v: &mut Vec<u8>, n: usize, form: u8) {
    match form {
        1 if n <= 0xff => {
            v.push(0x81);
            v.push(n as u8);
        }
        2 if n <= 0xffff => {
            v.push(0x82);
            p16be(v, n as u16);
        }
        3 => {
            v.push(0x84);
            p32be(v, n as u32);
        }
        _ => w_len(v, n),
    }
}

fn int_bytes(x: u64) -> Vec<u8> {
    let mut b = x.to_be_bytes().to_vec();
    while b.len() > 1 && b[0] == 0 && b[1] & 0x80 == 0 {
        b.remove(0);
    }
    if b[0] & 0x80 != 0 {
        b.insert(0, 0);
    }
    b
}

fn sint_bytes(x: i64) -> Vec<u8> {
    let mut b = x.to_be_bytes().to_vec();
    while b.len() > 1 && ((b[0] == 0 && b[1] & 0x80 == 0) || (b[0] == 0xff && b[1] & 0x80 != 0)) {
        b.remove(0);
    }
    b
}

fn w_tag_app(v: &mut Vec<u8>, n: u32, constructed: bool) {
    let c = if constructed { 0x20 } else { 0 };
    if n < 31 {
        v.push(0x40 | c | n as u8);
    } else {
        v.push(0x40 | c | 0x1f);
        // base-128
        let mut tmp = vec![(n & 0x7f) as u8];
        let mut m = n >> 7;
        while m > 0 {
            tmp.insert(0, 0x80 | (m & 0x7f) as u8);
            m >>= 7;
        }
        v.extend_from_slice(&tmp);
    }
}

pub fn der(a: &Asn) -> Vec<u8> {
    der_form(a, &mut |_| 0)
}

/// encode with a per-element choice of length form (0 = minimal/DER)
pub fn der_form(a: &Asn, form: &mut dyn FnMut(usize) -> u8) -> Vec<u8> {
    let mut v = Vec::new();
    let (tag, content): (Vec<u8>, Vec<u8>) = match a {
        Asn::Int(x) => (vec![0x02], int_bytes(*x)),
        Asn::Enum(x) => (vec![0x0a], sint_bytes(*x)),
        Asn::Bool(b) => (vec![0x01], vec![if *b { 0xff } else { 0 }]),
        Asn::Octets(o) => (vec![0x04], o.clone()),
        Asn::Seq(items) => {
            let mut c = Vec::new();
            for i in items {
                c.extend_from_slice(&der_form(i, form));
            }
            (vec![0x30], c)
        }
        Asn::Ctx(n, inner) => (vec![0xa0 | n], der_form(inner, form)),
        Asn::App(n, items) => {
            let mut c = Vec::new();
            for i in items {
                c.extend_from_slice(&der_form(i, form));
            }
            let mut t = Vec::new();
            w_tag_app(&mut t, *n, true);
            (t, c)
        }
    };
    v.extend_from_slice(&tag);
    let f = form(content.len());
    w_len_form(&mut v, content.len(), f);
    v.extend_from_slice(&content);
    v
}

pub struct Tlv<'a> {
    pub class: u8,
    pub constructed: bool,
    pub tag: u32,
    pub content: &'a [u8],
}

/// read one TLV; strict = DER (definite, minimal lengths)
pub fn r_tlv<'a>(c: &mut Cur<'a>, strict: bool) -> R<Tlv<'a>> {
    let t = c.u8()?;
    let class = t >> 6;
    let constructed = t & 0x20 != 0;
    let mut tag = (t & 0x1f) as u32;
    if tag == 0x1f {
        tag = 0;
        loop {
            let b = c.u8()?;
            tag = tag << 7 | (b & 0x7f) as u32;
            if b & 0x80 == 0 {
                break;
            }
            if tag > 0xffffff {
                return Err("tag too large".into());
            }
        }
    }
    let l = c.u8()?;
    let len = if l < 0x80 {
        l as usize
    } else if l == 0x80 {
        return Err("indefinite length".into());
    } else {
        let n = (l & 0x7f) as usize;
        if n > 4 {
            return Err("length of length > 4".into());
        }
        let mut v = 0usize;
        let bytes = c.take(n)?;
        for b in bytes {
            v = v << 8 | *b as usize;
        }
        if strict {
            if v < 0x80 || bytes[0] == 0 {
                return Err(format!("non-minimal DER length {} in {} octets", v, n));
            }
        }
        v
    };
    let content = c.take(len)?;
    Ok(Tlv { class, constructed, tag, content })
}

fn expect<'a>(c: &mut Cur<'a>, class: u8, constructed: bool, tag: u32, strict: bool, what: &str) -> R<&'a [u8]> {
    let t = r_tlv(c, strict)?;
    if t.class != class || t.constructed != constructed || t.tag != tag {
        return Err(format!("{}: expected class {} tag {} constructed {}, found class {} tag {} constructed {}", what, class, tag, constructed, t.class, t.tag, t.constructed));
    }
    Ok(t.content)
}

pub fn r_int(c: &mut Cur, strict: bool, what: &str) -> R<u64> {
    let b = expect(c, 0, false, 2, strict, what)?;
    if b.is_empty() || b.len() > 9 {
        return Err(format!("{}: integer of {} octets", what, b.len()));
    }
    if b[0] & 0x80 != 0 {
        return Err(format!("{}: negative integer", what));
    }
    if strict && b.len() > 1 && b[0] == 0 && b[1] & 0x80 == 0 {
        return Err(format!("{}: non-minimal integer", what));
    }
    let mut v = 0u64;
    for x in b {
        v = v << 8 | *x as u64;
    }
    Ok(v)
}

pub fn r_enum(c: &mut Cur, strict: bool, what: &str) -> R<i64> {
    let b = expect(c, 0, false, 10, strict, what)?;
    if b.is_empty() || b.len() > 8 {
        return Err(format!("{}: enumerated of {} octets", what, b.len()));
    }
    let mut v: i64 = if b[0] & 0x80 != 0 { -1 } else { 0 };
    for x in b {
        v = v << 8 | *x as i64;
    }
    Ok(v)
}

pub fn r_bool(c: &mut Cur, strict: bool, what: &str) -> R<bool> {
    let b = expect(c, 0, false, 1, strict, what)?;
    if b.len() != 1 {
        return Err(format!("{}: boolean length", what));
    }
    if strict && b[0] != 0 && b[0] != 0xff {
        return Err(format!("{}: DER boolean {:02x}", what, b[0]));
    }
    Ok(b[0] != 0)
}

pub fn r_octets<'a>(c: &mut Cur<'a>, strict: bool, what: &str) -> R<&'a [u8]> {
    expect(c, 0, false, 4, strict, what)
}

pub fn r_seq<'a>(c: &mut Cur<'a>, strict: bool, what: &str) -> R<Cur<'a>> {
    Ok(Cur::new(expect(c, 0, true, 16, strict, what)?))
}

pub fn r_ctx<'a>(c: &mut Cur<'a>, n: u8, strict: bool, what: &str) -> R<Cur<'a>> {
    Ok(Cur::new(expect(c, 2, true, n as u32, strict, what)?))
}

pub fn r_app<'a>(c: &mut Cur<'a>, n: u32, strict: bool, what: &str) -> R<Cur<'a>> {
    Ok(Cur::new(expect(c, 1, true, n, strict, what)?))
}

/// peek the next tag (class, constructed, number) without consuming
pub fn peek(c: &Cur) -> Option<(u8, bool, u32)> {
    let mut k = Cur::new(&c.b[c.p..]);
    let t = k.u8().ok()?;
    let mut tag = (t & 0x1f) as u32;
    if tag == 0x1f {
        tag = 0;
        loop {
            let b = k.u8().ok()?;
            tag = tag << 7 | (b & 0x7f) as u32;
            if b & 0x80 == 0 {
                break;
            }
        }
    }
    Some((t >> 6, t & 0x20 != 0, tag))
}
