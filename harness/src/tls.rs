//! Single-threaded, reactive TLS server side: an OpenSSL server state machine over an in-memory
//! pipe. The client under test runs its real `start_ssl` (native-tls -> OpenSSL) against it, and
//! every handshake step happens synchronously inside the client's own write/read calls, so the
//! whole connection stays deterministic.

use openssl::asn1::Asn1Time;
use openssl::bn::{BigNum, MsbOption};
use openssl::ec::{EcGroup, EcKey};
use openssl::hash::MessageDigest;
use openssl::nid::Nid;
use openssl::pkey::{PKey, Private};
use openssl::rsa::Rsa;
use openssl::ssl::{ErrorCode, HandshakeError, MidHandshakeSslStream, SslAcceptor, SslMethod, SslStream, SslVersion};
use openssl::x509::{X509NameBuilder, X509};
use std::collections::VecDeque;
use std::io::{self, Read, Write};
use std::sync::{Arc, OnceLock};

#[derive(Default, Debug)]
pub struct MemPipe {
    pub incoming: VecDeque<u8>,
    pub outgoing: Vec<u8>,
}

impl Read for MemPipe {
    fn read(&mut self, buf: &mut [u8]) -> io::Result<usize> {
        if self.incoming.is_empty() {
            return Err(io::Error::new(io::ErrorKind::WouldBlock, "no data yet"));
        }
        let n = buf.len().min(self.incoming.len());
        for b in buf.iter_mut().take(n) {
            *b = self.incoming.pop_front().unwrap();
        }
        Ok(n)
    }
}

impl Write for MemPipe {
    fn write(&mut self, buf: &[u8]) -> io::Result<usize> {
        self.outgoing.extend_from_slice(buf);
        Ok(buf.len())
    }
    fn flush(&mut self) -> io::Result<()> {
        Ok(())
    }
}

#[derive(Clone, Copy, Debug, PartialEq, Eq, Hash)]
pub enum KeyType {
    Rsa2048,
    Rsa3072,
    EcP256,
    /// RSA-2048 with a fixed serial number and the common name given: two such identities differ only in their key
    Rsa2048Twin,
    /// Ed25519 whose raw public key starts with these bytes (the key is the whole BIT STRING content, so its
    /// first byte is the low-order byte of the number CredSSP increments)
    Ed25519Prefix(&'static [u8]),
}

pub struct Identity {
    pub key: PKey<Private>,
    pub cert: X509,
    pub cert_der: Vec<u8>,
    /// content of the subjectPublicKey BIT STRING (without the unused-bits octet), extracted with the
    /// harness's own BER reader
    pub subject_public_key: Vec<u8>,
    pub key_type: KeyType,
}

fn make_identity(kt: KeyType, cn: &str, expired: bool) -> Identity {
    let key = match kt {
        KeyType::Rsa2048 | KeyType::Rsa2048Twin => PKey::from_rsa(Rsa::generate(2048).unwrap()).unwrap(),
        KeyType::Rsa3072 => PKey::from_rsa(Rsa::generate(3072).unwrap()).unwrap(),
        KeyType::EcP256 => {
            let g = EcGroup::from_curve_name(Nid::X9_62_PRIME256V1).unwrap();
            PKey::from_ec_key(EcKey::generate(&g).unwrap()).unwrap()
        }
        KeyType::Ed25519Prefix(pre) => loop {
            let k = PKey::generate_ed25519().unwrap();
            if k.raw_public_key().unwrap().starts_with(pre) {
                break k;
            }
        },
    };
    let mut name = X509NameBuilder::new().unwrap();
    name.append_entry_by_text("CN", cn).unwrap();
    let name = name.build();
    let mut b = X509::builder().unwrap();
    b.set_version(2).unwrap();
    let mut serial = BigNum::new().unwrap();
    if matches!(kt, KeyType::Rsa2048Twin) {
        serial = BigNum::from_u32(0x0123_4567).unwrap();
    } else {
        serial.rand(64, MsbOption::MAYBE_ZERO, false).unwrap();
    }
    b.set_serial_number(&serial.to_asn1_integer().unwrap()).unwrap();
    b.set_subject_name(&name).unwrap();
    b.set_issuer_name(&name).unwrap();
    b.set_pubkey(&key).unwrap();
    if expired {
        b.set_not_before(&Asn1Time::from_unix(1_000_000_000).unwrap()).unwrap();
        b.set_not_after(&Asn1Time::from_unix(1_100_000_000).unwrap()).unwrap();
    } else {
        b.set_not_before(&Asn1Time::days_from_now(0).unwrap()).unwrap();
        b.set_not_after(&Asn1Time::days_from_now(365).unwrap()).unwrap();
    }
    if matches!(kt, KeyType::Ed25519Prefix(_)) {
        b.sign(&key, MessageDigest::null()).unwrap();
    } else {
        b.sign(&key, MessageDigest::sha256()).unwrap();
    }
    let cert = b.build();
    let cert_der = cert.to_der().unwrap();
    let subject_public_key = spk_from_cert(&cert_der).expect("own certificate parses");
    Identity { key, cert, cert_der, subject_public_key, key_type: kt }
}

/// Certificate ::= SEQUENCE { tbsCertificate SEQUENCE { [0] version, serial, signature, issuer, validity,
/// subject, subjectPublicKeyInfo SEQUENCE { algorithm, subjectPublicKey BIT STRING } ... } ... }
pub fn spk_from_cert(cert_der: &[u8]) -> Result<Vec<u8>, String> {
    use crate::refs::ber::*;
    use crate::refs::bytes::Cur;
    let mut c = Cur::new(cert_der);
    let mut cert = r_seq(&mut c, true, "Certificate")?;
    let mut tbs = r_seq(&mut cert, true, "tbsCertificate")?;
    if let Some((2, true, 0)) = peek(&tbs) {
        r_tlv(&mut tbs, true)?;
    }
    for _ in 0..5 {
        r_tlv(&mut tbs, true)?; // serial, signature alg, issuer, validity, subject
    }
    let mut spki = r_seq(&mut tbs, true, "subjectPublicKeyInfo")?;
    r_tlv(&mut spki, true)?; // algorithm
    let bits = r_tlv(&mut spki, true)?;
    if bits.class != 0 || bits.tag != 3 || bits.content.is_empty() {
        return Err("subjectPublicKey is not a BIT STRING".into());
    }
    Ok(bits.content[1..].to_vec())
}

static IDS: OnceLock<Vec<Arc<Identity>>> = OnceLock::new();

/// identities are generated once per process: [rsa2048, rsa2048 (second, for relay cases), ec p256, rsa3072, expired rsa2048]
static SPECIAL: OnceLock<Vec<Arc<Identity>>> = OnceLock::new();
/// identities 5, 6, 7: Ed25519 keys whose low-order bytes are ff / fe / ff ff (carry cases of the +1)
pub const SPECIAL_IDENTITIES: [usize; 3] = [5, 6, 7];
/// identities 8 and 9: same issuer, subject and serial number, different RSA keys
pub const TWIN_IDENTITIES: [usize; 2] = [8, 9];
static TWINS: OnceLock<Vec<Arc<Identity>>> = OnceLock::new();

/// identity 10: a leaf certificate issued by the harness's own certification authority, which is the ONLY trust anchor
/// of this process (`init_trust_env` points SSL_CERT_FILE at a file of the process's own and the authority's certificate
/// is written there): the one certificate a client that checks certificates can accept here
pub const TRUSTED_IDENTITY: usize = 10;
static TRUST_PATH: OnceLock<std::path::PathBuf> = OnceLock::new();
static TRUSTED: OnceLock<Arc<Identity>> = OnceLock::new();

/// to be called once at process start, before any thread exists and before any TLS connector is built
pub fn init_trust_env() {
    let dir = std::env::current_exe().ok().and_then(|p| p.parent().map(|d| d.to_path_buf())).unwrap_or_else(std::env::temp_dir);
    let path = dir.join(format!("trusted-ca-{}.pem", std::process::id()));
    // nothing is trusted until the harness authority is written into the file
    let _ = std::fs::write(&path, b"");
    std::env::set_var("SSL_CERT_FILE", &path);
    std::env::set_var("SSL_CERT_DIR", dir.join("no-such-certificate-directory"));
    let _ = TRUST_PATH.set(path);
}

pub fn cleanup_trust_env() {
    if let Some(p) = TRUST_PATH.get() {
        let _ = std::fs::remove_file(p);
    }
}

fn make_trusted() -> Identity {
    use openssl::x509::extension::{BasicConstraints, KeyUsage};
    let group = EcGroup::from_curve_name(Nid::X9_62_PRIME256V1).unwrap();
    let ca_key = PKey::from_ec_key(EcKey::generate(&group).unwrap()).unwrap();
    let mut n = X509NameBuilder::new().unwrap();
    n.append_entry_by_text("CN", "rdpverif harness authority").unwrap();
    let ca_name = n.build();
    let mut b = X509::builder().unwrap();
    b.set_version(2).unwrap();
    let mut serial = BigNum::new().unwrap();
    serial.rand(64, MsbOption::MAYBE_ZERO, false).unwrap();
    b.set_serial_number(&serial.to_asn1_integer().unwrap()).unwrap();
    b.set_subject_name(&ca_name).unwrap();
    b.set_issuer_name(&ca_name).unwrap();
    b.set_pubkey(&ca_key).unwrap();
    b.set_not_before(&Asn1Time::days_from_now(0).unwrap()).unwrap();
    b.set_not_after(&Asn1Time::days_from_now(365).unwrap()).unwrap();
    b.append_extension(BasicConstraints::new().critical().ca().build().unwrap()).unwrap();
    b.append_extension(KeyUsage::new().critical().key_cert_sign().crl_sign().build().unwrap()).unwrap();
    b.sign(&ca_key, MessageDigest::sha256()).unwrap();
    let ca = b.build();
    if let Some(p) = TRUST_PATH.get() {
        let _ = std::fs::write(p, ca.to_pem().unwrap());
    }
    let key = PKey::from_ec_key(EcKey::generate(&group).unwrap()).unwrap();
    let mut n = X509NameBuilder::new().unwrap();
    n.append_entry_by_text("CN", "rdpverif-trusted").unwrap();
    let name = n.build();
    let mut b = X509::builder().unwrap();
    b.set_version(2).unwrap();
    let mut serial = BigNum::new().unwrap();
    serial.rand(64, MsbOption::MAYBE_ZERO, false).unwrap();
    b.set_serial_number(&serial.to_asn1_integer().unwrap()).unwrap();
    b.set_subject_name(&name).unwrap();
    b.set_issuer_name(&ca_name).unwrap();
    b.set_pubkey(&key).unwrap();
    b.set_not_before(&Asn1Time::days_from_now(0).unwrap()).unwrap();
    b.set_not_after(&Asn1Time::days_from_now(365).unwrap()).unwrap();
    b.sign(&ca_key, MessageDigest::sha256()).unwrap();
    let cert = b.build();
    let cert_der = cert.to_der().unwrap();
    let subject_public_key = spk_from_cert(&cert_der).expect("own certificate parses");
    Identity { key, cert, cert_der, subject_public_key, key_type: KeyType::EcP256 }
}

/// is the trusted identity really acceptable to an independent verification against the file the process trusts?
/// (the harness's own precondition; false when the trust file could not be set up)
pub fn trusted_identity_verifies() -> bool {
    use openssl::stack::Stack;
    use openssl::x509::store::X509StoreBuilder;
    use openssl::x509::X509StoreContext;
    let leaf = identity(TRUSTED_IDENTITY);
    let pem = match TRUST_PATH.get().and_then(|p| std::fs::read(p).ok()) {
        Some(p) => p,
        None => return false,
    };
    let cas = match X509::stack_from_pem(&pem) {
        Ok(c) if !c.is_empty() => c,
        _ => return false,
    };
    let mut sb = X509StoreBuilder::new().unwrap();
    for c in cas {
        let _ = sb.add_cert(c);
    }
    let store = sb.build();
    let chain = Stack::new().unwrap();
    let mut ctx = X509StoreContext::new().unwrap();
    ctx.init(&store, &leaf.cert, &chain, |c| c.verify_cert()).unwrap_or(false)
}

pub fn identity(i: usize) -> Arc<Identity> {
    if i == TRUSTED_IDENTITY {
        return TRUSTED.get_or_init(|| Arc::new(make_trusted())).clone();
    }
    if i == 8 || i == 9 {
        let v = TWINS.get_or_init(|| vec![Arc::new(make_identity(KeyType::Rsa2048Twin, "rdpverif-twin", false)), Arc::new(make_identity(KeyType::Rsa2048Twin, "rdpverif-twin", false))]);
        return v[i - 8].clone();
    }
    if i >= 5 && i < 8 {
        let v = SPECIAL.get_or_init(|| {
            vec![
                Arc::new(make_identity(KeyType::Ed25519Prefix(&[0xff]), "rdpverif-ed-ff", false)),
                Arc::new(make_identity(KeyType::Ed25519Prefix(&[0xfe]), "rdpverif-ed-fe", false)),
                Arc::new(make_identity(KeyType::Ed25519Prefix(&[0xff, 0xff]), "rdpverif-ed-ffff", false)),
            ]
        });
        return v[i - 5].clone();
    }
    let v = IDS.get_or_init(|| {
        vec![
            Arc::new(make_identity(KeyType::Rsa2048, "rdpverif-a", false)),
            Arc::new(make_identity(KeyType::Rsa2048, "rdpverif-b", false)),
            Arc::new(make_identity(KeyType::EcP256, "rdpverif-ec", false)),
            Arc::new(make_identity(KeyType::Rsa3072, "rdpverif-3072", false)),
            Arc::new(make_identity(KeyType::Rsa2048, "rdpverif-expired", true)),
        ]
    });
    v[i % v.len()].clone()
}
pub const N_IDENTITIES: usize = 5;

/// generate the process-wide identities now, on the calling (unwatched) thread: key generation - the search for an
/// Ed25519 key with a given prefix in particular - must not be charged to the CPU budget of whichever case asks first
pub fn prewarm(special: bool) {
    let _ = identity(0);
    if special {
        let _ = identity(SPECIAL_IDENTITIES[0]);
        let _ = identity(TWIN_IDENTITIES[0]);
    }
}

pub enum TlsState {
    Start(SslAcceptor),
    Mid(MidHandshakeSslStream<MemPipe>),
    Up(SslStream<MemPipe>),
    Failed(String),
    Closed,
    Transition,
}

pub struct TlsServer {
    pub state: TlsState,
    pub handshake_done: bool,
    pub peer_closed: bool,
}

impl TlsServer {
    pub fn new(id: &Identity, tls12_only: bool) -> Self {
        let mut b = SslAcceptor::mozilla_intermediate_v5(SslMethod::tls()).unwrap();
        b.set_private_key(&id.key).unwrap();
        b.set_certificate(&id.cert).unwrap();
        if tls12_only {
            b.set_max_proto_version(Some(SslVersion::TLS1_2)).unwrap();
        }
        TlsServer { state: TlsState::Start(b.build()), handshake_done: false, peer_closed: false }
    }

    /// Feed ciphertext from the client; returns (plaintext for the application, ciphertext for the client).
    pub fn feed(&mut self, data: &[u8]) -> (Vec<u8>, Vec<u8>) {
        let mut plain = Vec::new();
        let mut out = Vec::new();
        let st = std::mem::replace(&mut self.state, TlsState::Transition);
        self.state = match st {
            TlsState::Start(acc) => {
                let mut pipe = MemPipe::default();
                pipe.incoming.extend(data.iter());
                Self::after_handshake(acc.accept(pipe), &mut out)
            }
            TlsState::Mid(mut mid) => {
                mid.get_mut().incoming.extend(data.iter());
                Self::after_handshake(mid.handshake(), &mut out)
            }
            TlsState::Up(mut s) => {
                s.get_mut().incoming.extend(data.iter());
                TlsState::Up(s)
            }
            other => other,
        };
        if let TlsState::Up(s) = &mut self.state {
            self.handshake_done = true;
            let mut buf = [0u8; 16384];
            loop {
                match s.ssl_read(&mut buf) {
                    Ok(0) => break,
                    Ok(n) => plain.extend_from_slice(&buf[..n]),
                    Err(e) => {
                        if e.code() == ErrorCode::ZERO_RETURN {
                            self.peer_closed = true;
                        }
                        break;
                    }
                }
            }
            out.extend_from_slice(&std::mem::take(&mut s.get_mut().outgoing));
        }
        (plain, out)
    }

    fn after_handshake(r: Result<SslStream<MemPipe>, HandshakeError<MemPipe>>, out: &mut Vec<u8>) -> TlsState {
        match r {
            Ok(mut s) => {
                out.extend_from_slice(&std::mem::take(&mut s.get_mut().outgoing));
                TlsState::Up(s)
            }
            Err(HandshakeError::WouldBlock(mut mid)) => {
                out.extend_from_slice(&std::mem::take(&mut mid.get_mut().outgoing));
                TlsState::Mid(mid)
            }
            Err(HandshakeError::Failure(mut mid)) => {
                out.extend_from_slice(&std::mem::take(&mut mid.get_mut().outgoing));
                TlsState::Failed(format!("{:?}", mid.error()))
            }
            Err(HandshakeError::SetupFailure(e)) => TlsState::Failed(format!("{:?}", e)),
        }
    }

    /// Encrypt application data for the client; returns ciphertext (empty if the session is not up).
    pub fn seal(&mut self, data: &[u8]) -> Vec<u8> {
        if let TlsState::Up(s) = &mut self.state {
            let mut off = 0;
            while off < data.len() {
                match s.ssl_write(&data[off..]) {
                    Ok(n) if n > 0 => off += n,
                    _ => break,
                }
            }
            return std::mem::take(&mut s.get_mut().outgoing);
        }
        Vec::new()
    }

    /// each piece becomes its own TLS record
    pub fn seal_records(&mut self, pieces: &[&[u8]]) -> Vec<u8> {
        let mut out = Vec::new();
        for p in pieces {
            out.extend_from_slice(&self.seal(p));
        }
        out
    }

    pub fn close_notify(&mut self) -> Vec<u8> {
        if let TlsState::Up(s) = &mut self.state {
            let _ = s.shutdown();
            return std::mem::take(&mut s.get_mut().outgoing);
        }
        Vec::new()
    }

    pub fn is_up(&self) -> bool {
        matches!(self.state, TlsState::Up(_))
    }
}
