//! rdpverif: runtime-monitoring harness for citronneur/rdp-rs (see /verif/DESIGN.md)
#[allow(unused_imports)]
#[macro_use]
extern crate rdp;

pub mod client;
pub mod fault;
pub mod gen;
pub mod mon;
pub mod props;
pub mod refs;
pub mod report;
pub mod rng;
pub mod server;
pub mod session;
pub mod tls;
pub mod transport;

use report::Report;
use serde_json::Value;
use std::sync::atomic::{AtomicU64, Ordering};
use std::sync::Mutex;

#[cfg(feature = "allocmon")]
#[global_allocator]
static GLOBAL: mon::CountingAlloc = mon::CountingAlloc;

#[derive(Clone, Copy, PartialEq, Eq, Debug)]
pub enum Tier {
    Quick,
    Thorough,
}

#[derive(Clone)]
pub struct Cfg {
    pub prop: String,
    pub tier: Tier,
    pub seed: u64,
    pub threads: usize,
    /// "dbg" or "rel" (informational; decided by how the binary was built)
    pub profile: String,
    /// scale factor for workload sizes (1.0 = as designed); used by smoke runs
    pub scale: f64,
    /// run only this workload class (debugging aid)
    pub only_class: Option<u64>,
}

impl Cfg {
    pub fn quick(&self) -> bool {
        self.tier == Tier::Quick
    }
    pub fn n(&self, quick: u64, thorough: u64) -> u64 {
        let b = if self.quick() { quick } else { thorough };
        ((b as f64) * self.scale).max(1.0) as u64
    }
    pub fn wants(&self, class: u64) -> bool {
        self.only_class.map(|c| c == class).unwrap_or(true)
    }
    pub fn is_debug_build(&self) -> bool {
        cfg!(debug_assertions)
    }
}

/// Run `f(idx, report)` for idx in 0..total on cfg.threads worker threads with dynamic chunking.
/// Each thread owns its Report; they are merged at the end.
pub fn par_run<F>(cfg: &Cfg, total: u64, chunk: u64, f: F) -> Report
where
    F: Fn(u64, &mut Report) + Sync,
{
    let next = AtomicU64::new(0);
    let merged = Mutex::new(Report::new());
    let nthreads = cfg.threads.max(1).min(mon::MAX_THREADS - 1);
    std::thread::scope(|s| {
        for t in 0..nthreads {
            let next = &next;
            let merged = &merged;
            let f = &f;
            std::thread::Builder::new()
                .stack_size(64 << 20)
                .spawn_scoped(s, move || {
                    mon::register_thread(t);
                    let mut rep = Report::new();
                    loop {
                        let start = next.fetch_add(chunk, Ordering::Relaxed);
                        if start >= total {
                            break;
                        }
                        let end = (start + chunk).min(total);
                        for idx in start..end {
                            f(idx, &mut rep);
                        }
                    }
                    mon::end_case();
                    merged.lock().unwrap().merge(rep);
                })
                .expect("spawn worker");
        }
    });
    merged.into_inner().unwrap()
}

pub fn run_property(cfg: &Cfg) -> Option<Report> {
    props::run(cfg)
}

pub fn replay_property(cfg: &Cfg, case: &Value) -> Option<Report> {
    props::replay(cfg, case)
}
