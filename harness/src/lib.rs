//! rdpverif: runtime-monitoring harness for citronneur/rdp-rs (see /verif/DESIGN.md)
#[allow(unused_imports)]
#[macro_use]
extern crate rdp;

pub mod client;
pub mod fault;
pub mod gen;
pub mod mon;
pub mod props;
pub mod refs;
pub mod report;
pub mod rng;
pub mod server;
pub mod session;
pub mod tls;
pub mod transport;

use report::Report;
use serde_json::Value;
use std::sync::atomic::{AtomicU64, Ordering};
use std::sync::Mutex;

#[cfg(feature = "allocmon")]
#[global_allocator]
static GLOBAL: mon::CountingAlloc = mon::CountingAlloc;

#[derive(Clone, Copy, PartialEq, Eq, Debug)]
pub enum Tier {
    Quick,
    Thorough,
}

#[derive(Clone)]
pub struct Cfg {
    pub prop: String,
    pub tier: Tier,
    pub seed: u64,
    pub threads: usize,
    /// "dbg" or "rel" (informational; decided by how the binary was built)
    pub profile: String,
    /// scale factor for workload sizes (1.0 = as designed); used by smoke runs
    pub scale: f64,
    /// run only this workload class (debugging aid)
    pub only_class: Option<u64>,
}

impl Cfg {
    pub fn quick(&self) -> bool {
        self.tier == Tier::Quick
    }
    pub fn n(&self, quick: u64, thorough: u64) -> u64 {
        let b = if self.quick() { quick } else { thorough };
        ((b as f64) * self.scale).max(1.0) as u64
    }
    pub fn wants(&self, class: u64) -> bool {
        self.only_class.map(|c| c == class).unwrap_or(true)
    }
    pub fn is_debug_build(&self) -> bool {
        cfg!(debug_assertions)
    }
}

/// Run `f(idx, report)` for idx in 0..total on cfg.threads worker threads with dynamic chunking.
/// Each thread owns its Report; they are merged at the end.
pub fn par_run<F>(cfg: &Cfg, total: u64, chunk: u64, f: F) -> Report
where
    F: Fn(u64, &mut Report) + Sync,
{
    let next = AtomicU64::new(0);
    let merged = Mutex::new(Report::new());
    let nthreads = cfg.threads.max(1).min(mon::MAX_THREADS - 1);
    std::thread::scope(|s| {
        for t in 0..nthreads {
            let next = &next;
            let merged = &merged;
            let f = &f;
            std::thread::Builder::new()
                .stack_size(64 << 20)
                .spawn_scoped(s, move || {
                    mon::register_thread(t);
                    let mut rep = Report::new();
                    loop {
                        let start = next.fetch_add(chunk, Ordering::Relaxed);
                        if start >= total {
                            break;
                        }
                        let end = (start + chunk).min(total);
                        for idx in start..end {
                            f(idx, &mut rep);
                        }
                    }
                    mon::end_case();
                    merged.lock().unwrap().merge(rep);
                })
                .expect("spawn worker");
        }
    });
    merged.into_inner().unwrap()
}

use serde_json::json;
use std::io::Write;

pub fn cli(run: &dyn Fn(&Cfg) -> Option<Report>, replay_fn: &dyn Fn(&Cfg, &Value) -> Option<Report>) {
    let args: Vec<String> = std::env::args().collect();
    if args.len() < 2 {
        eprintln!("usage: rdpverif <Cxx> [--tier quick|thorough] [--seed N] [--threads N] [--out file] [--replay file] [--scale f]");
        std::process::exit(2);
    }
    let prop = args[1].clone();
    let mut tier = Tier::Quick;
    let mut seed: u64 = 1;
    let mut threads: usize = 16;
    let mut out: Option<String> = None;
    let mut replay: Option<String> = None;
    let mut scale = 1.0f64;
    let mut only_class: Option<u64> = None;
    let mut cpu_limit = 20u64;
    let mut wall_limit = 3 * 3600u64;
    let mut i = 2;
    while i < args.len() {
        let v = args.get(i + 1).cloned().unwrap_or_default();
        match args[i].as_str() {
            "--tier" => tier = if v == "thorough" { Tier::Thorough } else { Tier::Quick },
            "--seed" => seed = v.parse().unwrap_or(1),
            "--threads" => threads = v.parse().unwrap_or(16),
            "--out" => out = Some(v),
            "--replay" => replay = Some(v),
            "--scale" => scale = v.parse().unwrap_or(1.0),
            "--only-class" => only_class = v.parse().ok(),
            "--verbose" => {
                mon::set_quiet(false);
                i -= 1;
            }
            "--cpu-limit" => cpu_limit = v.parse().unwrap_or(20),
            "--wall-limit" => wall_limit = v.parse().unwrap_or(10800),
            x => {
                eprintln!("unknown arg {}", x);
                std::process::exit(2);
            }
        }
        i += 2;
    }
    let cfg = Cfg {
        prop: prop.clone(),
        tier,
        seed,
        threads,
        profile: if cfg!(debug_assertions) { "dbg".into() } else { "rel".into() },
        scale,
        only_class,
    };
    // an empty trust store: 'untrusted certificate' is then deterministic and building a TLS connector is cheap
    std::env::set_var("SSL_CERT_FILE", "/dev/null");
    std::env::set_var("SSL_CERT_DIR", "/nonexistent-rdpverif");
    if cfg.prop == "C02" && !cfg!(miri) {
        // C02 alone also meets a TRUSTED certificate: the process then trusts one authority, the harness's own
        // (tls::TRUSTED_IDENTITY); set up here, while the process still has a single thread
        tls::init_trust_env();
    }
    mon::install_panic_hook();
    // under Miri there are no signals and no thread CPU clocks; the interpreter itself is the monitor
    if !cfg!(miri) {
        mon::install_death_recorder(2);
        mon::start_watchdog(cpu_limit, wall_limit);
    }
    let t0 = std::time::Instant::now();
    let rep = if let Some(path) = replay {
        // key generation for the TLS identities is not part of any case: do it before the watchdog starts counting
        if !cfg!(miri) && ["C01", "C02", "C03", "C04", "C05", "C06", "C07", "C10", "C11", "C12", "C13", "C17", "C20"].contains(&cfg.prop.as_str()) {
            tls::prewarm(["C01", "C03", "C04"].contains(&cfg.prop.as_str()));
        }
        // the replayed case runs on this thread: put it under the CPU watchdog and the death recorder
        if !cfg!(miri) {
            mon::register_thread(0);
            mon::begin_case(0, 0, 0, 0);
        }
        let txt = std::fs::read_to_string(&path).expect("read replay file");
        let v: Value = serde_json::from_str(&txt).expect("parse replay file");
        let case = v.get("replay").cloned().unwrap_or(v);
        replay_fn(&cfg, &case)
    } else {
        run(&cfg)
    };
    let rep = match rep {
        Some(r) => r,
        None => {
            eprintln!("unknown property {}", prop);
            std::process::exit(2);
        }
    };
    let mut j = rep.to_json();
    j["property"] = json!(prop);
    j["profile"] = json!(cfg.profile);
    j["seed"] = json!(seed);
    j["tier"] = json!(if tier == Tier::Quick { "quick" } else { "thorough" });
    j["wall_s"] = json!(t0.elapsed().as_secs_f64());
    let s = serde_json::to_string(&j).unwrap();
    match out {
        Some(p) => {
            let mut f = std::fs::File::create(&p).expect("create out");
            f.write_all(s.as_bytes()).unwrap();
        }
        None => println!("{}", s),
    }
    tls::cleanup_trust_env();
    // the library under test prints diagnostics to stdout; the verdict travels in the JSON only
    std::process::exit(0);
}

pub fn run_property(cfg: &Cfg) -> Option<Report> {
    props::run(cfg)
}

pub fn replay_property(cfg: &Cfg, case: &Value) -> Option<Report> {
    props::replay(cfg, case)
}
