//! Monitors: panic recorder, allocation monitor, CPU-time watchdog, death recorder.
//! All monitor state is thread-local or atomic so that the monitor itself cannot race.

use std::alloc::{GlobalAlloc, Layout, System};
use std::cell::{Cell, RefCell};
use std::panic::{self, AssertUnwindSafe};
use std::sync::atomic::{AtomicBool, AtomicI32, AtomicU64, Ordering};

// ---------------------------------------------------------------- panic monitor

#[derive(Clone, Debug)]
pub struct PanicInfo {
    pub msg: String,
    pub file: String,
    pub line: u32,
}

impl PanicInfo {
    /// message with digits normalised + file (no line): the signature used for known findings
    pub fn sig(&self) -> String {
        format!("panic:{}@{}", normalise(&self.msg), short_file(&self.file))
    }
    pub fn in_repo(&self) -> bool {
        self.file.starts_with("/repo/") || self.file.starts_with("src/") || self.file.contains("/repo/src/")
    }
}

pub fn short_file(f: &str) -> String {
    if let Some(i) = f.find("/repo/") {
        return f[i + 6..].to_string();
    }
    if let Some(i) = f.find("/registry/src/") {
        // index.crates.io-xxxx/crate-ver/src/..
        let rest = &f[i + 14..];
        if let Some(j) = rest.find('/') {
            return format!("dep:{}", &rest[j + 1..]);
        }
    }
    if let Some(i) = f.find("/library/") {
        return format!("std:{}", &f[i + 9..]);
    }
    f.to_string()
}

pub fn normalise(m: &str) -> String {
    let mut out = String::new();
    let mut in_num = false;
    // quoted payload (values of the failing input) is not part of a signature
    let mut quote: Option<char> = None;
    for c in m.chars() {
        if let Some(q) = quote {
            if c == q {
                quote = None;
                out.push(c);
            }
            continue;
        }
        if c == '`' || c == '"' {
            quote = Some(c);
            out.push(c);
            out.push('_');
            continue;
        }
        if c.is_ascii_digit() {
            if !in_num {
                out.push('N');
                in_num = true;
            }
        } else {
            in_num = false;
            out.push(c);
        }
    }
    if out.len() > 160 {
        let mut cut = 160;
        while !out.is_char_boundary(cut) {
            cut -= 1;
        }
        out.truncate(cut);
    }
    out
}

static QUIET: AtomicBool = AtomicBool::new(true);

thread_local! {
    static LAST_PANIC: RefCell<Option<PanicInfo>> = RefCell::new(None);
}

pub fn install_panic_hook() {
    panic::set_hook(Box::new(|info| {
        let msg = if let Some(s) = info.payload().downcast_ref::<&str>() {
            s.to_string()
        } else if let Some(s) = info.payload().downcast_ref::<String>() {
            s.clone()
        } else {
            "<non-string panic payload>".to_string()
        };
        let (file, line) = match info.location() {
            Some(l) => (l.file().to_string(), l.line()),
            None => ("<unknown>".to_string(), 0),
        };
        let quiet = QUIET.load(Ordering::Relaxed);
        if !quiet {
            eprintln!("[harness] panic: {} at {}:{}", msg, file, line);
        }
        let _ = LAST_PANIC.try_with(|p| {
            *p.borrow_mut() = Some(PanicInfo { msg, file, line });
        });
    }));
}

pub fn set_quiet(q: bool) {
    QUIET.store(q, Ordering::Relaxed);
}

/// Run `f`, converting a panic into a recorded event.
pub fn guarded<T>(f: impl FnOnce() -> T) -> Result<T, PanicInfo> {
    LAST_PANIC.with(|p| *p.borrow_mut() = None);
    match panic::catch_unwind(AssertUnwindSafe(f)) {
        Ok(v) => Ok(v),
        Err(_) => {
            disarm_alloc();
            let info = LAST_PANIC.with(|p| p.borrow_mut().take()).unwrap_or(PanicInfo {
                msg: "<panic without hook record>".into(),
                file: "<unknown>".into(),
                line: 0,
            });
            Err(info)
        }
    }
}

// ---------------------------------------------------------------- allocation monitor

pub struct CountingAlloc;

thread_local! {
    static ARMED: Cell<bool> = const { Cell::new(false) };
    static A_COUNT: Cell<u64> = const { Cell::new(0) };
    static A_MAXREQ: Cell<usize> = const { Cell::new(0) };
    static A_LIVE: Cell<i64> = const { Cell::new(0) };
    static A_PEAK: Cell<i64> = const { Cell::new(0) };
    static A_TOTAL: Cell<u64> = const { Cell::new(0) };
}

/// requests above this are refused (null) => the process aborts and the death recorder attributes it
pub const HARD_CAP: usize = 12 << 30;

#[inline]
fn on_alloc(size: usize) {
    let _ = ARMED.try_with(|a| {
        if a.get() {
            // every allocation of the code under test is also a sampling point of its stack depth
            let here = 0u8;
            let addr = &here as *const u8 as usize;
            let _ = STACK_BASE.try_with(|b| {
                let base = b.get();
                if base != 0 && base > addr {
                    let _ = STACK_DEPTH.try_with(|d| {
                        if base - addr > d.get() {
                            d.set(base - addr)
                        }
                    });
                }
            });
            let _ = A_COUNT.try_with(|c| c.set(c.get() + 1));
            let _ = A_TOTAL.try_with(|c| c.set(c.get().wrapping_add(size as u64)));
            let _ = A_MAXREQ.try_with(|c| {
                if size > c.get() {
                    c.set(size)
                }
            });
            let _ = A_LIVE.try_with(|l| {
                let v = l.get() + size as i64;
                l.set(v);
                let _ = A_PEAK.try_with(|p| {
                    if v > p.get() {
                        p.set(v)
                    }
                });
            });
        }
    });
}

#[inline]
fn on_free(size: usize) {
    let _ = ARMED.try_with(|a| {
        if a.get() {
            let _ = A_LIVE.try_with(|l| l.set(l.get() - size as i64));
        }
    });
}

unsafe impl GlobalAlloc for CountingAlloc {
    unsafe fn alloc(&self, layout: Layout) -> *mut u8 {
        if layout.size() > HARD_CAP {
            note_oversize(layout.size());
            return std::ptr::null_mut();
        }
        on_alloc(layout.size());
        System.alloc(layout)
    }
    unsafe fn alloc_zeroed(&self, layout: Layout) -> *mut u8 {
        if layout.size() > HARD_CAP {
            note_oversize(layout.size());
            return std::ptr::null_mut();
        }
        on_alloc(layout.size());
        System.alloc_zeroed(layout)
    }
    unsafe fn dealloc(&self, ptr: *mut u8, layout: Layout) {
        on_free(layout.size());
        System.dealloc(ptr, layout)
    }
    unsafe fn realloc(&self, ptr: *mut u8, layout: Layout, new_size: usize) -> *mut u8 {
        if new_size > HARD_CAP {
            note_oversize(new_size);
            return std::ptr::null_mut();
        }
        if new_size > layout.size() {
            on_alloc(new_size - layout.size());
            // a realloc request counts as a request of the new size
            let _ = ARMED.try_with(|a| {
                if a.get() {
                    let _ = A_MAXREQ.try_with(|c| {
                        if new_size > c.get() {
                            c.set(new_size)
                        }
                    });
                }
            });
        } else {
            on_free(layout.size() - new_size);
        }
        System.realloc(ptr, layout, new_size)
    }
}

static OVERSIZE: AtomicU64 = AtomicU64::new(0);
fn note_oversize(sz: usize) {
    OVERSIZE.store(sz as u64, Ordering::SeqCst);
}

#[derive(Clone, Copy, Debug, Default)]
pub struct AllocStats {
    pub count: u64,
    pub max_request: usize,
    pub peak_live: i64,
    pub total: u64,
    /// deepest stack position (bytes below the point where the observation started) seen at a transport call or at an
    /// allocation of the code under test
    pub max_stack_depth: usize,
}

thread_local! {
    static STACK_BASE: std::cell::Cell<usize> = std::cell::Cell::new(0);
    static STACK_DEPTH: std::cell::Cell<usize> = std::cell::Cell::new(0);
}

/// start measuring stack depth from here (called where an observation starts)
#[inline(never)]
pub fn stack_mark() {
    let here = 0u8;
    STACK_BASE.with(|b| b.set(&here as *const u8 as usize));
    STACK_DEPTH.with(|d| d.set(0));
}

/// called by the transport whenever the code under test reads or writes: how deep is the stack now?
#[inline(never)]
pub fn stack_probe() {
    let here = 0u8;
    let addr = &here as *const u8 as usize;
    let base = STACK_BASE.with(|b| b.get());
    if base != 0 && base > addr {
        let depth = base - addr;
        STACK_DEPTH.with(|d| {
            if depth > d.get() {
                d.set(depth)
            }
        });
    }
}

fn stack_take() -> usize {
    STACK_BASE.with(|b| b.set(0));
    STACK_DEPTH.with(|d| d.replace(0))
}

/// The reference server runs inside the client's own read/write calls, on the same thread: its allocations
/// must not be charged to the code under test. `suspended(|| ...)` switches the monitor off for the closure.
pub fn suspended<T>(f: impl FnOnce() -> T) -> T {
    let was = ARMED.with(|a| a.replace(false));
    let r = f();
    ARMED.with(|a| a.set(was));
    r
}

pub fn arm_alloc() {
    A_COUNT.with(|c| c.set(0));
    A_MAXREQ.with(|c| c.set(0));
    A_LIVE.with(|c| c.set(0));
    A_PEAK.with(|c| c.set(0));
    A_TOTAL.with(|c| c.set(0));
    ARMED.with(|a| a.set(true));
}

pub fn disarm_alloc() -> AllocStats {
    ARMED.with(|a| a.set(false));
    AllocStats {
        count: A_COUNT.with(|c| c.get()),
        max_request: A_MAXREQ.with(|c| c.get()),
        peak_live: A_PEAK.with(|c| c.get()),
        total: A_TOTAL.with(|c| c.get()),
        max_stack_depth: 0,
    }
}

/// Run f with panic and allocation monitors.
pub fn observed<T>(f: impl FnOnce() -> T) -> (Result<T, PanicInfo>, AllocStats) {
    let r = guarded(|| {
        stack_mark();
        arm_alloc();
        let v = f();
        let st = disarm_alloc();
        (v, st)
    });
    let depth = stack_take();
    match r {
        Ok((v, mut st)) => {
            st.max_stack_depth = depth;
            (Ok(v), st)
        }
        Err(p) => {
            let mut st = disarm_alloc();
            st.max_stack_depth = depth;
            (Err(p), st)
        }
    }
}

// ---------------------------------------------------------------- current-case descriptor, death recorder, CPU watchdog

pub const MAX_THREADS: usize = 64;

pub struct Slot {
    pub a: AtomicU64,
    pub b: AtomicU64,
    pub c: AtomicU64,
    pub d: AtomicU64,
    pub seq: AtomicU64,
    pub active: AtomicBool,
    pub cpu_clock: AtomicI32,
    pub cpu_at_begin_ns: AtomicU64,
}

#[allow(clippy::declare_interior_mutable_const)]
const SLOT_INIT: Slot = Slot {
    a: AtomicU64::new(0),
    b: AtomicU64::new(0),
    c: AtomicU64::new(0),
    d: AtomicU64::new(0),
    seq: AtomicU64::new(0),
    active: AtomicBool::new(false),
    cpu_clock: AtomicI32::new(-1),
    cpu_at_begin_ns: AtomicU64::new(0),
};
pub static SLOTS: [Slot; MAX_THREADS] = [SLOT_INIT; MAX_THREADS];

thread_local! {
    static MY_SLOT: Cell<usize> = const { Cell::new(usize::MAX) };
}

pub fn register_thread(idx: usize) {
    MY_SLOT.with(|s| s.set(idx));
    let mut clk: libc::clockid_t = 0;
    unsafe {
        libc::pthread_getcpuclockid(libc::pthread_self(), &mut clk);
    }
    SLOTS[idx].cpu_clock.store(clk as i32, Ordering::SeqCst);
}

fn cpu_ns(clk: i32) -> u64 {
    let mut ts = libc::timespec { tv_sec: 0, tv_nsec: 0 };
    unsafe {
        if libc::clock_gettime(clk as libc::clockid_t, &mut ts) != 0 {
            return 0;
        }
    }
    ts.tv_sec as u64 * 1_000_000_000 + ts.tv_nsec as u64
}

/// Mark the beginning of a case on this thread (cheap: a few relaxed stores).
#[inline]
pub fn begin_case(a: u64, b: u64, c: u64, d: u64) {
    let idx = MY_SLOT.with(|s| s.get());
    if idx == usize::MAX {
        return;
    }
    let s = &SLOTS[idx];
    s.a.store(a, Ordering::Relaxed);
    s.b.store(b, Ordering::Relaxed);
    s.c.store(c, Ordering::Relaxed);
    s.d.store(d, Ordering::Relaxed);
    let q = s.seq.load(Ordering::Relaxed) + 1;
    s.seq.store(q, Ordering::Relaxed);
    // cpu time sampled only every 64 cases to stay cheap; the watchdog compares seq numbers
    if q & 63 == 1 {
        s.cpu_at_begin_ns.store(cpu_ns(s.cpu_clock.load(Ordering::Relaxed)), Ordering::Relaxed);
    }
    s.active.store(true, Ordering::Release);
}

#[inline]
pub fn end_case() {
    let idx = MY_SLOT.with(|s| s.get());
    if idx == usize::MAX {
        return;
    }
    SLOTS[idx].active.store(false, Ordering::Release);
}

static DEATH_FD: AtomicI32 = AtomicI32::new(2);

fn raw_write(fd: i32, s: &[u8]) {
    unsafe {
        libc::write(fd, s.as_ptr() as *const libc::c_void, s.len());
    }
}

fn fmt_u64(mut v: u64, buf: &mut [u8; 24]) -> &[u8] {
    let mut i = buf.len();
    if v == 0 {
        i -= 1;
        buf[i] = b'0';
    }
    while v > 0 {
        i -= 1;
        buf[i] = b'0' + (v % 10) as u8;
        v /= 10;
    }
    &buf[i..]
}

fn write_death(kind: &[u8], slot: usize) {
    let fd = DEATH_FD.load(Ordering::SeqCst);
    raw_write(fd, b"\nDEATH kind=");
    raw_write(fd, kind);
    let mut b = [0u8; 24];
    if slot < MAX_THREADS {
        let s = &SLOTS[slot];
        raw_write(fd, b" case=");
        raw_write(fd, fmt_u64(s.a.load(Ordering::Relaxed), &mut b));
        raw_write(fd, b":");
        raw_write(fd, fmt_u64(s.b.load(Ordering::Relaxed), &mut b));
        raw_write(fd, b":");
        raw_write(fd, fmt_u64(s.c.load(Ordering::Relaxed), &mut b));
        raw_write(fd, b":");
        raw_write(fd, fmt_u64(s.d.load(Ordering::Relaxed), &mut b));
    } else {
        raw_write(fd, b" case=unknown");
    }
    raw_write(fd, b" oversize=");
    raw_write(fd, fmt_u64(OVERSIZE.load(Ordering::SeqCst), &mut b));
    raw_write(fd, b"\n");
}

extern "C" fn death_handler(sig: libc::c_int) {
    let slot = MY_SLOT.try_with(|s| s.get()).unwrap_or(usize::MAX);
    let kind: &[u8] = match sig {
        libc::SIGABRT => b"SIGABRT",
        libc::SIGSEGV => b"SIGSEGV",
        libc::SIGBUS => b"SIGBUS",
        libc::SIGILL => b"SIGILL",
        libc::SIGFPE => b"SIGFPE",
        _ => b"SIG?",
    };
    write_death(kind, slot);
    unsafe { libc::_exit(4) }
}

#[cfg(feature = "asan")]
extern "C" {
    fn __sanitizer_set_death_callback(cb: extern "C" fn());
}

#[cfg(feature = "asan")]
extern "C" fn asan_death() {
    // runs on the thread whose access the sanitizer reported
    let slot = MY_SLOT.try_with(|s| s.get()).unwrap_or(usize::MAX);
    write_death(b"ASAN", slot);
}

/// Install handlers that report the case in flight when the process dies (abort on allocation
/// failure, stack overflow, sanitizer abort). `fd` is where the DEATH line goes.
pub fn install_death_recorder(fd: i32) {
    DEATH_FD.store(fd, Ordering::SeqCst);
    #[cfg(feature = "asan")]
    unsafe {
        __sanitizer_set_death_callback(asan_death);
    }
    unsafe {
        for &sig in &[libc::SIGABRT, libc::SIGSEGV, libc::SIGBUS, libc::SIGILL, libc::SIGFPE] {
            let mut sa: libc::sigaction = std::mem::zeroed();
            sa.sa_sigaction = death_handler as usize;
            sa.sa_flags = libc::SA_ONSTACK | libc::SA_RESETHAND;
            libc::sigemptyset(&mut sa.sa_mask);
            libc::sigaction(sig, &sa, std::ptr::null_mut());
        }
    }
}

/// Watchdog on *thread CPU time*: a case that has burnt more than `cpu_limit_s` seconds of CPU on
/// its thread is reported (TIMEOUT line with the case) and the process exits with code 5.
/// A generous wall-clock limit only yields exit code 6 (inconclusive).
pub fn start_watchdog(cpu_limit_s: u64, wall_limit_s: u64) {
    std::thread::Builder::new()
        .name("watchdog".into())
        .spawn(move || {
            let start = std::time::Instant::now();
            let mut last_seq = [0u64; MAX_THREADS];
            let mut cpu_when_seen = [0u64; MAX_THREADS];
            loop {
                std::thread::sleep(std::time::Duration::from_millis(500));
                if start.elapsed().as_secs() > wall_limit_s {
                    let fd = DEATH_FD.load(Ordering::SeqCst);
                    raw_write(fd, b"\nWALL-LIMIT exceeded (inconclusive)\n");
                    unsafe { libc::_exit(6) }
                }
                for i in 0..MAX_THREADS {
                    let s = &SLOTS[i];
                    let clk = s.cpu_clock.load(Ordering::SeqCst);
                    if clk == -1 || !s.active.load(Ordering::Acquire) {
                        last_seq[i] = 0;
                        continue;
                    }
                    let q = s.seq.load(Ordering::Relaxed);
                    let now_cpu = cpu_ns(clk);
                    if q != last_seq[i] {
                        last_seq[i] = q;
                        cpu_when_seen[i] = now_cpu;
                        continue;
                    }
                    if now_cpu.saturating_sub(cpu_when_seen[i]) > cpu_limit_s * 1_000_000_000 {
                        write_death(b"CPU-TIMEOUT", i);
                        unsafe { libc::_exit(5) }
                    }
                }
            }
        })
        .expect("spawn watchdog");
}
