//! Driving the client under test: through `Connector::connect` (real RdpClient, TLS/NLA against the
//! reactive reference server) or layer by layer on a plain transport (x224 with no security
//! protocol offered, then mcs, sec, global as Connector::connect does).

use crate::rng::Rng;
use crate::server::Duplex;
use rdp::core::client::{Connector, RdpClient};
use rdp::core::event::{RdpEvent};
use rdp::core::gcc::KeyboardLayout;
use rdp::core::{global, mcs, sec, tpkt, x224};
use rdp::model::error::{Error, RdpErrorKind, RdpResult};
use rdp::model::link::{Link, Stream};
use serde_json::{json, Value};

#[derive(Clone, Debug)]
pub struct ConnCfg {
    pub width: u16,
    pub height: u16,
    pub layout: u32,
    pub name: String,
    pub domain: String,
    pub user: String,
    pub password: String,
    pub hash: Option<Vec<u8>>,
    pub nla: bool,
    pub restricted_admin: bool,
    pub blank_creds: bool,
    pub auto_logon: bool,
    pub check_certificate: bool,
}

impl Default for ConnCfg {
    fn default() -> Self {
        ConnCfg {
            width: 800,
            height: 600,
            layout: 0x409,
            name: "rdpverif".into(),
            domain: "DOM".into(),
            user: "user".into(),
            password: "password".into(),
            hash: None,
            nla: true,
            restricted_admin: false,
            blank_creds: false,
            auto_logon: false,
            check_certificate: false,
        }
    }
}

impl ConnCfg {
    pub fn to_json(&self) -> Value {
        json!({"width": self.width, "height": self.height, "layout": self.layout, "name": self.name, "domain": self.domain, "user": self.user,
               "password": self.password, "hash": self.hash.as_ref().map(|h| crate::rng::hex(h)), "nla": self.nla, "restricted_admin": self.restricted_admin,
               "blank_creds": self.blank_creds, "auto_logon": self.auto_logon, "check_certificate": self.check_certificate})
    }
    pub fn from_json(v: &Value) -> ConnCfg {
        ConnCfg {
            width: v["width"].as_u64().unwrap_or(800) as u16,
            height: v["height"].as_u64().unwrap_or(600) as u16,
            layout: v["layout"].as_u64().unwrap_or(0x409) as u32,
            name: v["name"].as_str().unwrap_or("").to_string(),
            domain: v["domain"].as_str().unwrap_or("").to_string(),
            user: v["user"].as_str().unwrap_or("").to_string(),
            password: v["password"].as_str().unwrap_or("").to_string(),
            hash: v["hash"].as_str().map(crate::rng::unhex),
            nla: v["nla"].as_bool().unwrap_or(true),
            restricted_admin: v["restricted_admin"].as_bool().unwrap_or(false),
            blank_creds: v["blank_creds"].as_bool().unwrap_or(false),
            auto_logon: v["auto_logon"].as_bool().unwrap_or(false),
            check_certificate: v["check_certificate"].as_bool().unwrap_or(false),
        }
    }
    pub fn offered_protocols(&self) -> u32 {
        if self.nla {
            3
        } else {
            1
        }
    }
}

pub const LAYOUTS: [u32; 19] = [0x401, 0x402, 0x404, 0x405, 0x406, 0x407, 0x408, 0x409, 0x40a, 0x40b, 0x40c, 0x40d, 0x40e, 0x40f, 0x410, 0x411, 0x412, 0x413, 0x414];

pub fn layout(v: u32) -> KeyboardLayout {
    match v {
        0x401 => KeyboardLayout::Arabic,
        0x402 => KeyboardLayout::Bulgarian,
        0x404 => KeyboardLayout::ChineseUsKeyboard,
        0x405 => KeyboardLayout::Czech,
        0x406 => KeyboardLayout::Danish,
        0x407 => KeyboardLayout::German,
        0x408 => KeyboardLayout::Greek,
        0x40a => KeyboardLayout::Spanish,
        0x40b => KeyboardLayout::Finnish,
        0x40c => KeyboardLayout::French,
        0x40d => KeyboardLayout::Hebrew,
        0x40e => KeyboardLayout::Hungarian,
        0x40f => KeyboardLayout::Icelandic,
        0x410 => KeyboardLayout::Italian,
        0x411 => KeyboardLayout::Japanese,
        0x412 => KeyboardLayout::Korean,
        0x413 => KeyboardLayout::Dutch,
        0x414 => KeyboardLayout::Norwegian,
        _ => KeyboardLayout::US,
    }
}

/// Build the Connector for a configuration. The builder's setters are independent of each other, so the order in
/// which an application calls them - and whether it called one before with another value - must not matter: three
/// configurations in four are built in an order derived from the configuration itself, some setters being called
/// first with a decoy value and later with the final one.
pub fn connector(c: &ConnCfg) -> Connector {
    let h = crate::rng::fnv(c.to_json().to_string().as_bytes());
    if h % 4 == 0 {
        return connector_in_order(c);
    }
    let mut r = Rng::new(h);
    // 0 screen, 1 credentials, 2 restricted admin, 3 auto logon, 4 blank creds, 5 layout, 6 check certificate, 7 name, 8 nla
    let apply = |k: Connector, which: usize, decoy: bool| -> Connector {
        match which {
            0 => {
                if decoy {
                    k.screen(c.height.wrapping_add(7), c.width.wrapping_add(3))
                } else {
                    k.screen(c.width, c.height)
                }
            }
            1 => {
                if decoy {
                    k.credentials("DECOYDOM".to_string(), "decoyuser".to_string(), "decoy-password-QXZJ".to_string())
                } else {
                    k.credentials(c.domain.clone(), c.user.clone(), c.password.clone())
                }
            }
            2 => k.set_restricted_admin_mode(c.restricted_admin ^ decoy),
            3 => k.auto_logon(c.auto_logon ^ decoy),
            4 => k.blank_creds(c.blank_creds ^ decoy),
            5 => k.layout(layout(if decoy { 0x411 } else { c.layout })),
            6 => k.check_certificate(c.check_certificate ^ decoy),
            7 => k.name(if decoy { "decoy-name".to_string() } else { c.name.clone() }),
            _ => k.use_nla(c.nla ^ decoy),
        }
    };
    let shuffled = |r: &mut Rng| -> Vec<usize> {
        let mut v: Vec<usize> = (0..9).collect();
        for i in (1..v.len()).rev() {
            let j = r.below(i as u64 + 1) as usize;
            v.swap(i, j);
        }
        v
    };
    let mut k = Connector::new();
    for which in shuffled(&mut r) {
        if r.chance(1, 2) {
            k = apply(k, which, true);
        }
    }
    // the hash (which cannot be taken back once set) goes in at a random place of the final pass
    let order = shuffled(&mut r);
    let hash_at = r.below(order.len() as u64 + 1) as usize;
    for (i, which) in order.iter().enumerate() {
        if i == hash_at {
            if let Some(hh) = &c.hash {
                k = k.set_password_hash(hh.clone());
            }
        }
        k = apply(k, *which, false);
    }
    if hash_at == order.len() {
        if let Some(hh) = &c.hash {
            k = k.set_password_hash(hh.clone());
        }
    }
    k
}

pub fn connector_in_order(c: &ConnCfg) -> Connector {
    let mut k = Connector::new()
        .screen(c.width, c.height)
        .credentials(c.domain.clone(), c.user.clone(), c.password.clone())
        .set_restricted_admin_mode(c.restricted_admin)
        .auto_logon(c.auto_logon)
        .blank_creds(c.blank_creds)
        .layout(layout(c.layout))
        .check_certificate(c.check_certificate)
        .name(c.name.clone())
        .use_nla(c.nla);
    if let Some(h) = &c.hash {
        k = k.set_password_hash(h.clone());
    }
    k
}

pub fn err_kind(e: &Error) -> String {
    match e {
        Error::RdpError(r) => format!("RdpError:{:?}", r.kind()),
        Error::Io(i) => format!("Io:{:?}", i.kind()),
        Error::SslHandshakeError => "SslHandshakeError".into(),
        Error::SslError(_) => "SslError".into(),
        Error::ASN1Error(a) => format!("ASN1Error:{:?}", a.kind()),
        Error::TryError(_) => "TryError".into(),
    }
}

pub fn is_kind(e: &Error, k: RdpErrorKind) -> bool {
    matches!(e, Error::RdpError(r) if r.kind() == k)
}

/// layer-by-layer client on a transport without TLS
pub struct PlainClient {
    pub mcs: mcs::Client<Duplex>,
    pub global: global::Client,
}

pub enum Client {
    Real(RdpClient<Duplex>),
    Plain(PlainClient),
}

pub fn connect_real(c: &ConnCfg, d: Duplex) -> RdpResult<Client> {
    Ok(Client::Real(connector(c).connect(d)?))
}

pub fn connect_plain(c: &ConnCfg, d: Duplex) -> RdpResult<Client> {
    let tcp = Link::new(Stream::Raw(d));
    let x = x224::Client::connect(tpkt::Client::new(tcp), 0, false, None, c.restricted_admin, c.blank_creds)?;
    let mut m = mcs::Client::new(x);
    m.connect(c.name.clone(), c.width, c.height, layout(c.layout))?;
    if c.restricted_admin {
        sec::connect(&mut m, &"".to_string(), &"".to_string(), &"".to_string(), c.auto_logon)?;
    } else {
        sec::connect(&mut m, &c.domain, &c.user, &c.password, c.auto_logon)?;
    }
    let g = global::Client::new(m.get_user_id(), m.get_global_channel_id(), c.width, c.height, layout(c.layout), &c.name);
    Ok(Client::Plain(PlainClient { mcs: m, global: g }))
}

impl Client {
    pub fn read<T: FnMut(RdpEvent)>(&mut self, cb: T) -> RdpResult<()> {
        match self {
            Client::Real(r) => r.read(cb),
            Client::Plain(p) => {
                let (name, msg) = p.mcs.read()?;
                match name.as_str() {
                    "global" => p.global.read(msg, &mut p.mcs, cb),
                    _ => Err(Error::RdpError(rdp::model::error::RdpError::new(RdpErrorKind::UnexpectedType, "invalid channel"))),
                }
            }
        }
    }
    pub fn shutdown(&mut self) -> RdpResult<()> {
        match self {
            Client::Real(r) => r.shutdown(),
            Client::Plain(p) => p.mcs.shutdown(),
        }
    }
    pub fn real(&mut self) -> Option<&mut RdpClient<Duplex>> {
        match self {
            Client::Real(r) => Some(r),
            _ => None,
        }
    }
}

// ------------------------------------------------------------------------------------------ generators

pub fn ascii_name(r: &mut Rng, max: usize) -> String {
    let n = r.below(max as u64 + 1) as usize;
    (0..n).map(|_| (b'a' + r.below(26) as u8) as char).collect()
}

/// Unicode strings: empty, ASCII, Latin-1, BMP multi-byte, surrogate pairs
pub fn unicode_string(r: &mut Rng, max_cp: usize) -> String {
    let n = match r.below(6) {
        0 => 0,
        1 => 1,
        _ => r.range(1, max_cp.max(1) as u64) as usize,
    };
    let style = r.below(6);
    let mut s = String::new();
    for _ in 0..n {
        let c = match style {
            0 => (0x20 + r.below(0x5f)) as u32,
            1 => *r.pick(&[0xe9u32, 0xfc, 0xdf, 0xe0, 0xf1, 0x41, 0x7a]),
            2 => 0x400 + r.below(0x100) as u32,
            3 => *r.pick(&[0x4e2du32, 0x6587, 0x3042, 0xac00, 0x20ac]),
            4 => *r.pick(&[0x1f511u32, 0x1f600, 0x10348, 0x2070e, 0x41]),
            _ => match r.below(4) {
                0 => (0x21 + r.below(0x5e)) as u32,
                1 => 0xe0 + r.below(0x1f) as u32,
                2 => 0x4e00 + r.below(0x100) as u32,
                _ => 0x1f600 + r.below(0x40) as u32,
            },
        };
        if let Some(ch) = char::from_u32(c) {
            s.push(ch);
        }
    }
    s
}
