//! Generators for conforming server profiles and connector configurations (shared by C03..C06, C10..C12).

use crate::client::{self, ConnCfg};
use crate::refs::ntlm;
use crate::refs::proto::{self, License, Profile};
use crate::rng::Rng;
use crate::server::NlaCfg;

pub fn user_id(r: &mut Rng) -> u16 {
    loop {
        let v = match r.below(4) {
            0 => *r.pick(&[1001u16, 1004, 1005, 1007, 1008, 65535, 65534, 32768, 32767, 2002, 1256, 1280]),
            _ => r.range(1001, 65535) as u16,
        };
        // the server cannot assign an id it already uses for itself or for the I/O channel
        if v != 1002 && v != 1003 {
            return v;
        }
    }
}

pub fn share_id(r: &mut Rng) -> u32 {
    match r.below(3) {
        0 => *r.pick(&[0u32, 1, 0x000103ea, 0x7fffffff, 0x80000000, 0xffffffff, 0x00010000]),
        _ => r.u32(),
    }
}

pub fn caps(r: &mut Rng) -> Vec<(u16, Vec<u8>)> {
    let all = proto::general_caps();
    let mut out = Vec::new();
    let n = r.below(31) as usize;
    for _ in 0..n {
        match r.below(5) {
            0 | 1 | 2 => out.push(r.pick(&all).clone()),
            3 => {
                // capability types the client lists but does not parse, with plausible bodies
                let t = *r.pick(&[0x0005u16, 0x0007, 0x0009, 0x000A, 0x000E, 0x0012, 0x0013, 0x0015, 0x0016, 0x0017, 0x0018, 0x0019, 0x001B, 0x001C, 0x001D, 0x001E]);
                let l = r.range(0, 64) as usize;
                out.push((t, r.bytes(l)));
            }
            _ => {
                // types unknown to the client altogether
                let t = *r.pick(&[0x001Fu16, 0x0020, 0x8006, 0x7fff, 0xffff, 0x0006, 0x000B]);
                let l = r.range(0, 300) as usize;
                out.push((t, r.bytes(l)));
            }
        }
    }
    if out.is_empty() && r.chance(3, 4) {
        return all;
    }
    out
}

/// the full Windows-like capability list with the *free* fields of each set (flags, sizes, identifiers: every
/// value is conformant) drawn from edge values; the fields MS-RDPBCGR fixes keep their value
pub fn caps_varied(r: &mut Rng) -> Vec<(u16, Vec<u8>)> {
    let mut all = proto::general_caps();
    for (t, body) in all.iter_mut() {
        if body.len() < 2 || r.chance(1, 3) {
            continue;
        }
        let free: Vec<usize> = match *t {
            0x0001 => vec![0, 2, 10],
            0x0002 => vec![0, 8, 10, 14],
            _ => (0..body.len() / 2).map(|i| i * 2).collect(),
        };
        for _ in 0..r.range(1, 3) {
            let off = *r.pick(&free);
            if off + 2 <= body.len() {
                let v: u16 = match r.below(6) {
                    0 => 0,
                    1 => 0xffff,
                    2 => *r.pick(&[0x0001u16, 0x0004, 0x0010, 0x0014, 0x0020, 0x0034, 0x0035, 0x0375, 0xfffe]),
                    3 => 1 << r.below(16),
                    _ => r.u16(),
                };
                body[off..off + 2].copy_from_slice(&v.to_le_bytes());
            }
        }
        // the input capability set's flag word: every combination is a legitimate server
        if *t == 0x000D && r.chance(1, 2) {
            let v = *r.pick(&[0u16, 0x0004, 0x0010, 0x0014, 0x0020, 0x0034, 0x0001, 0x0035, 0xfffe, 0xffff]);
            body[0..2].copy_from_slice(&v.to_le_bytes());
        }
    }
    // sometimes a subset, in another order
    if r.chance(1, 4) {
        let k = r.below(all.len() as u64 + 1) as usize;
        for i in (1..all.len()).rev() {
            let j = r.below(i as u64 + 1) as usize;
            all.swap(i, j);
        }
        all.truncate(k);
    }
    all
}

/// the source descriptor of a demand-active is free text of any length: ASCII, UTF-8 with multi-byte characters at every
/// alignment, bytes that are not UTF-8 at all
pub fn source_descriptor(r: &mut Rng) -> Vec<u8> {
    match r.below(8) {
        0 => b"RDP\0".to_vec(),
        1 => Vec::new(),
        2 => {
            // ASCII up to a boundary, then multi-byte characters
            let n = *r.pick(&[0usize, 1, 15, 30, 31, 32, 33, 63, 64, 127, 255]);
            let mut v = vec![b'a'; n];
            for _ in 0..r.range(1, 6) {
                v.extend_from_slice(*r.pick(&["\u{e9}".as_bytes(), "\u{4e2d}".as_bytes(), "\u{1f511}".as_bytes()]));
            }
            v
        }
        3 => {
            let n = *r.pick(&[1usize, 2, 31, 32, 33, 64, 300]);
            vec![0xff; n]
        }
        4 => {
            let n = r.range(0, 70) as usize;
            let mut v = Vec::new();
            for _ in 0..n {
                v.extend_from_slice("\u{e9}".as_bytes());
            }
            if r.chance(1, 2) {
                v.insert(0, b'x');
            }
            v
        }
        5 => {
            let n = *r.pick(&[31usize, 32, 33, 34, 35, 36]);
            r.bytes(n)
        }
        _ => {
            let n = r.range(0, 300) as usize;
            r.bytes(n)
        }
    }
}

pub fn profile(r: &mut Rng, selected: u32) -> Profile {
    let mut p = Profile::default();
    p.selected_protocol = selected;
    p.cc_flags = if r.chance(1, 2) { 0 } else { *r.pick(&[0x01u8, 0x02, 0x04, 0x08, 0x1f, 0xff]) };
    p.user_id = user_id(r);
    p.version = match r.below(5) {
        0 => 0x00080001,
        1 => 0x00080004,
        2 => 0x00080005 + r.below(13) as u32,
        3 => *r.pick(&[0x00080004u32, 0x00080004, 0x00080001]),
        _ => *r.pick(&[0x00090000u32, 0x00000000, 0x0008ffff]),
    };
    p.core_optional = r.below(3) as u8;
    p.connect_pdu_len_style = if r.chance(1, 3) { 1 } else { 0 };
    p.sdi_flags = *r.pick(&[0x70u8, 0x70, 0x70, 0x30, 0xB0, 0xF0]);
    p.stream_id = *r.pick(&[1u8, 1, 2, 4, 0]);
    p.license_sec_flags = *r.pick(&[0x0080u16, 0x0080, 0x0080, 0x0280, 0x8280, 0x8080]);
    p.early_caps = *r.pick(&[0u32, 1, 2, 4, 7]);
    p.sec_optional = r.chance(1, 3);
    p.ber_form = *r.pick(&[0u8, 0, 1, 2]);
    if r.chance(1, 2) {
        p.source_descriptor = source_descriptor(r);
    }
    p.extra_blocks.clear();
    if r.chance(1, 3) {
        p.extra_blocks.push((0x0C04, (1004 + r.below(4) as u16).to_le_bytes().to_vec()));
    }
    if r.chance(1, 3) {
        p.extra_blocks.push((0x0C08, r.u32().to_le_bytes().to_vec()));
    }
    if r.chance(1, 6) {
        let l = r.range(0, 40) as usize;
        p.extra_blocks.push((0x0C10 + r.below(8) as u16, r.bytes(l)));
    }
    let n = 3 + p.extra_blocks.len();
    let mut order: Vec<usize> = (0..n).collect();
    if r.chance(1, 2) {
        for i in (1..n).rev() {
            let j = r.below(i as u64 + 1) as usize;
            order.swap(i, j);
        }
    }
    p.block_order = order;
    p.domain_params = [r.range(1, 65535) as u32, r.range(1, 64535) as u32, r.range(0, 65535) as u32, r.range(1, 3) as u32, 0, 1, r.range(1056, 65535) as u32, 2];
    p.connect_id = if r.chance(1, 2) { 0 } else { r.u32() };
    p.node_id = r.range(1001, 65535) as u16;
    p.gcc_tag = *r.pick(&[1u32, 0, 255, 256, 65535, 65536, 0x7fffffff]);
    // preamble flags: version 3.0, with or without EXTENDED_ERROR_MSG_SUPPORTED (0x80)
    let lf = *r.pick(&[0x03u8, 0x03, 0x83]);
    p.license = match r.below(5) {
        0 => License::NewLicense { flags: lf, body: { let l = r.range(0, 200) as usize; r.bytes(l) } },
        1 => License::ValidClient { flags: lf, blob_type: 4, blob: { let l = r.range(1, 40) as usize; r.bytes(l) } },
        _ => License::ValidClient { flags: lf, blob_type: *r.pick(&[4u16, 0]), blob: vec![] },
    };
    p.share_id = share_id(r);
    let l = match r.below(4) { 0 => 0, 1 => 4, _ => r.range(0, 64) as usize };
    p.source_descriptor = r.bytes(l);
    p.caps = caps(r);
    p.session_id = r.u32();
    p
}

/// connector configuration; `ascii_only` keeps client name and credentials to what C03 needs
pub fn conncfg(r: &mut Rng, ascii_only: bool) -> ConnCfg {
    let mut c = ConnCfg::default();
    c.width = r.edge16();
    c.height = r.edge16();
    c.layout = *r.pick(&client::LAYOUTS);
    if ascii_only {
        c.name = client::ascii_name(r, 15);
        c.domain = client::ascii_name(r, 12);
        c.user = client::ascii_name(r, 12);
        c.password = client::ascii_name(r, 16);
    } else {
        c.name = client::unicode_string(r, 20);
        c.domain = client::unicode_string(r, 24);
        c.user = client::unicode_string(r, 24);
        c.password = client::unicode_string(r, 30);
    }
    c.nla = r.chance(1, 2);
    c.restricted_admin = r.chance(1, 4);
    c.blank_creds = r.chance(1, 4);
    c.auto_logon = r.chance(1, 2);
    if r.chance(1, 4) {
        c.hash = Some(ntlm::nt_hash(&c.password).to_vec());
    }
    c
}

/// the NLA configuration of a server that knows the account `c` authenticates as
pub fn nla_cfg(r: &mut Rng, c: &ConnCfg) -> NlaCfg {
    nla_cfg_opts(r, c, true)
}

/// `timestamp` false: the server's target info carries no MsvAvTimestamp pair (servers older than Vista / 2008)
pub fn nla_cfg_opts(r: &mut Rng, c: &ConnCfg, timestamp: bool) -> NlaCfg {
    let mut n = NlaCfg::default();
    let h: [u8; 16] = match &c.hash {
        Some(h) if h.len() == 16 => {
            let mut a = [0u8; 16];
            a.copy_from_slice(h);
            a
        }
        _ => ntlm::nt_hash(&c.password),
    };
    n.account = ntlm::Account { domain: c.domain.clone(), user: c.user.clone(), nt_hash: h };
    let sc = r.bytes(8);
    n.server_challenge.copy_from_slice(&sc);
    n.ts_version = r.range(2, 6);
    // target info: random subset and order of AV pairs, always a timestamp
    let mut pairs: Vec<(u16, Vec<u8>)> = Vec::new();
    for id in [1u16, 2, 3, 4, 5, 6, 8, 9, 10].iter() {
        if r.chance(1, 2) {
            let l = match *id {
                6 => 4,
                8 => 48,
                10 => 16,
                _ => (r.range(0, 20) * 2) as usize,
            };
            pairs.push((*id, r.bytes(l)));
        }
    }
    let ts = r.bytes(8);
    if timestamp {
        pairs.push((7, ts));
    }
    for i in (1..pairs.len()).rev() {
        let j = r.below(i as u64 + 1) as usize;
        pairs.swap(i, j);
    }
    n.target_info = ntlm::av_pairs(&pairs);
    n.target_name = crate::refs::bytes::utf16le(&client::ascii_name(r, 10));
    n
}
