//! Harness transports: everything the client reads or writes goes through one of these, and
//! every call is recorded (logical clock = call counter).

use std::io::{self, Read, Write};
use std::sync::{Arc, Mutex};

// ------------------------------------------------------------------------------------------
// FragmentingReader: holds a whole inbound stream and hands it out per a schedule of chunk sizes

#[derive(Default)]
pub struct FragState {
    pub data: Vec<u8>,
    pub pos: usize,
    pub schedule: Vec<usize>,
    pub sched_i: usize,
    pub read_calls: u64,
    pub reads_after_eof: u64,
    pub max_request: usize,
    pub written: Vec<u8>,
    pub write_calls: u64,
    /// k >= 2: every k-th read call that finds data is interrupted (ErrorKind::Interrupted, nothing consumed)
    pub interrupt_every: usize,
    pub data_reads: usize,
    pub interrupted: u64,
    /// (stream position, milliseconds): the read call that would deliver the byte at that position first waits that long
    /// (a slow link, a peer that stalls in the middle of a frame); each pause happens once
    pub pauses: Vec<(usize, u64)>,
    pub paused_ms: u64,
}

#[derive(Clone)]
pub struct FragmentingReader(pub Arc<Mutex<FragState>>);

impl FragmentingReader {
    pub fn new(data: Vec<u8>, schedule: Vec<usize>) -> Self {
        let schedule = if schedule.is_empty() { vec![usize::MAX] } else { schedule };
        FragmentingReader(Arc::new(Mutex::new(FragState { data, schedule, ..Default::default() })))
    }
    pub fn consumed(&self) -> usize {
        self.0.lock().unwrap().pos
    }
    pub fn interrupt_every(&self, k: usize) {
        self.0.lock().unwrap().interrupt_every = k;
    }
    pub fn interrupted(&self) -> u64 {
        self.0.lock().unwrap().interrupted
    }
    pub fn set_pauses(&self, p: Vec<(usize, u64)>) {
        self.0.lock().unwrap().pauses = p;
    }
    pub fn paused_ms(&self) -> u64 {
        self.0.lock().unwrap().paused_ms
    }
    pub fn written(&self) -> Vec<u8> {
        self.0.lock().unwrap().written.clone()
    }
    pub fn take_written(&self) -> Vec<u8> {
        std::mem::take(&mut self.0.lock().unwrap().written)
    }
    pub fn push(&self, more: &[u8]) {
        self.0.lock().unwrap().data.extend_from_slice(more);
    }
}

impl Read for FragmentingReader {
    fn read(&mut self, buf: &mut [u8]) -> io::Result<usize> {
        let mut s = self.0.lock().unwrap();
        s.read_calls += 1;
        if buf.len() > s.max_request {
            s.max_request = buf.len();
        }
        let rem = s.data.len() - s.pos;
        if rem == 0 {
            s.reads_after_eof += 1;
            return Ok(0);
        }
        if buf.is_empty() {
            return Ok(0);
        }
        let pos = s.pos;
        if let Some(i) = s.pauses.iter().position(|(p, _)| *p <= pos) {
            let (_, ms) = s.pauses.remove(i);
            s.paused_ms += ms;
            std::thread::sleep(std::time::Duration::from_millis(ms));
        }
        if s.interrupt_every >= 2 {
            s.data_reads += 1;
            if s.data_reads % s.interrupt_every == 0 {
                s.interrupted += 1;
                return Err(io::Error::new(io::ErrorKind::Interrupted, "injected: interrupted system call"));
            }
        }
        let k = s.schedule[s.sched_i % s.schedule.len()].max(1);
        s.sched_i += 1;
        let n = buf.len().min(k).min(rem);
        let p = s.pos;
        buf[..n].copy_from_slice(&s.data[p..p + n]);
        s.pos += n;
        Ok(n)
    }
}

impl Write for FragmentingReader {
    fn write(&mut self, buf: &[u8]) -> io::Result<usize> {
        let mut s = self.0.lock().unwrap();
        s.write_calls += 1;
        s.written.extend_from_slice(buf);
        Ok(buf.len())
    }
    fn flush(&mut self) -> io::Result<()> {
        Ok(())
    }
}

// ------------------------------------------------------------------------------------------
// AdversarialWriter: short writes per schedule, one injected error at a byte position

#[derive(Clone, Copy, Debug, PartialEq, Eq)]
pub enum Fault {
    None,
    /// hard error of this kind once `at` bytes have been accepted
    Error { at: usize, kind: io::ErrorKind, transient: bool },
    /// the stream accepts nothing any more (Ok(0)) once `at` bytes have been accepted
    Zero { at: usize },
}

#[derive(Default)]
pub struct AdvState {
    pub accepted: Vec<u8>,
    pub caps: Vec<usize>,
    pub cap_i: usize,
    pub fault: Option<Fault>,
    pub fault_fired: u64,
    pub write_calls: u64,
    pub calls_after_error: u64,
    pub inbound: Vec<u8>,
    pub in_pos: usize,
}

#[derive(Clone)]
pub struct AdversarialWriter(pub Arc<Mutex<AdvState>>);

impl AdversarialWriter {
    pub fn new(caps: Vec<usize>, fault: Fault, inbound: Vec<u8>) -> Self {
        let caps = if caps.is_empty() { vec![usize::MAX] } else { caps };
        AdversarialWriter(Arc::new(Mutex::new(AdvState { caps, fault: Some(fault), inbound, ..Default::default() })))
    }
    pub fn accepted(&self) -> Vec<u8> {
        self.0.lock().unwrap().accepted.clone()
    }
    pub fn take_accepted(&self) -> Vec<u8> {
        std::mem::take(&mut self.0.lock().unwrap().accepted)
    }
    pub fn fault_fired(&self) -> u64 {
        self.0.lock().unwrap().fault_fired
    }
    pub fn set_fault(&self, f: Fault) {
        let mut s = self.0.lock().unwrap();
        s.fault = Some(f);
    }
}

impl Write for AdversarialWriter {
    fn write(&mut self, buf: &[u8]) -> io::Result<usize> {
        let mut s = self.0.lock().unwrap();
        s.write_calls += 1;
        if s.fault_fired > 0 {
            s.calls_after_error += 1;
        }
        if buf.is_empty() {
            return Ok(0);
        }
        let done = s.accepted.len();
        let mut room = usize::MAX;
        match s.fault.unwrap_or(Fault::None) {
            Fault::None => {}
            Fault::Error { at, kind, transient } => {
                if done >= at && !(transient && s.fault_fired > 0) {
                    s.fault_fired += 1;
                    return Err(io::Error::new(kind, "injected write fault"));
                }
                if done < at {
                    room = at - done;
                }
            }
            Fault::Zero { at } => {
                if done >= at {
                    s.fault_fired += 1;
                    return Ok(0);
                }
                room = at - done;
            }
        }
        let cap = s.caps[s.cap_i % s.caps.len()].max(1);
        s.cap_i += 1;
        let n = buf.len().min(cap).min(room);
        s.accepted.extend_from_slice(&buf[..n]);
        Ok(n)
    }
    fn flush(&mut self) -> io::Result<()> {
        Ok(())
    }
}

impl Read for AdversarialWriter {
    fn read(&mut self, buf: &mut [u8]) -> io::Result<usize> {
        let mut s = self.0.lock().unwrap();
        let rem = s.inbound.len() - s.in_pos;
        let n = rem.min(buf.len());
        let p = s.in_pos;
        buf[..n].copy_from_slice(&s.inbound[p..p + n]);
        s.in_pos += n;
        Ok(n)
    }
}
