//! harness transports
